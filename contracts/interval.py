"""Ghost definitions for miasm.core.interval (C26): abstraction function and representation invariant.

gamma(I) = { z | exists (a, b) in I . a <= z <= b }   -- `mem(z, I)` is its characteristic function, used pointwise
for an arbitrary integer z (validity over z = equality of sets).
canonical(I): every pair non-empty, sorted, consecutive pairs separated by a gap of at least one integer
(b_i + 1 < a_{i+1}) -- the form the property needs for "equal sets <=> equal lists".
"""
from vc.terms import And, Or


def mem(z, pairs):
    return Or(*[And(a <= z, z <= b) for (a, b) in pairs])


def valid(pairs):
    return And(*[a <= b for (a, b) in pairs])


def canonical(pairs):
    c = [a <= b for (a, b) in pairs]
    for (a0, b0), (a1, b1) in zip(pairs, pairs[1:]):
        c.append(b0 + 1 < a1)
    return And(*c)
