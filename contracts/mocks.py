"""Assumed interface contracts of the emulator objects that the OS-helper code talks to (C47, C48, C25).

These are *interfaces with assumed behaviour*, not verified code: the VmMngr C extension and the jitter calling-convention
helpers.  They only record what they are asked to do (ghost state); the contracts of the functions under verification
are stated over that record.  The files is interpreted by pyvc like repository code when arguments are symbolic.
"""


class Args(object):
    pass


class GhostVm(object):
    """VmMngr as seen by the allocators: a list of live pages.  add_memory_page appends (address, length, access);
    whether the new page overlaps a live one is judged by the contract of the caller (C24's is_mpn_in_tab contract says the
    real manager refuses such a call)."""

    def __init__(self, pages):
        self.pages = list(pages)          # (addr, size) of pages live before the call
        self.added = []                   # (addr, size) in call order
        self.writes = []                  # set_mem calls (addr, data)
        self.access = []

    def add_memory_page(self, addr, access, data, cmt=""):
        self.added.append((addr, len(data)))

    def get_all_memory(self):
        out = {}
        for (a, s) in self.pages:
            out[a] = {"size": s, "access": 3, "data": None}
        for (a, s) in self.added:
            out[a] = {"size": s, "access": 3, "data": None}
        return out

    def set_mem_access(self, addr, access):
        self.access.append((addr, access))

    def set_mem(self, addr, data):
        self.writes.append((addr, data))

    def is_mapped(self, addr, size):
        for (a, s) in self.pages + self.added:
            if a <= addr and addr + size <= a + s:
                return True
        return False


class GhostJitter(object):
    """jitter.func_args_stdcall / func_ret_stdcall (assumed): arguments are handed out as given, results recorded."""

    def __init__(self, ret_ad, names, values, vm=None):
        self.ret_ad = ret_ad
        self.names = list(names)
        self.values = list(values)
        self.vm = vm
        self.rets = []

    def func_args_stdcall(self, names):
        args = Args()
        if list(names) != self.names:
            raise RuntimeError("unexpected argument list %r" % (names,))
        i = 0
        for n in names:
            setattr(args, n, self.values[i])
            i += 1
        return self.ret_ad, args

    def func_ret_stdcall(self, ret_ad, ret1=None, ret2=None):
        self.rets.append((ret_ad, ret1, ret2))


class GhostFile(object):
    """Assumed contract of a seekable binary file object (io.BufferedReader / BytesIO): seek(pos, whence) with whence 0 and 2,
    tell(), read(n) returning the bytes [pos, pos+n) clipped to the file and advancing the position."""

    def __init__(self, content):
        self.content = content
        self.pos = 0

    def seek(self, pos, whence=0):
        if whence == 0:
            self.pos = pos
        elif whence == 2:
            self.pos = len(self.content) + pos
        else:
            self.pos = self.pos + pos
        if self.pos < 0:
            raise ValueError("negative seek value")
        return self.pos

    def tell(self):
        return self.pos

    def read(self, n=-1):
        start = self.pos
        if start > len(self.content):
            start = len(self.content)
        if n is None or n < 0:
            stop = len(self.content)
        else:
            stop = start + n
            if stop > len(self.content):
                stop = len(self.content)
        data = self.content[start:stop]
        self.pos = stop
        return data


class GhostVirt(object):
    """Assumed contract of a parsed binary's virtual view: get(start, stop) returns the bytes of [start, stop) when the whole
    range is inside the single mapped region [base, base+len), raises ValueError otherwise."""

    def __init__(self, base, content):
        self.base = base
        self.content = content

    def get(self, start, stop=None):
        if start < self.base or stop > self.base + len(self.content) or stop < start:
            raise ValueError("address not mapped")
        return self.content[start - self.base:stop - self.base]

    def max_addr(self):
        return self.base + len(self.content)

    def is_addr_in(self, ad):
        return self.base <= ad < self.base + len(self.content)


class GhostContainer(object):
    def __init__(self, virt, sex=0):
        self.virt = virt
        self._sex = sex
        self.sex = sex


class GhostVmMem(object):
    """Assumed contract of VmMngr.get_mem: the bytes of [addr, addr+size) when mapped (one region), RuntimeError otherwise."""

    def __init__(self, base, content, little=True):
        self.base = base
        self.content = content
        self.little = little

    def is_little_endian(self):
        return self.little

    def get_mem(self, addr, size):
        if addr < self.base or addr + size > self.base + len(self.content) or size < 0:
            raise RuntimeError("Cannot find address")
        return self.content[addr - self.base:addr - self.base + size]
