"""Assumed interface contracts of the emulator objects that the OS-helper code talks to (C47, C48, C25).

These are *interfaces with assumed behaviour*, not verified code: the VmMngr C extension and the jitter calling-convention
helpers.  They only record what they are asked to do (ghost state); the contracts of the functions under verification
are stated over that record.  The files is interpreted by pyvc like repository code when arguments are symbolic.
"""


class Args(object):
    pass


class GhostVm(object):
    """VmMngr as seen by the allocators: a list of live pages.  add_memory_page appends (address, length, access);
    whether the new page overlaps a live one is judged by the contract of the caller (C24's is_mpn_in_tab contract says the
    real manager refuses such a call)."""

    def __init__(self, pages):
        self.pages = list(pages)          # (addr, size) of pages live before the call
        self.added = []                   # (addr, size) in call order
        self.writes = []                  # set_mem calls (addr, data)
        self.access = []

    def add_memory_page(self, addr, access, data, cmt=""):
        self.added.append((addr, len(data)))

    def get_all_memory(self):
        out = {}
        for (a, s) in self.pages:
            out[a] = {"size": s, "access": 3, "data": None}
        for (a, s) in self.added:
            out[a] = {"size": s, "access": 3, "data": None}
        return out

    def set_mem_access(self, addr, access):
        self.access.append((addr, access))

    def set_mem(self, addr, data):
        self.writes.append((addr, data))

    def is_mapped(self, addr, size):
        for (a, s) in self.pages + self.added:
            if a <= addr and addr + size <= a + s:
                return True
        return False


class GhostJitter(object):
    """jitter.func_args_stdcall / func_ret_stdcall (assumed): arguments are handed out as given, results recorded."""

    def __init__(self, ret_ad, names, values, vm=None):
        self.ret_ad = ret_ad
        self.names = list(names)
        self.values = list(values)
        self.vm = vm
        self.rets = []

    def func_args_stdcall(self, names):
        args = Args()
        if list(names) != self.names:
            raise RuntimeError("unexpected argument list %r" % (names,))
        i = 0
        for n in names:
            setattr(args, n, self.values[i])
            i += 1
        return self.ret_ad, args

    def func_ret_stdcall(self, ret_ad, ret1=None, ret2=None):
        self.rets.append((ret_ad, ret1, ret2))
