"""Bounded stand-in: run-time contract check of the REAL function over an exhaustively enumerated small scope.
Labelled bounded everywhere (evidence level 'exploration'); never counted as proved."""
from __future__ import annotations

import signal
import time
import traceback


class CaseTimeout(BaseException):
    pass


class case_time_limit(object):
    """per-case wall-clock guard (a changed function may not terminate); nests inside the worker's SIGALRM budget: the outer
    timer and handler are restored with the time already spent deducted"""

    def __init__(self, seconds):
        self.seconds = seconds

    def _handler(self, signum, frame):
        raise CaseTimeout()

    def __enter__(self):
        self.t0 = time.time()
        self.old_handler = signal.signal(signal.SIGALRM, self._handler)
        self.old_left = signal.setitimer(signal.ITIMER_REAL, self.seconds)[0]

    def __exit__(self, *a):
        signal.setitimer(signal.ITIMER_REAL, 0)
        signal.signal(signal.SIGALRM, self.old_handler)
        if self.old_left:
            signal.setitimer(signal.ITIMER_REAL, max(self.old_left - (time.time() - self.t0), 0.05))
        return False


class BoundedContract(object):
    """subclass: name, funcs (real functions under contract), cases() -> list, check(case) -> (ok, why, nontrivial)"""
    kind = "bounded"
    chunks = 1
    CASE_SECONDS = 20

    def __init__(self, tid, chunk=0, nchunks=1, tier="quick"):
        self.id = tid if nchunks == 1 else "%s/chunk%d" % (tid, chunk)
        self.base_id = tid
        self.chunk, self.nchunks, self.tier = chunk, nchunks, tier
        self.min_obligations = 1
        self.params = {}
        self.bound = getattr(self, "BOUND", "small scope")

    def funcs(self):
        return []

    def show(self, case):
        return repr(case)[:300]

    def my_cases(self):
        cs = self.cases()
        return [(i, c) for i, c in enumerate(cs) if i % self.nchunks == self.chunk]

    def run_custom(self, findings, seed):
        from vc import loader
        t0 = time.time()
        res = {"id": self.id, "kind": "bounded", "params": {}, "bound": self.bound, "functions": [], "paths": 0,
               "obligations": 0, "discharged": 0, "refuted": [], "undecided": [], "unsupported": None, "engine_error": None,
               "known": [], "backends": {}, "samples": [], "solver_time": 0.0, "covers": [], "extra_coverage": {}}
        for f in self.funcs():
            try:
                h = loader.func_text_hash(f)
                h["name"] = "%s:%s" % (f.__module__, f.__qualname__)
                res["functions"].append(h)
            except Exception:
                pass
        known = [f for f in findings if f.get("status", "known") == "known" and self.base_id.startswith(f["target"])]
        nontrivial = 0
        n = 0
        timeouts = 0
        try:
            for i, c in self.my_cases():
                n += 1
                try:
                    try:
                        with case_time_limit(self.CASE_SECONDS):
                            r = self.check(c)
                    except CaseTimeout:
                        # a loaded machine must not turn into an alarm: the case gets a second attempt with six times the
                        # budget before it is reported as not terminating
                        try:
                            with case_time_limit(6 * self.CASE_SECONDS):
                                r = self.check(c)
                        except CaseTimeout:
                            r = (False, "does not terminate within %ds (nor within %ds on a second attempt)" % (
                                self.CASE_SECONDS, 6 * self.CASE_SECONDS), True)
                            timeouts += 1
                except Exception as e:      # noqa -- an exception escaping the contract wrapper is a failed case
                    r = (False, "raises %s: %s" % (type(e).__name__, str(e)[:200]), True)
                if not r[0] and r[1].startswith("does not terminate within") and timeouts >= 3:
                    # a non-terminating change fails many cases the same way: report the first ones and stop this chunk
                    res["obligations"] += 1
                    res["refuted"].append({"obligation": "%s/case%d" % (self.base_id, i), "model": {"index": i, "case": self.show(c)},
                                           "backend": "runtime", "replay": {"status": "fails", "detail": r[1]}, "goal": r[1],
                                           "pc": []})
                    break
                ok, why = r[0], r[1]
                if len(r) > 2 and r[2]:
                    nontrivial += 1
                res["obligations"] += 1
                if ok:
                    res["discharged"] += 1
                    if len(res["samples"]) < 2 and len(r) > 2 and r[2]:
                        res["samples"].append({"case": self.show(c), "verdict": "contract holds"})
                    continue
                hit = None
                for f in known:
                    try:
                        if eval(f["witness"], {"__builtins__": {}}, {"case": self.show(c), "why": why, "index": i, "key": c}):
                            hit = f
                            break
                    except Exception:
                        pass
                if hit is not None:
                    res["known"].append({"finding": hit["id"], "obligation": "%s/case%d" % (self.base_id, i),
                                         "model": {"case": self.show(c)}, "replay": "fails"})
                    res["obligations"] -= 1
                    continue
                if len(res["refuted"]) < 8:
                    res["refuted"].append({"obligation": "%s/case%d" % (self.base_id, i), "model": {"index": i, "case": self.show(c)},
                                           "backend": "runtime", "replay": {"status": "fails", "detail": why}, "goal": why[:300],
                                           "pc": []})
        except Exception as e:      # noqa
            res["engine_error"] = "%s\n%s" % (e, traceback.format_exc())
        res["backends"]["runtime-contract(bounded)"] = res["discharged"]
        res["extra_coverage"] = {"bounded_runtime_cases": n, "bounded_nontrivial_cases": nontrivial}
        if not res["samples"] and n:
            res["samples"] = [{"case": self.show(self.my_cases()[0][1]), "verdict": "contract holds"}]
        res["wall"] = time.time() - t0
        return res

    def replay_custom(self, rp):
        i = int(rp["model"]["index"])
        cs = self.cases()
        try:
            with case_time_limit(self.CASE_SECONDS):
                r = self.check(cs[i])
        except CaseTimeout:
            r = (False, "does not terminate within %ds" % self.CASE_SECONDS)
        except Exception as e:      # noqa
            r = (False, "raises %r" % (e,))
        return {"status": "passes" if r[0] else "fails", "detail": r[1], "failed": []}


def chunked(cls, tid, n, tier, *args):
    return [cls(tid, i, n, tier, *args) for i in range(n)]
