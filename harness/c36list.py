"""recompute the ids of the generated programs on which the SSA pipeline changes behaviour (C36 known finding); run under
PYTHONHASHSEED=0 on a clean /repo:  PYTHONHASHSEED=0 .venv312/bin/python -m harness.c36list"""
import sys
from multiprocessing import Pool

from props import C36


def one(case):
    t = C36.SimpCases.__new__(C36.SimpCases)
    t.tier = "thorough"
    try:
        ok, why, _ = t.check(case)
    except Exception as e:      # noqa
        return case, "EXC %r" % e
    return case, (None if ok else why)


if __name__ == "__main__":
    t = C36.SimpCases.__new__(C36.SimpCases)
    t.tier = "thorough"
    with Pool(16) as p:
        res = p.map(one, t.cases(), chunksize=20)
    bad = [(c, w) for c, w in res if w]
    other = [(c, w) for c, w in bad if "IRCFGSimplifierSSA" not in w or "raises" in w or w.startswith("EXC")]
    print("failing:", len(bad), "not of the known kind:", other[:5])
    print(", ".join(str(c) for c, _ in bad))
