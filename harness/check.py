"""./check <ID> [--tier quick|thorough] [--replay FILE] [--write-lock] [--only SUBSTR] [-j N]

Exit codes: 0 property held on everything explored (known findings printed), 1 violation (VIOLATION line),
2 undecided / function outside the verifier's subset, 3 internal error of the checker.
"""
from __future__ import annotations

import argparse
import importlib
import json
import multiprocessing
import os
import re
import sys
import time
import traceback

HERE = os.path.dirname(os.path.dirname(os.path.abspath(__file__)))
sys.path.insert(0, HERE)
sys.setrecursionlimit(20000)
sys.set_int_max_str_digits(0)

try:
    import ctypes
    _shim = os.path.join(HERE, ".venv312", "arena_shim.so")
    if os.path.exists(_shim) and not os.environ.get("VERIF_NO_SHIM"):
        ctypes.PyDLL(_shim).vc_install_arena_cache()
except Exception:      # noqa -- purely a performance aid
    pass

from harness import core  # noqa: E402
import logging  # noqa: E402
logging.disable(logging.CRITICAL)
sys.unraisablehook = lambda *a: None        # __del__ of half-built objects of abandoned paths     # the real code's log output is not an observation of any property

_TARGETS = []
_FINDINGS = []
_SEED = 0
_TLIMIT = int(os.environ.get("VERIF_TARGET_SECONDS", "900"))


def _worker(i):
    t = _TARGETS[i]
    core.limit_memory()
    import signal

    def _alarm(signum, frame):
        raise core.Unsupported("time budget of the target exceeded (%ds)" % _TLIMIT)
    signal.signal(signal.SIGALRM, _alarm)
    signal.alarm(_TLIMIT)
    try:
        if hasattr(t, "run_custom"):
            return t.run_custom(_FINDINGS, _SEED)
        return core.run_target(t, _FINDINGS, _SEED)
    except core.Unsupported as e:
        return {"id": t.id, "unsupported": str(e), "obligations": 0, "discharged": 0, "refuted": [], "undecided": [],
                "known": [], "functions": [], "paths": 0}
    except Exception as e:      # noqa
        return {"id": t.id, "engine_error": "worker crashed: %r\n%s" % (e, traceback.format_exc()), "obligations": 0,
                "discharged": 0, "refuted": [], "undecided": [], "known": [], "functions": [], "paths": 0}
    finally:
        signal.alarm(0)


def load_findings(pid):
    p = os.path.join(HERE, "known_findings.json")
    if not os.path.exists(p):
        return []
    with open(p) as f:
        data = json.load(f)
    return [x for x in data.get("findings", []) if x["property"] == pid]


def evidence_dir(partial=False):
    """evidence/ is the record of the registered commands on the CURRENT tree.  Development runs that are not one of them
    (a seeded change applied to /repo by harness/seedtest.sh, a `--only` subset) must not overwrite it: they write to the
    directory named by VERIF_EVIDENCE_DIR, or to evidence/.partial/ (git-ignored)."""
    d = os.environ.get("VERIF_EVIDENCE_DIR")
    if d:
        return d
    if partial:
        return os.path.join(HERE, "evidence", ".partial")
    return os.path.join(HERE, "evidence")


def validate_evidence(ev):
    """-> None or a one-line reason.  The record must validate against the evidence schema; a proof-level record must have
    every proof obligation discharged unless the run reports violations / undecided obligations (then the exit code is
    non-zero anyway and the counts say why)."""
    try:
        import jsonschema
        sp = os.path.join(HERE, "harness", "EVIDENCE.schema.json")
        if not os.path.exists(sp):
            sp = "/root/.vp/EVIDENCE.schema.json"
        with open(sp) as f:
            schema = json.load(f)
        jsonschema.validate(json.loads(json.dumps(ev, default=repr)), schema)
    except ImportError:
        return None
    except Exception as e:      # noqa
        return str(e).splitlines()[0][:300]
    c = ev["coverage"]
    if ev["level"] == "proof" and c["discharged"] != c["obligations"] and not ev.get("violations") and not c.get("undecided"):
        return "proof level: discharged (%d) != obligations (%d) although nothing was refuted or left undecided" % (
            c["discharged"], c["obligations"])
    return None


def sanitize(s):
    return re.sub(r"[^A-Za-z0-9_.=-]", lambda m: "_" if m.group(0) in "/ :" else "~%02x" % ord(m.group(0)), s)[:180]


def write_replay(pid, tid, obligation, payload):
    d = os.path.join(HERE, "replay", pid)
    os.makedirs(d, exist_ok=True)
    p = os.path.join(d, sanitize(obligation) + ".json")
    payload = dict(payload)
    payload.update({"property": pid, "target": tid, "obligation": obligation})
    with open(p, "w") as f:
        json.dump(payload, f, indent=1, default=repr)
    return p


def main(argv=None):
    global _TARGETS, _FINDINGS, _SEED
    ap = argparse.ArgumentParser()
    ap.add_argument("pid")
    ap.add_argument("--tier", default=os.environ.get("VERIF_TIER", "quick"))
    ap.add_argument("--replay")
    ap.add_argument("--write-lock", action="store_true")
    ap.add_argument("--only")
    ap.add_argument("-j", type=int, default=int(os.environ.get("VERIF_JOBS", "16")))
    ap.add_argument("-v", action="store_true")
    args = ap.parse_args(argv)
    pid = args.pid
    tier = args.tier if args.tier in ("quick", "thorough") else "quick"
    _SEED = int(os.environ.get("VERIF_SEED", "0") or 0)
    t0 = time.time()
    try:
        mod = importlib.import_module("props." + pid)
        meta = mod.PROPERTY
        targets = mod.targets(tier)
    except Exception:
        traceback.print_exc()
        print("CHECKER-ERROR property=%s could not build targets" % pid)
        return 3
    if args.only:
        targets = [t for t in targets if args.only in t.id]
    findings = load_findings(pid)
    _FINDINGS = findings

    if args.replay:
        with open(args.replay) as f:
            rp = json.load(f)
        tg = [t for t in targets if t.id == rp["target"]]
        if not tg:
            print("replay: target %s not found" % rp["target"])
            return 3
        if hasattr(tg[0], "replay_custom"):
            r = tg[0].replay_custom(rp)
        else:
            r = core.replay_model(tg[0], rp.get("model", {}))
        print(json.dumps(r, indent=1, default=repr))
        if r["status"] in ("fails", "replay-error"):
            print("VIOLATION property=%s replay=%s" % (pid, args.replay))
            return 1
        print("replay: the recorded input does not fail on this tree")
        return 0

    _TARGETS = targets
    if not targets:
        print("CHECKER-ERROR property=%s no targets" % pid)
        return 3
    if args.j > 1 and len(targets) > 1:
        ctx = multiprocessing.get_context("fork")
        with ctx.Pool(min(args.j, len(targets))) as pool:
            results = pool.map(_worker, range(len(targets)), chunksize=1)
    else:
        results = [_worker(i) for i in range(len(targets))]

    lock_path = os.path.join(HERE, "obligations.lock.json")
    lock = {}
    if os.path.exists(lock_path):
        with open(lock_path) as f:
            lock = json.load(f)
    plock = lock.get(pid, {})

    violations = []
    undecided = []
    errors = []
    known_lines = {}
    tot_ob = tot_dis = 0
    bnd_ob = bnd_dis = 0            # obligations of bounded stand-in targets: reported, never counted as proved
    functions = {}
    backends = {}
    solver_time = 0.0
    samples = []
    interpreted = {}
    diff_samples = 0
    bounded_targets = 0
    for t, r in zip(targets, results):
        tot_ob += r.get("obligations", 0)
        tot_dis += r.get("discharged", 0)
        solver_time += r.get("solver_time", 0.0)
        for k, v in (r.get("backends") or {}).items():
            backends[k] = backends.get(k, 0) + v
        for k, v in (r.get("interpreted") or {}).items():
            interpreted[k] = interpreted.get(k, 0) + v
        for f in r.get("functions", []):
            functions[f.get("name")] = f
        if r.get("diff"):
            diff_samples += r["diff"]["samples"]
        if r.get("kind") == "bounded":
            bounded_targets += 1
            bnd_ob += r.get("obligations", 0)
            bnd_dis += r.get("discharged", 0)
        for s in r.get("samples", [])[:1]:
            if len(samples) < 8:
                samples.append(s)
        if r.get("engine_error"):
            errors.append((r["id"], r["engine_error"]))
            continue
        if r.get("unsupported"):
            undecided.append((r["id"], "outside the verifier's subset: " + r["unsupported"]))
        if r.get("obligations", 0) < getattr(t, "min_obligations", 1) and not r.get("unsupported"):
            errors.append((r["id"], "vacuity guard: %d obligations generated, at least %d expected" % (
                r.get("obligations", 0), getattr(t, "min_obligations", 1))))
        for c in getattr(t, "expect_covers", ()):
            # (a target whose every path ends in a refuted obligation -- e.g. the changed code does not terminate -- reports
            # those refutations; the cover guard is about silent vacuity)
            if c not in r.get("covers", []) and not r.get("unsupported") and not r.get("refuted"):
                errors.append((r["id"], "vacuity guard: cover point %r was not reached on any path" % c))
        for u in r.get("undecided", []):
            undecided.append((u["obligation"], "solver: " + str(u.get("reason"))))
        for k in r.get("known", []):
            known_lines.setdefault(k["finding"], k)
        for ref in r.get("refuted", []):
            rep = ref["replay"]
            if rep["status"] in ("fails", "replay-error"):
                p = write_replay(pid, r["id"], ref["obligation"], {"model": ref["model"], "solver": ref["backend"],
                                                                    "goal": ref["goal"], "pc": ref["pc"], "replay": rep})
                violations.append((ref["obligation"], p, ""))
            else:
                if r["id"] in plock:
                    p = write_replay(pid, r["id"], ref["obligation"], {"model": ref["model"], "solver": ref["backend"],
                                                                        "goal": ref["goal"], "pc": ref["pc"], "replay": rep,
                                                                        "note": "obligation was discharged on the unchanged tree; "
                                                                                "the counter-model does not fail natively"})
                    violations.append((ref["obligation"], p, " no-failing-input-found"))
                else:
                    undecided.append((ref["obligation"], "refuted by the solver but the model does not fail on the real "
                                                         "code (%s): engine/contract disagreement" % rep["status"]))
        if r.get("diff"):
            for cf in r["diff"].get("contract_failures", [])[:3]:
                # a random concrete input on which the real code breaks the contract: is it inside a known region?
                covered = False
                for f in findings:
                    if f.get("status", "known") == "known" and r["id"].startswith(f["target"]):
                        try:
                            env = dict((k.replace("!", "_"), v) for k, v in cf["values"].items())
                            env.update({"And": lambda *a: all(a), "Or": lambda *a: any(a), "Not": lambda a: not a,
                                        "Implies": lambda a, b: (not a) or b, "Max": max, "Min": min})
                            if eval(f["witness"], {"__builtins__": {}}, env):
                                covered = True
                                known_lines.setdefault(f["id"], {"finding": f["id"], "obligation": r["id"] + "/runtime",
                                                                 "model": cf["values"], "replay": "fails"})
                        except Exception:
                            pass
                if not covered:
                    ob = "%s/runtime-contract/%s" % (r["id"], cf["failed"][0])
                    p = write_replay(pid, r["id"], ob, {"model": cf["values"], "solver": "random concrete input",
                                                         "replay": {"status": "fails", "failed": cf["failed"]}})
                    violations.append((ob, p, ""))

    # ---- evidence ----------------------------------------------------------------------------------------
    level = meta["level"]
    fdesc = dict((f["id"], f) for f in findings)
    # A proof-level record counts only the obligations of unbounded (kind=proof) targets under obligations/discharged;
    # the bounded stand-ins of the same property are listed next to them under bounded_*.
    proof_only = level == "proof"
    cov = {
        "obligations": tot_ob - bnd_ob if proof_only else tot_ob,
        "discharged": tot_dis - bnd_dis if proof_only else tot_dis,
        "bounded_obligations": bnd_ob, "bounded_discharged": bnd_dis,
        "all_obligations": tot_ob, "all_discharged": tot_dis,
        "counting_rule": ("obligations/discharged = solver obligations of the unbounded targets only; bounded stand-ins are "
                          "counted under bounded_obligations/bounded_discharged and are not proof") if proof_only else
                         ("obligations/discharged = all obligations of this run (bounded and unbounded targets; see "
                          "per_target.kind and bounded_obligations)"),
        "checker_cmd": "./check %s --tier %s" % (pid, tier),
        "trusted_base": meta.get("trusted_base", []),
        "explanation": meta.get("explanation", ""),
        "targets": len(targets), "bounded_targets": bounded_targets,
        "functions_under_contract": sorted(functions.values(), key=lambda f: f.get("name") or ""),
        "functions_interpreted": interpreted,
        "backends": backends, "solver_time_s": round(solver_time, 3),
        "paths": sum(r.get("paths", 0) for r in results),
        "cpython_differential_cases": diff_samples,
        "per_target": [{"id": r["id"], "kind": r.get("kind"), "params": r.get("params"), "bound": r.get("bound"),
                        "paths": r.get("paths"), "obligations": r.get("obligations"), "discharged": r.get("discharged"),
                        "refuted": len(r.get("refuted", [])), "undecided": len(r.get("undecided", [])),
                        "unsupported": r.get("unsupported"), "wall_s": round(r.get("wall", 0), 2)} for r in results],
        "samples": samples or [{"note": "no discharged obligation sample"}],
        "undecided": [list(u) for u in undecided[:50]],
        "known_findings_present": sorted(known_lines),
        "not_attempted": meta.get("not_attempted", []),
        "rule": meta.get("rule", "one case = one obligation (path condition => goal) generated from the real source"),
        "evaluations": max(tot_ob, 1),
        "distinct_nontrivial": max(len(set(s for r in results for s in [r["id"]] if r.get("obligations"))), 0) + tot_dis,
    }
    for r in results:
        if r.get("extra_coverage"):
            for k, v in r["extra_coverage"].items():
                if isinstance(v, (int, float)) and isinstance(cov.get(k), (int, float)):
                    cov[k] += v
                elif isinstance(v, list) and isinstance(cov.get(k), list):
                    cov[k] = (cov[k] + v)[:12]
                elif isinstance(v, dict) and isinstance(cov.get(k), dict):
                    for kk, vv in v.items():
                        cov[k][kk] = cov[k].get(kk, 0) + vv
                else:
                    cov[k] = v
    if cov.get("bounded_runtime_cases"):
        cov["evaluations"] = max(cov["evaluations"], int(cov["bounded_runtime_cases"]))
        if cov.get("bounded_nontrivial_cases") is not None:
            cov["distinct_nontrivial"] = int(cov["bounded_nontrivial_cases"]) + tot_dis
    ev = {"property_id": pid, "tier": tier, "seed": _SEED, "level": level, "coverage": cov,
          "assumptions": meta.get("assumptions", []), "wall_s": round(time.time() - t0, 2),
          "violations": len(violations)}
    ev_err = validate_evidence(ev)
    evdir = evidence_dir(partial=bool(args.only))
    os.makedirs(evdir, exist_ok=True)
    with open(os.path.join(evdir, pid + ".json"), "w") as f:
        json.dump(ev, f, indent=1, default=repr)
    if ev_err:
        errors.append((pid + "/evidence", "evidence record is not valid for its level: " + ev_err))

    if args.write_lock and not violations and not errors:
        lock[pid] = dict((r["id"], r.get("obligations", 0)) for r in results if not r.get("refuted")
                         and not r.get("undecided") and not r.get("unsupported"))
        with open(lock_path, "w") as f:
            json.dump(lock, f, indent=0, sort_keys=True)

    # ---- report ------------------------------------------------------------------------------------------
    print("%s %s: %d targets, %d obligations, %d discharged (of which bounded stand-ins: %d/%d), %d violations, %d undecided, "
          "%.1fs (solver %.1fs)" % (pid, tier, len(targets), tot_ob, tot_dis, bnd_dis, bnd_ob, len(violations), len(undecided),
                                    time.time() - t0, solver_time))
    for fid, k in sorted(known_lines.items()):
        f = fdesc.get(fid, {})
        print("KNOWN-FINDING: property=%s %s [%s; witness %s]" % (pid, f.get("what", fid), fid, json.dumps(k.get("model"))[:200]))
    for f in findings:
        if f.get("status", "known") == "known" and f["id"] not in known_lines:
            print("note: known finding %s did not reproduce on this run (stale entry?)" % f["id"])
    if errors:
        for tid, e in errors[:10]:
            print("CHECKER-ERROR %s: %s" % (tid, e if args.v else str(e).splitlines()[0][:300]))
        if args.v:
            pass
        return 3
    seen_paths = set()
    for ob, p, suffix in violations:
        if p in seen_paths or len(seen_paths) >= 40:
            continue
        seen_paths.add(p)
        print("VIOLATION property=%s replay=%s%s" % (pid, p, suffix))
        if args.v:
            print("    obligation:", ob)
    if violations:
        return 1
    if undecided:
        for ob, why in undecided[:20]:
            print("UNDECIDED %s: %s" % (ob, why[:300]))
        return 2
    return 0


if __name__ == "__main__":
    sys.exit(main())
