"""Development utility (not run by any check): census of the failure classes of C14 / C15 / C16 over the full thorough family.
usage: python -m harness.classcensus C15  -> /tmp/<id>census.json {count: {tag: n}, ex: {tag: first text}}
The tag lists of the known findings of these properties (known_findings.json, field "tags") were produced from this census; a tag
that no finding lists is a violation when the check runs."""
import collections
import importlib
import json
import sys
from multiprocessing import Pool


def work(jobs):
    import logging
    logging.disable(logging.CRITICAL)
    out = []
    for pid, a, k in jobs:
        mod = importlib.import_module("props." + pid)
        n, fails = mod.run_chunk(a, k)
        out.append((n, fails))
    return out


def main(pid):
    mod = importlib.import_module("props." + pid)
    cls = [v for v in vars(mod).values() if isinstance(v, type) and hasattr(v, "cases") and v.__module__ == mod.__name__][0]
    inst = cls.__new__(cls)
    inst.tier = "thorough"
    jobs = sorted(set((pid, c[0], c[1]) for c in inst.cases()), key=repr)
    cnt = collections.Counter()
    mx = collections.Counter()
    ex = {}
    total = 0
    with Pool(16) as p:
        for res in p.imap_unordered(work, [jobs[i::64] for i in range(64)]):
            for n, fails in res:
                total += n
                per = collections.Counter(t for t, _ in fails)
                for t, c in per.items():
                    mx[t] = max(mx[t], c)
                for t, w in fails:
                    cnt[t] += 1
                    ex.setdefault(t, w)
    json.dump({"count": cnt, "ex": ex, "max": mx}, open("/tmp/%scensus.json" % pid, "w"), indent=1)
    g = collections.defaultdict(list)
    for t, c in cnt.items():
        p = t.split(":")
        g[(p[1], p[3])].append((p[2], c))
    print(len(cnt), "classes", sum(cnt.values()), "failures of", total)
    for k, v in sorted(g.items()):
        print(k, sum(c for _, c in v), " ".join("%s:%d" % x for x in sorted(v))[:1500])


if __name__ == "__main__":
    main(sys.argv[1])
