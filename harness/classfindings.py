"""Development utility (not run by any check): writes the class-keyed known findings of C15 / C16 into known_findings.json from the
census of harness.classcensus (/tmp/<id>census.json).  Every census tag must be claimed by exactly one group below (each group is one
triaged defect of miasm); the script refuses to write otherwise.  usage: python -m harness.classfindings C15"""
import json
import sys

G = {}
G["C15"] = [
 ("C15-x86-high-byte-register", "x86", lambda m, k: m == "high-byte-register",
  "in 64-bit mode asm() proposes, for an instruction with AH / CH / DH / BH, REX-prefixed encodings in which the register is SPL / BPL / SIL / DIL: "
  "`32 f8` XOR BH, AL -> proposal `40 32 f8` decodes to XOR DIL, AL (every 8-bit instruction with a high-byte register)"),
 ("C15-x86-no-encoding", "x86", lambda m, k: k in ("ValueError", "none"),
  "x86 instructions the decoder accepts and asm() cannot encode (ValueError 'cannot asm' or an empty list): far CALL / JMP ptr16:32 in 32-bit mode "
  "(`9a b7 38 c8 ea 3d 9f` CALL 0x9F3D:0xEAC838B7), 64-bit PUSH of a sign-extended imm32 (`68 41 b8 5b bc` PUSH 0xFFFFFFFFBC5BB841), 64-bit MOV to a "
  "segment-prefixed moffs64 (`65 a2 ...` MOV BYTE PTR GS:[0x8B6F63BC5CD563B5], AL), 66-prefixed LOOPE with a wrapped 16-bit target in 64-bit mode (`66 e1 a2`)"),
 ("C15-x86-wrong-encoding", "x86", lambda m, k: k == "cand-length" or (k == "cand-differs" and m != "high-byte-register"),
  "x86 proposals that are another instruction: for a SIB operand without base and with an 8-bit displacement (`83 54 00 93 74` ADC DWORD PTR [RAX * 0x2 + "
  "0xFFFFFFFFFFFFFF93], 0x74; `0f 2f 44 00 00` COMISS XMM0, DWORD PTR [RAX * 0x2]) a proposal keeps mod=01 and carries a 32-bit displacement: it is longer than the "
  "instruction it decodes to; `40 90` XCHG EAX, EAX gets the proposal `90` (NOP); `f3 0f 7e ff` MOVQ XMM7, XMM7 gets `f3 66 0f d6 ff`, which decodes to REP MOVQ; "
  "`66 0f c2 00 01` CMPLTPD XMM0, [EAX] gets a proposal with a displacement byte that decodes to CMPEQPD (predicate byte shifted)"),
 ("C15-aarch64-load-store-index-forms", "aarch64", lambda m, k: m != "REV",
  "AArch64 load / store forms are confused by asm(): LDP / STP / LDR* / STR* with pre-index get the signed-offset encoding and vice versa (`a6 af de ad` little endian "
  "LDP Q6, Q11, [X29, 0x3D0]! -> proposal decodes to LDP Q6, Q11, [X29, 0x3D0]); post-index forms decode back as offset forms; SIMD LDP / STP with negative "
  "post / pre-index offsets and register-offset forms with XZR raise ValueError 'cannot asm'"),
 ("C15-aarch64-rev", "aarch64", lambda m, k: m == "REV",
  "AArch64 REV: `63 0c c0 da` REV X3, X3 gets the proposal `63 08 c0 da`, which decodes to REV32 X3, X3; `63 08 c0 5a` REV W3, W3 gets `63 0c c0 5a`, which does not decode"),
 ("C15-arm-pld", "arm", lambda m, k: True, "ARM `PLD [R2, 0x50]` (`50 f0 52 f5` little endian): asm raises ValueError 'cannot asm'"),
 ("C15-armt-ldr-str-forms", "armt", lambda m, k: m.startswith(("LDR", "STR")),
  "Thumb LDR / STR forms: SP-relative `LDR R7, [SP, 0x2CC]` (`b3 9f`) raises ValueError 'cannot asm' or gets a Thumb-2 proposal whose operand is a "
  "preinc expression; `LDR R7, [PC]` / `STR R6, [SP]` raise AttributeError; Thumb-2 `5d f8 04 00` LDR R0, [SP, R4] raises TypeError; register-offset `LDRH R2, [R2, R5]` "
  "(`52 5b`) gets proposals that decode to `LDRH R2, [R2, 0x5]` (the register number taken as an immediate) or to a byte-sized access for STR"),
 ("C15-armt-wide-immediates-truncated", "armt", lambda m, k: m in ("Bcc", "ADD"),
  "Thumb-2 wide branches / ADD with an immediate beyond the narrow range get narrow proposals with a truncated value: `f2 f2 c9 bf` B 0x2F2F96 -> proposal `c9 e7` "
  "decodes to B 0xFFFFFF96; `00 f5 83 55` ADD R5, R0, 0x1060 -> proposal decodes to ADD R5, R0, 0x60"),
 ("C15-mep-reserved-instruction", "mep", lambda m, k: m == "(RI)",
  "MeP: byte strings decoded as the pseudo instruction `(RI)` (reserved instruction, e.g. `09 fe e3 b0`): asm raises ValueError 'num bits must be 8 bit aligned: 33'"),
 ("C15-mep-narrow-forms", "mep", lambda m, k: k == "cand-differs",
  "MeP: asm() also proposes the 16-bit forms whose fields are too narrow or imply another register: `b4 5e` MOV GP, -76 -> proposal `01 ce b4 ff` decodes to MOV GP, 65460; "
  "`72 d7 80 6f` MOVU R7, 0x6F8072 -> MOVU R7, 0x8072; `79 db 54 46` BSR 0x46546E -> `6f b4` = BSR 0x46E; `90 c0 45 00` ADD3 R0, R9, 0x45 -> `44 40` = ADD3 R0, SP, 0x44; "
  "`42 cf 00 00` SLT3 SP, R4, 0x0 -> SLT3 R0, R4, 0x0; `fa c5 01 00` SW R5, 0x1(SP) -> SW R5, (SP)"),
 ("C15-mips32-signed-offsets", "mips32", lambda m, k: k in ("AssertionError", "cand-differs"),
  "MIPS CACHE / PREF / LL / SC with a negative 16-bit offset, and BREAK / SYSCALL with a code: asm raises AssertionError (`9e a1 7a bc` little endian CACHE 0x1A, "
  "0xFFFFA19E(V1)); with a positive offset >= 0x100 a proposal of the 9-bit (release 6) encoding decodes to another offset (`69 01 1c be` CACHE 0x1C, 0x169(S0) -> 0xFFFFFF69(S0))"),
 ("C15-mips32-no-encoding", "mips32", lambda m, k: k in ("ValueError", "AttributeError"),
  "MIPS TEQ / TNE (`34 5c 26 03` little endian: ValueError 'num bits must be 8 bit aligned: 22'), INS with msb < lsb (reserved encoding accepted by the decoder: 'cannot asm'), "
  "CLZ with rt != rd (`50 d0 00 00`: AttributeError 'nbsi_mips32_gpreg' object has no attribute 'expr')"),
 ("C15-msp430-call-immediate", "msp430", lambda m, k: True,
  "MSP430 `b0 12 ff 00` call 0xFF: asm raises AttributeError: 'call' object has no attribute 'size'"),
 ("C15-ppc32-branch-targets", "ppc32", lambda m, k: m == "Bcc",
  "PowerPC branches (B / BA / BL / BLA and the conditional forms) whose displacement is negative, i.e. printed as a 32-bit target >= 0x80000000 (`4b 21 9d b8` B 0xFF219DB8): asm raises ValueError 'cannot asm'"),
 ("C15-ppc32-ra0-forms", "ppc32", lambda m, k: k == "ValueError" and m != "Bcc",
  "PowerPC D-form instructions with RA = 0 (decoded with a constant base: `88 00 24 c4` LBZ R0, (0x24C4); `3b 00 69 14` ADDI R24, 0x0, 0x6914; also LHA LHZ LWZ LMW ADDIS STBU STHU STWU): asm raises ValueError 'cannot asm'"),
 ("C15-ppc32-mtspr", "ppc32", lambda m, k: m == "MTSPR",
  "PowerPC `7e 32 43 a6` MTSPR 0x112, R17 (unknown special register number): asm raises TypeError: ppc_spr.encode() missing 1 required positional argument"),
]
G["C16"] = [
 ("C16-x86-high-byte-register", "x86", lambda m, k: m == "high-byte-register",
  "as C15-x86-high-byte-register, through the parser: 64-bit `88 e2` MOV DL, AH parses back to the same text, and asm() of the parsed instruction proposes `40 88 e2`, which decodes to MOV DL, SPL"),
 ("C16-x86-segment-prefix-dropped", "x86", lambda m, k: m == "segment-prefix-dropped",
  "x87 memory operands with a segment override: `64 db 07` FILD DWORD PTR FS:[EDI] parses back to the same text, but the encodings of the parsed instruction (`db 07`) have lost the "
  "segment prefix and decode to FILD DWORD PTR [EDI] (FLD FSTP FILD FBLDP FLDENV FMUL FSUB ...)"),
 ("C16-x86-no-encoding", "x86", lambda m, k: k == "asm-ValueError",
  "as C15-x86-no-encoding, through the parser: far CALL / JMP ptr16:32 in 32-bit mode, 64-bit PUSH of a sign-extended imm32, 64-bit MOV with a segment-prefixed moffs64, and 16-bit "
  "`0f c4 6e 54 70` PINSRW MM5, WORD PTR [BP + 0x54], 0x70: asm of the parsed instruction raises ValueError 'cannot asm'"),
 ("C16-x86-wrong-encoding", "x86", lambda m, k: k == "cand-differs" and m not in ("high-byte-register", "segment-prefix-dropped"),
  "as C15-x86-wrong-encoding, through the parser: SIB operand with an 8-bit displacement (`c0 2c 00 b0` SHR BYTE PTR [RAX * 0x2], 0xB0): an encoding of the parsed instruction carries a "
  "32-bit displacement after a mod=01 ModRM byte and decodes to another immediate; `40 90` XCHG EAX, EAX -> `90` NOP"),
 ("C16-x86-text-not-parsed-back", "x86", lambda m, k: k == "text-differs",
  "x86 texts the parser reads differently: 16-bit mode `66 68 3d e7 89 73` PUSH 0x7389E73D parses to an instruction printing `PUSH 0xE73D` (immediate truncated to the mode's size); "
  "`0f 20 7f 00` MOV DWORD PTR [EDI], CR7 parses to `MOV DWORD PTR [EDI], loc_key_0` (CR5 .. CR7 are printed by the decoder and unknown to the parser, which takes them for labels)"),
 ("C16-aarch64-load-store-and-extend-forms", "aarch64", lambda m, k: True,
  "as C15-aarch64-load-store-index-forms, through the parser: LDP / STP / LDR* / STR* pre-index, post-index and signed-offset forms are re-encoded as one another; negative SIMD pair "
  "offsets raise ValueError 'cannot asm'; extended-register forms with the zero register print a text the parser refuses: `e0 8d 3f ab` little endian ADDS X0, X15, WZR SXTB 0x3 -> "
  "TypeError in fromstring, `STR H24, [X1, XZR LSL 0x1]` -> 'cannot fromstring', `LDRB W1, [X10, XZR]` -> ValueError in asm; REV as in C15-aarch64-rev"),
 ("C16-arm-register-offset-forms", "arm", lambda m, k: k == "ValueError",
  "ARM halfword / signed / doubleword transfers with a negative or post-indexed register offset print a text the parser refuses: `d8 3e 2e 90` little endian LDRDLS R3, [LR], -R8! -> "
  "ValueError 'cannot fromstring' (LDRD STRD LDRH STRH LDRSB LDRSH)"),
 ("C16-arm-zero-offset-down", "arm", lambda m, k: k == "cand-differs",
  "ARM transfers with a zero offset and U = 0 (`00 19 10 8c` little endian LDCHI p9, c1, [R0]; `b0 50 6e b0` STRHLT R5, [LR]!; `00 b0 4c 34` STRCCB R11, [R12]): the text does not show "
  "the direction, the encoding of the parsed instruction sets U = 1 (`00 19 90 8d`) and decodes to an instruction with the same text and another operand expression"),
 ("C16-arm-pldw", "arm", lambda m, k: k == "asm-ValueError",
  "ARM `03 f2 99 f5` little endian PLDW [R9, 0xFFFFFDFD]: asm of the parsed instruction raises ValueError: invalid literal for int() with base 10: 'b'"),
 ("C16-armt-ldr-str-forms", "armt", lambda m, k: m.startswith(("LDR", "STR")),
  "as C15-armt-ldr-str-forms, through the parser: Thumb 16-bit LDR / STR forms are re-encoded as Thumb-2 forms with another operand (`c1 55` STRB R1, [R0, R7] -> `00 f8 07 1e` decodes "
  "to STRB R1, [R0, 0x7]; `7a 4d` LDR R5, [PC, 0x1E8] -> preinc operand)"),
 ("C16-armt-wide-immediates-truncated", "armt", lambda m, k: m == "Bcc" and k == "cand-differs",
  "as C15-armt-wide-immediates-truncated, through the parser: Thumb-2 wide branches get narrow encodings with a truncated offset"),
 ("C16-armt-text-not-parsed-back", "armt", lambda m, k: k in ("text-differs", "ValueError"),
  "Thumb texts the parser reads differently or refuses: `57 44` ADDS R7, R10 (two-operand high-register add) parses to an instruction printing `ADDS R7, R1, 0x0` ('R10' read as 'R1' "
  "followed by '0'); `2a ea 2c 0e` BIC LR, R10, R12 ASR 0x0 -> ValueError 'shift operator immediate value out of bound'"),
 ("C16-mep-reserved-instruction", "mep", lambda m, k: m == "(RI)",
  "MeP: the pseudo instruction `(RI)` (reserved instruction, e.g. `f7 cc 58 9b`) cannot be parsed: ValueError 'cannot fromstring'"),
 ("C16-mep-narrow-forms", "mep", lambda m, k: k == "cand-differs",
  "as C15-mep-narrow-forms, through the parser: MOV / MOVU / BSR get encodings whose immediate field is too narrow"),
 ("C16-mips32-signed-offsets", "mips32", lambda m, k: k in ("asm-AssertionError", "cand-differs"),
  "as C15-mips32-signed-offsets, through the parser: CACHE / PREF / LL / SC with negative offsets and BREAK / SYSCALL with a code raise AssertionError in asm; 9-bit proposals decode to another offset"),
 ("C16-mips32-no-encoding", "mips32", lambda m, k: k == "asm-ValueError",
  "as C15-mips32-no-encoding, through the parser: TEQ / TNE: ValueError 'num bits must be 8 bit aligned: 22'; INS with msb < lsb: 'cannot asm'"),
 ("C16-ppc32-ra0-forms", "ppc32", lambda m, k: k == "ValueError",
  "PowerPC D-form instructions with RA = 0 print a text the parser refuses: `89 20 07 76` LBZ R9, (0x776), `3f 00 0f 8f` ADDIS R24, 0x0, 0xF8F: ValueError 'cannot fromstring'"),
 ("C16-ppc32-branch-targets", "ppc32", lambda m, k: k == "asm-ValueError",
  "as C15-ppc32-branch-targets, through the parser: branches with a negative displacement (target printed >= 0x80000000) raise ValueError 'cannot asm'"),
]
G["C14"] = [
 ("C14-x86-operand-size", "x86", lambda m, k: k in ("ValueError", "AssertionError") and m in ("CALL", "JMP", "RET", "RETF", "IRET", "IRETD", "ENTER", "LODSD", "SCASD", "STOSD", "MOV", "MOVD", "MOVSXD", "SIDT"),
  "x86 instructions whose operand size differs from the size of the mode make the lifter raise a size-mismatch ValueError / AssertionError instead of "
  "IR or an unsupported report: 0x66-prefixed CALL / JMP / RET / RETF / IRET / ENTER in every mode (e.g. 32-bit `66 c2 c8 df` RET 0xDFC8: EIP = @16[...]), plain "
  "IRETD (cf) in 64-bit mode (RIP = @32[...]), and in 16-bit mode 66-prefixed LODSD / SCASD / STOSD, MOVD m, mm and MOV to / from CRn with a memory operand; "
  "66-prefixed MOVSXD in 64-bit mode (`66 63 d8` MOVSXD BX, EAX: signExtend to a smaller size) and SIDT with a 16-bit memory operand in 16-bit mode (`0f 01 4a 3e`: ValueError 'not exprmem 32bit instance')"),
 ("C14-x86-fpu-pop-st0", "x86", lambda m, k: k == "AttributeError",
  "x87 arithmetic-and-pop with destination ST(0) (`de c0` FADDP ST(0), ST and the FMULP / FSUBP / FSUBRP / FDIVP / FDIVRP forms): float_prev(ST(0)) is None and "
  "ExprAssign(None, ...) raises AttributeError in the lifter"),
 ("C14-x86-cmpsd-memory-width", "x86", lambda m, k: m.startswith("CMP") and m.endswith("SD"),
  "SSE2 scalar-double compares with a memory operand (`f2 0f c2 00 00` CMPEQSD XMM0, [EAX]): the decoder gives the operand 32 bits (DWORD PTR), the lifter compares it with "
  "XMM0[0:64] and raises 'ExprOp args must have same size'"),
 ("C14-aarch64-32bit-forms", "aarch64", lambda m, k: m in ("BFM", "SBFM", "UBFM", "MOVK", "EXTR"),
  "the AArch64 decoder accepts 32-bit forms with immediates that only exist for 64-bit registers (BFM / SBFM / UBFM Wd with immr or imms >= 32, MOVK Wd with "
  "LSL 32 / 48, EXTR Wd with lsb >= 32: reserved encodings); the lifter then slices outside the register: AssertionError or size-mismatch ValueError "
  "(e.g. `72 e1 21 76` little endian: MOVK W22, 0x90B LSL 0x30)"),
 ("C14-aarch64-fcvtzu-width", "aarch64", lambda m, k: m == "FCVTZU",
  "AArch64 `01 00 79 1e` little endian FCVTZU W1, D0: the lifter assigns a 64-bit conversion result to the 32-bit register: 'ExprAssign args must have same size'"),
 ("C14-arm-ldrd-strd-pc", "arm", lambda m, k: m in ("LDRD", "STRD"),
  "ARM LDRD / STRD with Rt = PC (unpredictable encoding, accepted by the decoder): the second register is taken as all_regs[16] = zf, and the lifter raises "
  "'ExprAssign args must have same size' (zf, 1 bit, against a 32-bit memory word), e.g. `e1 8e f1 da` big endian: LDRD PC, [LR, R10]"),
 ("C14-armt-it-nv", "armt", lambda m, k: m == "IT",
  "Thumb IT block with the condition NV (first-condition field 0b1111, e.g. `e8 bf`): do_it_block looks the condition up in cond_dct_inv and raises KeyError('NV')"),
 ("C14-mips32-fp-widths", "mips32", lambda m, k: k == "ValueError",
  "MIPS floating-point registers are 64 bits wide and the semantics move 32-bit values in and out without extension: every LWC1 / SWC1 (3 % of the decodable random words), "
  "MFC1 / MTC1 (`44 09 70 00` big endian MFC1 T1, F14) and C.EQ.D / C.LT.D / C.LE.D (64-bit fcomp result into the 32-bit FCCn) raise 'ExprAssign args must have same size'"),
 ("C14-mips32-ins-range", "mips32", lambda m, k: m == "INS",
  "MIPS INS with msb < lsb (reserved encoding accepted by the decoder, printed with a negative size such as `INS AT, S4, 0x13, 0xFFFFFFFC`): the lifter's slice fails an assertion"),
 ("C14-msp430-single-operand-destination", "msp430", lambda m, k: True,
  "MSP430 single-operand instructions (rra.w, rrc.w, swpb, sxt) with an immediate / constant-generator or auto-increment operand (`rrc.w @R14+`, `sxt 0x8`): the "
  "semantics assign to the operand expression itself and AssignBlock raises 'Destination cannot be a ExprOp / ExprInt'"),
 ("C14-ppc32-update-forms", "ppc32", lambda m, k: True,
  "PowerPC load / store with update and RA = 0 (invalid form accepted by the decoder, `9e 60 0b 4a`: STBU R19, (0xB4A)): the semantics take .args of the constant address and raise "
  "AttributeError; LHBRX with RA = 0 (`7e 00 06 2c`) fails an assertion"),
]
G["C17"] = [
 ("C17-x86-64-invalid-opcodes", "x86", lambda m, k: (k == "ref-invalid" and m != "MOVNTI") or (k == "length-differs" and m == "LDS"),
  "miasm decodes, in 64-bit mode, opcodes that are invalid there: AAA (37) AAS (3f) DAA (27) DAS (2f) AAM (d4) AAD (d5) INTO (ce), PUSH / POP of ES CS SS DS (06 07 0e 16 17 1e 1f), "
  "LDS / LES (c5 / c4, VEX prefixes in 64-bit mode: `c5 6d 69` is decoded as a 3-byte LDS where the reference sees a 4-byte VEX instruction) and the 0x82 alias of the 0x80 group "
  "(`82 fb 24` CMP BL, 0x24); GNU objdump marks all of them (bad)"),
 ("C17-x86-modrm-register-only", "x86", lambda m, k: m in ("MOVNTI", "MOV-CR"),
  "ModRM forms that only exist with one kind of operand: MOV to / from a control register ignores the mod field (`0f 20 56 d4` is MOV ESI, CR2, 3 bytes; miasm decodes a 4-byte "
  "`MOV DWORD PTR [ESI + 0xFFFFFFD4], CR2`); MOVNTI requires a memory destination (`0f c3 ed` is invalid; miasm decodes MOVNTI BP, BP)"),
 ("C17-aarch64-reserved-encodings", "aarch64", lambda m, k: True,
  "the AArch64 decoder accepts reserved encodings llvm-mc (all extensions on) rejects: shifted-register forms of 32-bit ADD / SUB / AND / ORR / EOR / BIC ... with a shift amount >= 32 "
  "(`ea ea 1c 0b` little endian ADD W10, W23, W28 LSL 0x3A), ROR on ADD / SUB / CMP, extended-register forms with a shift > 4, 32-bit BFM / SBFM / UBFM / EXTR with immediates >= 32, "
  "MOVZ / MOVN / MOVK Wd with LSL 32 / 48, LDTR / STTR of SIMD registers, CASP with an odd register"),
 ("C17-arm-coprocessor-and-unpredictable", "arm", lambda m, k: True,
  "ARM encodings llvm-mc rejects for ARMv7-A and ARMv8-A and miasm decodes: generic coprocessor instructions on coprocessors 10 / 11 (the VFP / NEON space: `ec 42 93 2d` big endian "
  "LDCCS p2 ... and LDC / STC / MCR / MRC / CDP forms), LDRD / STRD with an odd first register (`da 68 ed 70` little endian LDRDVC R6, [SP], 0x8A!), conditional BKPT, STRH with "
  "SP as post-indexed register offset and write-back"),
 ("C17-armt-reserved", "armt", lambda m, k: True,
  "Thumb-2 encodings llvm-mc rejects: `19 f2 7b 21` decoded as ADDS R1, R9, 0x27B (ADDW has no S bit: bit 20 must be 0), `0f f8 fd 4c` STRB R4, [PC, 0xFFFFFF03] (store with Rn = PC)"),
 ("C17-mips32-fp-compare-formats", "mips32", lambda m, k: True,
  "MIPS floating-point compares with a format that has no compare instructions: `32 6d 84 46` little endian C.EQ.W FCC5, F13, F4, `46 3b fc 39` C.NGLE.D with a reserved bit set, C.NGLE.L"),
 ("C17-ppc32-eciwx", "ppc32", lambda m, k: True,
  "PowerPC `7c ef da 6c` ECIWX R7, R15, R27: rejected by llvm-mc 14 (external control facility not modelled)"),
]
TARGET = {"C17": "C17/reference", "C14": "C14/lift", "C15": "C15/asm", "C16": "C16/parse"}


def main(pid):
    c = json.load(open("/tmp/%scensus.json" % pid))
    tags = sorted(c["count"])
    p = "/verif/known_findings.json"
    d = json.load(open(p))
    keep = [f for f in d["findings"] if not (f["property"] == pid and f.get("status", "known") == "known")]
    used = set()
    new = []
    for gid, fam, pred, what in G[pid]:
        ts = [t for t in tags if t.split(":")[1] == fam and pred(*t.split(":")[2:4]) and t not in used]
        if not ts:
            print("no census tag for", gid)
            continue
        used.update(ts)
        new.append({"id": gid, "property": pid, "target": TARGET[pid], "status": "known", "family": fam, "tags": ts,
                    "max_per_chunk": dict((t, c["max"][t]) for t in ts) if "max" in c else {},
                    "witness": "key[2] == %r" % gid, "what": what})
    left = [t for t in tags if t not in used]
    if left:
        for t in left:
            print("UNASSIGNED", c["count"][t], t, c["ex"][t][:260])
        sys.exit(1)
    # known entries before the fixed ones of the same property keep their relative position: append at the end
    d["findings"] = keep + new
    json.dump(d, open(p, "w"), indent=1)
    print(pid, len(new), "findings,", len(used), "tags")


if __name__ == "__main__":
    main(sys.argv[1])
