"""Targets, contexts (symbolic / concrete / differential), discharge, replay.

A *target* is one function of /repo under a contract for one value of the enumerated structural parameters
(bit width, shape...).  Its ``body(ctx)`` builds the inputs with ``ctx.int/ctx.bool`` (symbolic in proof mode, concrete
in replay and differential mode), states the precondition with ``ctx.assume``, calls the real function with
``ctx.call`` and states the postcondition with ``ctx.check``.  The same body therefore is
  * the verification-condition generator (proof mode: the function is interpreted symbolically by pyvc),
  * the run-time contract check used to replay a counter-model on the real code under CPython (replay mode),
  * the CPython differential of the interpreter (both, on random concrete inputs).
"""
from __future__ import annotations

import json
import os
import random
import time
import traceback

from vc import loader, pyvc, smt
from vc.path import EngineError, Infeasible, Path, Unsupported, explore
from vc.terms import (And, Eq, Implies, Not, Or, SymBool, SymInt, is_sym, show, tobool)


class CallResult(object):
    __slots__ = ("raised", "value", "exc")

    def __init__(self, raised, value=None, exc=None):
        self.raised, self.value, self.exc = raised, value, exc

    def __repr__(self):
        return "raised %r" % (self.exc,) if self.raised else "returned %r" % (self.value,)


class Target(object):
    """subclass or instantiate with body=callable(ctx)"""
    kind = "proof"          # 'proof' | 'bounded' (shape-bounded symbolic) -- reporting only

    def __init__(self, tid, funcs, body, params=None, kind="proof", bound=None, config=None, min_obligations=1,
                 max_paths=20000, diff_samples=40, rlimit=None, nontrivial=True):
        self.id = tid
        self.funcs = funcs          # list of real function objects under contract in this target (evidence)
        self.body = body
        self.params = params or {}
        self.kind = kind
        self.bound = bound
        self.config = config or {}
        self.min_obligations = min_obligations
        self.max_paths = max_paths
        self.diff_samples = diff_samples
        self.rlimit = rlimit


class BaseCtx(object):
    symbolic = False

    def mk_array(self, items):
        """array('B') holding the given byte values (model object when the interpreter runs the code)"""
        if self.symbolic or getattr(self, "interpret", False):
            from vc.sbytes import SArray
            return SArray(items)
        import array
        return array.array("B", items)

    def mk_bytes(self, items):
        from vc.sbytes import mk_bytes
        return mk_bytes(items)

    def byte_list(self, v):
        """list of byte scalars of a bytes / model bytes value"""
        if isinstance(v, (bytes, bytearray)):
            return list(v)
        return list(v.b)

    def __init__(self, target):
        self.target = target
        self.checks = []       # (label, kind, ok) in concrete modes
        self.covers = set()

    def cover(self, label):
        self.covers.add(label)

    # helpers usable in bodies for both modes
    @staticmethod
    def And(*a): return And(*a)
    @staticmethod
    def Or(*a): return Or(*a)
    @staticmethod
    def Not(a): return Not(a)
    @staticmethod
    def Implies(a, b): return Implies(a, b)


class SymCtx(BaseCtx):
    symbolic = True

    def __init__(self, target, path):
        BaseCtx.__init__(self, target)
        self.path = path
        cfg = dict(target.config)
        self.interp = pyvc.Interp(path, cfg)
        self.ops = self.interp.ops

    def int(self, name, lo=None, hi=None, rnd_hi=None):
        return self.path.int(name, lo, hi)

    def bool(self, name):
        return self.path.bool(name)

    def assume(self, c):
        self.path.assume_checked(c)

    def decide(self, c):
        """fork on a spec-level condition (use sparingly)"""
        return self.path.decide(c)

    def choose(self, n, hint="choice"):
        return self.path.choose(n, hint)

    def call(self, fn, *args, **kwargs):
        try:
            v = self.ops.call(fn, list(args), kwargs)
        except pyvc.Raised as r:
            return CallResult(True, exc=r.exc)
        return CallResult(False, value=v)

    def check(self, label, cond, kind="post", info=None):
        self.path.oblige(cond, kind, label, info)

    def truth(self, v):
        return self.ops.truth(v)

    def equal(self, a, b):
        return self.ops.equal(a, b)

    def eval_source(self, src, env):
        """evaluate a Python *expression* given as source text (generated code) under the interpreter"""
        import ast as _ast
        try:
            node = _ast.parse(src, mode="eval").body
        except SyntaxError as e:
            return CallResult(True, exc=e)
        e = pyvc.Env(dict(env))
        try:
            return CallResult(False, value=self.interp.eval(node, e))
        except pyvc.Raised as r:
            return CallResult(True, exc=r.exc)


class ConcreteCtx(BaseCtx):
    """native execution of the real function under CPython on concrete inputs (replay / runtime contract)"""

    def __init__(self, target, model, rng=None, interpret=False):
        BaseCtx.__init__(self, target)
        self.model = dict(model)
        self.rng = rng
        self.used = {}
        self.interpret = interpret
        self.trace = []
        self.counter = 0
        if interpret:
            self.path = Path(model={})
            cfg = dict(target.config)
            cfg["native_when_concrete"] = False
            self.interp = pyvc.Interp(self.path, cfg)
            self.ops = self.interp.ops

    def _rand(self, lo, hi):
        r = self.rng
        if lo is not None and hi is not None:
            k = r.random()
            if k < 0.15: return lo
            if k < 0.3: return hi
            if k < 0.45 and hi - lo > 4: return r.choice([lo + 1, hi - 1, (lo + hi) // 2])
            if k < 0.6 and lo <= 0 <= hi: return r.choice([x for x in (0, 1, 2, 255, 256) if lo <= x <= hi])
            return r.randint(lo, hi)
        base = r.choice([0, 1, 2, 3, 5, 7, 8, 16, 100, 255, 256, 4095, 4096, 1 << 31, (1 << 32) - 1, 1 << 32, 1 << 64,
                         r.randint(0, 20), r.randint(0, 1 << 16), r.randint(0, 1 << 40)])
        if lo is None and hi is None:
            return base if r.random() < 0.7 else -base
        if lo is not None:
            return lo + base
        return hi - base

    def int(self, name, lo=None, hi=None, rnd_hi=None):
        """rnd_hi only narrows the *random sampling* of the differential run (e.g. allocation sizes)"""
        if name in self.used:
            return self.used[name]
        if name in self.model:
            v = int(self.model[name])
        elif self.rng is not None:
            v = self._rand(lo, hi if rnd_hi is None else rnd_hi)
        else:
            v = lo if lo is not None else (hi if hi is not None and hi < 0 else 0)
        if (lo is not None and v < lo) or (hi is not None and v > hi):
            raise Infeasible("value of %s outside its declared range" % name)
        self.used[name] = v
        return v

    def bool(self, name):
        if name in self.used:
            return self.used[name]
        if name in self.model:
            v = bool(self.model[name])
        elif self.rng is not None:
            v = self.rng.random() < 0.5
        else:
            v = False
        self.used[name] = v
        return v

    def assume(self, c):
        if is_sym(c):
            raise EngineError("symbolic assumption in concrete mode")
        if not c:
            raise Infeasible("precondition false")

    def decide(self, c):
        return bool(c)

    def choose(self, n, hint="choice"):
        self.counter += 1
        name = "%s!%d" % (hint, self.counter)
        if name in self.model:
            v = int(self.model[name]) % n
        elif self.rng is not None:
            v = self.rng.randrange(n)
        else:
            v = 0
        self.used[name] = v
        return v

    def call(self, fn, *args, **kwargs):
        if self.interpret:
            try:
                v = self.ops.call(fn, list(args), kwargs)
                res = CallResult(False, value=v)
            except pyvc.Raised as r:
                res = CallResult(True, exc=r.exc)
        else:
            try:
                res = CallResult(False, value=fn(*args, **kwargs))
            except Exception as e:      # noqa -- the real code's exception is the observation
                res = CallResult(True, exc=e)
        self.trace.append(snapshot(("raise", type(res.exc).__name__) if res.raised else ("ret", res.value, args)))
        return res

    def eval_source(self, src, env):
        if self.interpret:
            import ast as _ast
            try:
                node = _ast.parse(src, mode="eval").body
                res = CallResult(False, value=self.interp.eval(node, pyvc.Env(dict(env))))
            except SyntaxError as e:
                res = CallResult(True, exc=e)
            except pyvc.Raised as r:
                res = CallResult(True, exc=r.exc)
        else:
            try:
                res = CallResult(False, value=eval(src, dict(env)))
            except Exception as e:      # noqa
                res = CallResult(True, exc=e)
        self.trace.append(snapshot(("raise", type(res.exc).__name__) if res.raised else ("ret", res.value)))
        return res

    def check(self, label, cond, kind="post", info=None):
        if is_sym(cond):
            raise EngineError("symbolic check in concrete mode")
        self.checks.append((label, kind, bool(cond)))

    def truth(self, v):
        return bool(v)

    def equal(self, a, b):
        return a == b


def snapshot(v, depth=0, seen=None):
    """comparable, printable image of a value (for the interpreter differential)"""
    if seen is None:
        seen = set()
    if isinstance(v, (int, str, bytes, float, type(None))):
        return v
    if depth > 8:
        return "..."
    if isinstance(v, (list, tuple)):
        return [type(v).__name__] + [snapshot(x, depth + 1, seen) for x in v]
    if type(v).__name__ in ("SArray", "array"):
        return ["array"] + list(v.b if hasattr(v, "b") else v)
    if type(v).__name__ == "SBytes":
        return bytes(v.b)
    if isinstance(v, (set, frozenset)):
        return ["set"] + sorted((snapshot(x, depth + 1, seen) for x in v), key=repr)
    if isinstance(v, dict):
        return ["dict"] + sorted(([snapshot(k, depth + 1, seen), snapshot(x, depth + 1, seen)] for k, x in v.items()), key=repr)
    if isinstance(v, BaseException):
        return ["exc", type(v).__name__]
    if callable(v) or isinstance(v, type):
        return getattr(v, "__qualname__", repr(type(v)))
    if id(v) in seen:
        return "<cycle>"
    seen.add(id(v))
    st = {}
    d = getattr(v, "__dict__", None)
    if d:
        st.update(d)
    for k in type(v).__mro__:
        for s in getattr(k, "__slots__", ()) or ():
            if isinstance(s, str) and not s.startswith("__") and hasattr(v, s) and s not in ("_hash", "_repr"):
                try:
                    st[s] = object.__getattribute__(v, s)
                except AttributeError:
                    pass
    if not st:
        try:
            return ["obj", type(v).__name__, repr(v)]
        except Exception:
            return ["obj", type(v).__name__]
    return ["obj", type(v).__name__] + sorted(([k, snapshot(x, depth + 1, seen)] for k, x in st.items()), key=repr)


# ======================================================================================================
# running one target
# ======================================================================================================

def jsonable_model(m):
    out = {}
    for k, v in m.items():
        out[k] = v if isinstance(v, bool) else int(v)
    return out


class NativeTimeout(BaseException):
    pass


class time_limit(object):
    """SIGALRM guard around native execution of the real code (a changed function may not terminate)"""

    def __init__(self, seconds):
        self.seconds = seconds

    def _handler(self, signum, frame):
        raise NativeTimeout("native execution exceeded %ds" % self.seconds)

    def __enter__(self):
        import signal
        self.old = signal.signal(signal.SIGALRM, self._handler)
        signal.alarm(self.seconds)

    def __exit__(self, *a):
        import signal
        signal.alarm(0)
        signal.signal(signal.SIGALRM, self.old)
        return False


NATIVE_TIMEOUT = 20


def replay_model(target, model):
    """run the body natively on the real code with the model's values.  Returns dict(status, failed, error)"""
    ctx = ConcreteCtx(target, model)
    try:
        with time_limit(NATIVE_TIMEOUT):
            target.body(ctx)
    except NativeTimeout as e:
        return {"status": "fails", "failed": [("terminates", "termination")], "detail": str(e),
                "values": jsonable_model(ctx.used)}
    except Infeasible as e:
        return {"status": "precondition-false", "detail": str(e), "failed": []}
    except Exception as e:
        return {"status": "replay-error", "detail": "".join(traceback.format_exception_only(type(e), e)).strip(),
                "failed": [], "trace": traceback.format_exc()}
    failed = [(l, k) for (l, k, ok) in ctx.checks if not ok]
    return {"status": "fails" if failed else "passes", "failed": failed, "values": jsonable_model(ctx.used)}


def eval_witness(expr, path):
    """witness predicate of a known finding: python expression over the model variable names (sanitised:
    'a!1' -> a_1) using & | ~ for logic"""
    env = {}
    for name, v in path.vars.items():
        env[name.replace("!", "_")] = v
    from vc.terms import Max, Min
    env.update({"And": And, "Or": Or, "Not": Not, "Implies": Implies, "Max": Max, "Min": Min})
    try:
        return eval(expr, {"__builtins__": {}}, env)
    except NameError:
        return None        # witness speaks about variables that this path does not have: not applicable here


def small_model(assertions, r, rlimit=None):
    """prefer a counter-model of small magnitude (fast native replay, readable witness): re-solve with every integer
    variable boxed, widening the box; falls back to the solver's first model"""
    from vc.terms import free_vars
    vs = {}
    for a in assertions:
        if not isinstance(a, bool):
            free_vars(a, vs)
    ints = [v for v in vs.values() if v[2] == "I"]
    if not ints:
        return r
    for bits in (8, 13, 20, 33):
        box = []
        for v in ints:
            box.append(("le", -(1 << bits), v))
            box.append(("le", v, 1 << bits))
        r2 = smt.check(list(assertions) + box, rlimit=rlimit, use_cvc5=False)
        if r2.status == "sat":
            return r2
    return r


def limit_memory(gb=6):
    try:
        import resource
        resource.setrlimit(resource.RLIMIT_AS, (gb << 30, gb << 30))
    except Exception:
        pass


def run_target(target, findings=(), seed=0, do_diff=True):
    """Explore, discharge, replay.  Returns a JSON-able result dict."""
    t0 = time.time()
    res = {"id": target.id, "kind": target.kind, "params": target.params, "bound": target.bound,
           "functions": [], "paths": 0, "infeasible_paths": 0, "obligations": 0, "discharged": 0, "refuted": [],
           "undecided": [], "unsupported": None, "engine_error": None, "known": [], "backends": {},
           "interpreted": {}, "native_calls": {}, "covers": [], "diff": None, "samples": [], "solver_time": 0.0,
           "notes": []}
    for f in target.funcs:
        try:
            h = loader.func_text_hash(f)
            h["name"] = "%s:%s" % (f.__module__, f.__qualname__)
            res["functions"].append(h)
        except Exception as e:
            res["functions"].append({"name": getattr(f, "__qualname__", repr(f)), "error": str(e)})
    smt.STATS.update({"queries": 0, "time": 0.0})
    findings = [f for f in findings if f.get("status", "known") == "known" and target.id.startswith(f["target"])]
    known_hit = {}
    covers = set()
    interp_stats = {}
    native_stats = {}
    notes = set()

    def run(path):
        ctx = SymCtx(target, path)
        path.ctx = ctx
        try:
            try:
                target.body(ctx)
            except Unsupported as e:
                # a loop / recursion / step budget exhausted on a feasible path may be genuine non-termination of the real
                # code: take a model of the path condition and replay it natively (time limit, RecursionError)
                msg = str(e)
                if any(k in msg for k in ("recursion depth exceeded", "not unwound", "step budget", "too long")):
                    r = smt.check(list(path.pc), rlimit=target.rlimit, use_cvc5=False)
                    if r.status == "sat":
                        r = small_model(list(path.pc), r, target.rlimit)
                        rep = replay_model(target, r.model)
                        if rep["status"] == "fails":
                            res["refuted"].append({"obligation": "%s/termination/budget" % target.id,
                                                   "model": jsonable_model(r.model), "backend": r.backend, "replay": rep,
                                                   "goal": "terminates within the interpreter's budgets (%s)" % msg[:120],
                                                   "pc": [show(t)[:200] for t in path.pc[-8:]]})
                            res["obligations"] += 1
                            return ("nonterminating",)
                raise
        finally:
            covers.update(ctx.covers)
            for k, v in ctx.interp.interpreted.items():
                interp_stats[k] = interp_stats.get(k, 0) + v
            for k, v in ctx.interp.native_calls.items():
                native_stats[k] = native_stats.get(k, 0) + v
            notes.update(path.notes)
        return ("done",)

    def on_path(path):
        res["paths"] += 1
        if path.outcome and path.outcome[0] == "infeasible":
            res["infeasible_paths"] += 1
            return
        ws = []
        for f in findings:
            w = eval_witness(f["witness"], path)
            if w is not None:
                ws.append((f, tobool(w)))
        for ob in path.obligations:
            res["obligations"] += 1
            oid = "%s/%s/%s" % (target.id, ob["kind"], ob["label"])
            goal = ob["goal"]
            if goal is True:
                res["discharged"] += 1
                res["backends"]["trivial"] = res["backends"].get("trivial", 0) + 1
                continue
            neg = Not(tobool(goal) if isinstance(goal, bool) else SymBool(goal))
            neg_t = neg if isinstance(neg, bool) else neg.t
            base = list(ob["pc"]) + [neg_t]
            extra = []
            for f, w in ws:
                nw = Not(w)
                extra.append(nw if isinstance(nw, bool) else nw.t)
            r = smt.check(base + extra, rlimit=target.rlimit)
            res["solver_time"] += r.time
            if len(res["samples"]) < 3 and r.status == "unsat" and goal is not False:
                res["samples"].append({"obligation": oid, "pc": [show(t)[:160] for t in ob["pc"][-6:]],
                                       "goal": show(goal)[:300], "verdict": "unsat (discharged) by " + r.backend})
            if r.status == "unsat":
                res["discharged"] += 1
                res["backends"][r.backend] = res["backends"].get(r.backend, 0) + 1
            elif r.status == "sat":
                r = small_model(base + extra, r, target.rlimit)
                rep = replay_model(target, r.model)
                res["refuted"].append({"obligation": oid, "model": jsonable_model(r.model), "backend": r.backend,
                                       "replay": rep, "goal": show(goal)[:400], "info": repr(ob.get("info"))[:600],
                                       "pc": [show(t)[:200] for t in ob["pc"][-12:]]})
            else:
                res["undecided"].append({"obligation": oid, "reason": r.reason, "goal": show(goal)[:300]})
            # known-finding regions: expected to fail there
            for f, w in ws:
                if f["id"] in known_hit:
                    continue
                wt = w if isinstance(w, bool) else w.t
                r2 = smt.check(list(ob["pc"]) + [neg_t, wt], rlimit=target.rlimit)
                if r2.status == "sat":
                    r2 = small_model(list(ob["pc"]) + [neg_t, wt], r2, target.rlimit)
                    rep = replay_model(target, r2.model)
                    known_hit[f["id"]] = {"finding": f["id"], "obligation": oid, "model": jsonable_model(r2.model),
                                          "replay": rep["status"]}

    try:
        explore(run, max_paths=target.max_paths, on_path=on_path)
    except Unsupported as e:
        res["unsupported"] = str(e)
        if "time budget" in str(e):
            res["wall"] = time.time() - t0
            return res
    except (EngineError, Exception) as e:     # noqa
        res["engine_error"] = "%s\n%s" % (e, traceback.format_exc())
    res["known"] = list(known_hit.values())
    res["covers"] = sorted(covers)
    res["interpreted"] = interp_stats
    res["native_calls"] = native_stats
    res["notes"] = sorted(notes)
    res["queries"] = smt.STATS["queries"]
    # differential of the interpreter against CPython on concrete inputs
    if do_diff and target.diff_samples and not res["engine_error"]:
        res["diff"] = diff_target(target, seed, target.diff_samples)
        if res["diff"]["mismatches"]:
            res["engine_error"] = "interpreter differs from CPython: %r" % (res["diff"]["mismatches"][:2],)
    if hasattr(target, "extra"):
        res["extra_coverage"] = target.extra()
    res["wall"] = time.time() - t0
    return res


def diff_target(target, seed, n):
    rng = random.Random((seed * 1000003) ^ hash(target.id) & 0xffffffff)
    out = {"samples": 0, "rejected": 0, "mismatches": [], "contract_failures": []}
    tries = 0
    while out["samples"] < n and tries < n * 6:
        tries += 1
        a = ConcreteCtx(target, {}, rng=rng)
        try:
            with time_limit(NATIVE_TIMEOUT):
                target.body(a)
        except NativeTimeout:
            out["contract_failures"].append({"values": jsonable_model(a.used), "failed": ["terminates"]})
            continue
        except Infeasible:
            out["rejected"] += 1
            continue
        except Exception as e:
            out["mismatches"].append({"values": jsonable_model(a.used), "native_error": repr(e)})
            continue
        b = ConcreteCtx(target, a.used, interpret=True)
        try:
            target.body(b)
        except Infeasible:
            out["mismatches"].append({"values": jsonable_model(a.used), "error": "interpreted run rejected the inputs"})
            continue
        except Unsupported as e:
            bad = [l for (l, k, ok) in a.checks if not ok]
            if bad:
                # the native run already breaks the contract on this input (e.g. unbounded recursion): that is the finding
                out["contract_failures"].append({"values": jsonable_model(a.used), "failed": bad})
            else:
                out["mismatches"].append({"values": jsonable_model(a.used), "error": "unsupported in concrete mode: %s" % e})
            continue
        except Exception as e:
            out["mismatches"].append({"values": jsonable_model(a.used), "error": "interpreter crashed: %r" % e,
                                      "trace": traceback.format_exc()[-1500:]})
            continue
        out["samples"] += 1
        if a.trace != b.trace or a.checks != b.checks:
            out["mismatches"].append({"values": jsonable_model(a.used), "native": repr(a.trace)[:600],
                                      "interpreted": repr(b.trace)[:600]})
        bad = [l for (l, k, ok) in a.checks if not ok]
        if bad:
            out["contract_failures"].append({"values": jsonable_model(a.used), "failed": bad})
    return out
