"""Regenerate MANIFEST.json from the property modules (props/Cxx.py: PROPERTY['manifest']) and the not-applicable table.
Run: .venv312/bin/python -m harness.gen_manifest
"""
import importlib
import json
import os
import sys

HERE = os.path.dirname(os.path.dirname(os.path.abspath(__file__)))
sys.path.insert(0, HERE)

from harness.not_applicable import NOT_APPLICABLE, NOT_BUILT   # noqa: E402


def main():
    ids = [json.loads(l)["id"] for l in open(os.path.join(HERE, "properties.jsonl"))]
    checks = []
    na = []
    engines = {"pyvc": [], "tv": [], "bounded-contract": []}
    for pid in ids:
        path = os.path.join(HERE, "props", pid + ".py")
        if os.path.exists(path):
            mod = importlib.import_module("props." + pid)
            P = mod.PROPERTY
            if P.get("claimed", True):
                m = P.get("manifest", {})
                checks.append({
                    "property_id": pid,
                    "quick_cmd": "./check %s --tier quick" % pid,
                    "thorough_cmd": "./check %s --tier thorough" % pid,
                    "evidence_file": "evidence/%s.json" % pid,
                    "replay_cmd_template": "./check %s --replay {path}" % pid,
                    "engine": P.get("engine", "pyvc"),
                    "level_claimed": {"category": P["level"], "text": m.get("text", P.get("explanation", "")),
                                      "design_ref": "DESIGN.md section 4, %s" % pid},
                    "level_note": m.get("note", "; ".join(P.get("assumptions", []))),
                    "technique": P.get("technique", "contract-based deductive verification: VCs generated from the real "
                                                    "Python source by a symbolic interpreter (pyvc), discharged by z3/cvc5"),
                })
                engines.setdefault(P.get("engine", "pyvc"), []).append(pid)
                continue
        reason = NOT_APPLICABLE.get(pid) or NOT_BUILT.get(pid)
        if reason is None:
            raise SystemExit("no reason recorded for unclaimed property %s" % pid)
        na.append({"property_id": pid, "reason": reason})
    man = {
        "version": 1,
        "setup_cmd": "sh ./setup.sh",
        "hooks": {"guard": "MIASM_VERIF", "enable": "none needed: contracts are sidecars under /verif/contracts and the "
                  "verifier reads /repo's source; no instrumentation commit exists",
                  "baseline_off_cmd": "cd /repo && /venv/bin/python -m pytest -ra -q -p no:cacheprovider --timeout=900 "
                                      "--continue-on-collection-errors test/arch/mep",
                  "source_commits": [], "add_only": True},
        "engines": [
            {"name": "pyvc", "path": "vc/", "serves_properties": engines.get("pyvc", []),
             "kind_free_text": "home-made deductive verifier for Python: symbolic interpreter over the ast of the real "
                               "functions (re-read from /repo every run), sidecar contracts, z3 (rlimit) then cvc5"},
            {"name": "tv", "path": "vc/spec.py", "serves_properties": engines.get("tv", []),
             "kind_free_text": "translation validation under contract: the real translator is run on a template family and "
                               "its output proved equal to the reference semantics (SPEC) for all operand values"},
            {"name": "bounded-contract", "path": "harness/", "serves_properties": engines.get("bounded-contract", []),
             "kind_free_text": "run-time contract check of the real function over an exhaustively enumerated small scope "
                               "(bounded stand-in, never counted as proved)"},
        ],
        "checks": checks,
        "not_applicable": na,
        "notes": "See DESIGN.md. Exit codes of ./check: 0 held / 1 VIOLATION (replayed) / 2 undecided / 3 checker error.",
    }
    with open(os.path.join(HERE, "MANIFEST.json"), "w") as f:
        json.dump(man, f, indent=1)
    try:
        import jsonschema
        jsonschema.validate(man, json.load(open("/root/.vp/MANIFEST.schema.json")))
        print("MANIFEST.json valid: %d checks, %d not applicable" % (len(checks), len(na)))
    except ImportError:
        print("MANIFEST.json written (jsonschema unavailable)")


if __name__ == "__main__":
    main()
