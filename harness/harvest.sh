#!/bin/sh
# usage: harvest.sh <PID> <worktree name>  -> copies /tmp/wt/<name>/SEED to seeded/<PID>-<n> and removes the worktree
PID="$1"; WT="/tmp/wt/$2"
n=1; while [ -d "/verif/seeded/$PID-$n" ]; do n=$((n+1)); done
D="/verif/seeded/$PID-$n"
[ -f "$WT/SEED/patch.diff" ] || { echo "no SEED/patch.diff in $WT"; exit 1; }
mkdir -p "$D"; cp "$WT/SEED/patch.diff" "$WT/SEED/demo.py" "$D/"; [ -f "$WT/SEED/notes.txt" ] && cp "$WT/SEED/notes.txt" "$D/"
git -C /repo worktree remove --force "$WT"
echo "$D"
