"""usage: python harness/mkmeta.py <seed dir> <property> "<needs>" "<detected_by>" [check args]"""
import json, os, sys
d, pid, needs, det = sys.argv[1:5]
extra = " ".join(sys.argv[5:]) or "--tier quick"
meta = {"property": pid, "breaks": pid, "needs_to_manifest": needs,
        "source": "independent sub-agent given only the property text and a scratch worktree",
        "confirmed": "harness/seedtest.sh (SEED_RUN_TESTS=1): demo.py exits 0 on the unchanged tree and 1 with patch.diff applied; "
                     "pinned suite test/arch/mep: 280 passed with the change applied",
        "detected_by": det, "check_cmd": "./check %s %s  (exit 1, VIOLATION lines)" % (pid, extra)}
json.dump(meta, open(os.path.join(d, "meta.json"), "w"), indent=1)
