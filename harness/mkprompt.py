"""usage: python3 harness/mkprompt.py <property id> <worktree name> [extra hint]  -> writes /tmp/seedprompts/<name>.txt (the brief of
an independent seeding sub-agent: property text + scratch worktree only, nothing from /verif)"""
import json
import os
import sys

pid, name = sys.argv[1], sys.argv[2]
extra = sys.argv[3] if len(sys.argv) > 3 else ""
rec = [json.loads(l) for l in open("/verif/properties.jsonl") if json.loads(l)["id"] == pid][0]
wt = "/tmp/wt/" + name
T = """You are helping test a verification effort for the open-source project cea-sec/miasm (a Python reverse-engineering framework). You have your own scratch git worktree of the repository at WT (work ONLY there; never touch /repo or /verif, and do not read anything under /verif). Python: /venv/bin/python (run things with `cd WT && PYTHONPATH=WT /venv/bin/python ...` so that the worktree's miasm is imported, and verify with `python -c "import miasm; print(miasm.__file__)"` that it is the worktree copy). There is no network.

Here is a semantic property of miasm that should hold (JSON record):

REC

Your job: produce ONE realistic change (a plausible-looking bug a developer could introduce: an off-by-one, a wrong boundary/mask, a dropped case, a stale cache, a wrong order, two cooperating sites that each look fine alone...) to the miasm source in your worktree that BREAKS this property, while (a) everything still imports/compiles, and (b) the existing pinned test suite still passes: `cd WT && /venv/bin/python -m pytest -q -x -p no:cacheprovider --timeout=900 test/arch/mep` (280 tests; takes a few seconds; run it before and after, it must pass with your change).

Prefer a change that needs something SPECIFIC to manifest (an unusual input, a particular boundary value or width, a multi-step sequence of operations, a particular shape of the data structure), not one that ordinary use would expose at once. The change must be to the code the property is about (see the anchors in the record), must be small (a few lines), and must not be a blatant sabotage (no `if x == 1234: return wrong`). EXTRA

IMPORTANT: do NOT use `git stash` (the stash is shared between all worktrees of the repository and other people are working in sibling worktrees right now). To get back to the unchanged code use `git -C WT diff > /tmp/NAME_my.patch; git -C WT checkout -- .` and to re-apply `git -C WT apply /tmp/NAME_my.patch`.

Deliverables, written into WT/SEED/ :
 1. patch.diff  -- `git -C WT diff` of your change (source files only, not SEED/), applicable with `git apply` on a clean checkout.
 2. demo.py -- a small standalone program using only miasm's public API that exits 0 on the UNCHANGED code and exits 1 (printing what went wrong) WITH your change. It must be run as `PYTHONPATH=<tree> /venv/bin/python demo.py` (do not hard-code the worktree path inside it). Verify both outcomes yourself.
 3. notes.txt -- 3-6 lines: what the change is, why it breaks the property, what exactly is needed for it to manifest, and the test-suite result before/after.

When finished leave the worktree with the change applied, and reply with a short summary (the changed file/function, what is needed to manifest, confirmation of demo and test results)."""
os.makedirs("/tmp/seedprompts", exist_ok=True)
out = "/tmp/seedprompts/%s.txt" % name
open(out, "w").write(T.replace("WT", wt).replace("REC", json.dumps(rec, indent=1)).replace("EXTRA", extra).replace("NAME", name))
print(out)
