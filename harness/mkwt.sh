#!/bin/sh
# usage: mkwt.sh <name>   -> creates scratch worktree /tmp/wt/<name> of /repo HEAD with the compiled extensions copied in
# remove with: git -C /repo worktree remove --force /tmp/wt/<name>
set -e
N="$1"; D="/tmp/wt/$N"
mkdir -p /tmp/wt
git -C /repo worktree add --detach "$D" HEAD >/dev/null 2>&1
cd /repo
for f in miasm/VERSION miasm/jitter/*.so miasm/jitter/arch/*.so; do [ -f "$f" ] && cp "$f" "$D/$f"; done
echo "$D"
