"""Reasons for the properties that are not claimed.  NOT_APPLICABLE: the technique family cannot decide the property in this
sandbox (DESIGN.md section 5).  NOT_BUILT: a contract was designed (DESIGN.md section 4) but the machinery that would
discharge it is not built (yet) -- listed honestly rather than claimed."""

NOT_APPLICABLE = {
 "C14": "Quantifies over every decodable instruction of ten architectures; the lifter is ~14k lines of per-mnemonic semantics behind table/metaclass-driven decoders that the Python front end cannot execute symbolically; no function-level contract carries the statement. A bounded prototype over random decodable instructions (round 4) reported dozens of classes of pre-existing failures across MSP430, MeP, PowerPC and others (KeyError instead of an unsupported report, size mismatches, non-assignable destinations) whose triage was beyond the session: not registered.",
 "C15": "Encode/decode inverse over cpu.py's metaclass-generated field tables built by reflection at import time; no per-function contract is expressible over it with this machinery. A bounded prototype (round 4) reported dozens of pre-existing asymmetries across architectures: not registered (C32 / C18 exercise the x86, ARM, MIPS32 and MSP430 encoders on their own families and led to three encoder fixes).",
 "C16": "Printer/parser inverse over the same tables plus pyparsing grammars; string/grammar reasoning is outside both solvers' reach.",
 "C17": "Differential against an external reference disassembler that is not installed and has no contract; nothing to verify against.",
 "C19": "Differential against a reference emulator that is not present; no machine-readable ISA specification in the sandbox.",
}

NOT_BUILT = {
}
