"""Reasons for the properties that are not claimed.  NOT_APPLICABLE: the technique family cannot decide the property in this
sandbox (DESIGN.md section 5).  NOT_BUILT: a contract was designed (DESIGN.md section 4) but the machinery that would
discharge it is not built (yet) -- listed honestly rather than claimed."""

NOT_APPLICABLE = {
 "C17": "Differential against an external reference disassembler. llvm-mc 14 / objdump are in the sandbox and a prototype (round 4) compared miasm's decoded length with llvm-mc on random x86 byte sequences: 3.7% (32-bit) and 16% (64-bit) of the decodable sequences disagree, in many classes -- conventions of the reference (redundant prefixes counted as separate instructions) mixed with genuine miasm defects (opcodes invalid in 64-bit mode such as AAA, POP ES, LDS are decoded; SAL /6 and ICEBP forms LLVM rejects). Separating the two per class was beyond the session; a check that cannot be made quiet honestly is not registered.",
 "C19": "Differential against a reference emulator that is not present; no machine-readable ISA specification in the sandbox.",
}

NOT_BUILT = {
}
