"""Reasons for the properties that are not claimed.  NOT_APPLICABLE: the technique family cannot decide the property in this
sandbox (DESIGN.md section 5).  NOT_BUILT: a contract was designed (DESIGN.md section 4) but the machinery that would
discharge it is not built (yet) -- listed honestly rather than claimed."""

NOT_APPLICABLE = {
 "C19": "Differential against a reference CPU emulator for ARM, Thumb, AArch64, MIPS32 and PowerPC: none is present (no qemu, no unicorn in either python, gdb has no simulator target; clang-14 can compile for these targets but nothing can execute the result) and the host only executes x86 (used by C18); there is no machine-readable ISA specification in the sandbox either, so neither a contract nor a bounded differential can be stated. (C20 compares miasm's own back ends on ARM / AArch64 / MIPS32 programs: agreement between them, not with a reference.)",
}

NOT_BUILT = {
}
