#!/bin/sh
# usage: seedmeta.sh <seed id> : runs seedtest (with the pinned tests) and writes seeded/<id>/meta.json from the outcome
S="$1"; P="${S%-*}"
OUT="$(SEED_RUN_TESTS=1 SEED_PY=/verif/.venv312/bin/python SEED_TIMEOUT=1500 sh /verif/harness/seedtest.sh $P /verif/seeded/$S 2>&1 | grep -v WARNING)"
echo "$OUT" | head -2 | cut -c1-200
/verif/.venv312/bin/python - "$S" "$P" <<PYEOF
import json, os, re, sys
s, p = sys.argv[1], sys.argv[2]
out = """$OUT"""
d = "/verif/seeded/" + s
notes = open(os.path.join(d, "notes.txt")).read() if os.path.exists(os.path.join(d, "notes.txt")) else ""
m = re.search(r"demo_unchanged=(\S+) demo_changed=(\S+) tests=(\S+) check_exit=(\S+)", out)
viol = [re.sub(r".*replay=/verif/replay/", "", l)[:160] for l in out.splitlines() if l.startswith("VIOLATION")]
meta = {"property": p, "breaks": p,
        "needs_to_manifest": " ".join(notes.split())[:900],
        "source": "independent sub-agent given only the property text and a scratch worktree",
        "confirmed": "harness/seedtest.sh with SEED_RUN_TESTS=1: demo.py exit %s on the unchanged tree, %s with patch.diff applied; pinned suite "
                     "test/arch/mep with the change applied: pytest exit %s" % (m.group(1), m.group(2), m.group(3)),
        "detected_by": "; ".join(viol) or "NOT DETECTED",
        "check_cmd": "./check %s --tier quick  (exit %s)" % (p, m.group(4))}
if os.path.exists(os.path.join(d, "meta.json")):
    old = json.load(open(os.path.join(d, "meta.json")))
    if len(old.get("needs_to_manifest", "")) > 20 and "sub-agent" in old.get("source", ""):
        meta["needs_to_manifest"] = old["needs_to_manifest"]
json.dump(meta, open(os.path.join(d, "meta.json"), "w"), indent=1)
PYEOF
