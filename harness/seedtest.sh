#!/bin/sh
# usage: seedtest.sh <property id> <seed dir containing patch.diff demo.py> [check args...]
# Confirms a seeded change (demo passes on the unchanged tree, fails with the change), runs the registered check against it
# and restores /repo.  Prints a one-line verdict.
PID="$1"; SEED="$2"; shift 2
cd /repo || exit 3
git diff --quiet || { echo "repo not clean"; exit 3; }
# the gcc jitter caches compiled blocks by a hash of the guest code only: entries left by another tree would be reused
rm -rf /tmp/miasm_cache
PYTHONPATH=/repo timeout 300 ${SEED_PY:-/venv/bin/python} "$SEED/demo.py" >/tmp/seed_demo0.out 2>&1; D0=$?
rm -rf /tmp/miasm_cache
git apply "$SEED/patch.diff" || { echo "patch does not apply"; exit 3; }
PYTHONPATH=/repo timeout 300 ${SEED_PY:-/venv/bin/python} "$SEED/demo.py" >/tmp/seed_demo1.out 2>&1; D1=$?
rm -rf /tmp/miasm_cache
if [ -n "$SEED_RUN_TESTS" ]; then
  timeout 1500 /venv/bin/python -m pytest -q -x -p no:cacheprovider --timeout=900 test/arch/mep >/tmp/seed_tests.out 2>&1; T=$?
else T=skipped; fi
# the evidence of a run against a deliberately broken tree must never replace evidence/<id>.json (the record of the unchanged tree)
EVD="$(mktemp -d /tmp/seed_evidence.XXXXXX)"
cd /verif && VERIF_EVIDENCE_DIR="$EVD" timeout ${SEED_TIMEOUT:-900} ./check "$PID" "$@" >/tmp/seed_check.out 2>&1; C=$?
git -C /repo checkout -- . 
rm -rf "$EVD"
echo "seed=$SEED demo_unchanged=$D0 demo_changed=$D1 tests=$T check_exit=$C"
grep -m3 "VIOLATION\|UNDECIDED\|CHECKER-ERROR" /tmp/seed_check.out | cut -c1-220
