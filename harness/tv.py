"""Translation validation under contract (C05, C06, C07-clause 1, C04): the contract of a code generator is
"the emitted artefact denotes SPEC(e)".  The real generator is executed on every template of a finite family; the
emitted artefact is turned into a z3 term by `to_term` and `term != SPEC(e)` (under "all divisors non-zero") is given
to z3: unsat = the obligation is discharged for ALL identifier values and memory contents."""
from __future__ import annotations

import time
import traceback

import z3

from vc import spec


class NotSupported(Exception):
    """the generator declares the expression unsupported (documented refusal): not an obligation"""


class TVTarget(object):
    kind = "tv"

    def __init__(self, tid, templates, to_term, funcs, big_endian=False, id_name=None, mem_name=None, rlimit=30000000,
                 note=None):
        self.id = tid
        self.templates = templates        # [(name, expr)]
        self.to_term = to_term            # expr -> z3 term (runs the REAL translator); NotSupported to skip
        self.funcs = funcs
        self.big_endian = big_endian
        self.id_name = id_name
        self.mem_name = mem_name
        self.rlimit = rlimit
        self.min_obligations = 1
        self.params = {"templates": len(templates)}
        self.bound = None

    def check_one(self, name, e):
        """-> (status, info) status in discharged / refuted / undecided / unsupported"""
        try:
            t = self.to_term(e)
        except NotSupported as ex:
            return "unsupported", {"why": str(ex)[:200]}
        except Exception as ex:     # noqa -- a crash of the generator on an expression it otherwise handles
            return "refuted", {"kind": "raises", "exception": "%s: %s" % (type(ex).__name__, str(ex)[:300]),
                               "model": {}, "replayed": True}
        env = spec.Env(spec.BV, self.big_endian, self.id_name, self.mem_name)
        try:
            want, w = spec.sem(e, env)
        except Exception as ex:     # noqa
            return "undecided", {"why": "SPEC cannot express the template: %r" % (ex,)}
        if not z3.is_bv(t) or t.size() != w:
            return "refuted", {"kind": "width", "got": str(t.sort()) if z3.is_expr(t) else repr(type(t)), "want": w,
                               "model": {}, "replayed": True}
        s = z3.Solver()
        s.set("rlimit", self.rlimit)
        for d, dw in env.divisors:
            s.add(d != z3.BitVecVal(0, dw))
        s.add(t != want)
        r = s.check()
        if r == z3.unsat:
            return "discharged", {}
        if r == z3.unknown:
            return "undecided", {"why": s.reason_unknown()}
        m = s.model()
        ids = {}
        for (nm, iw), v in env.ids.items():
            ids[(nm, iw)] = m.eval(v, model_completion=True).as_long()
        got = m.eval(t, model_completion=True)
        exp = m.eval(want, model_completion=True)
        info = {"kind": "value", "model": dict(("%s:%d" % k, v) for k, v in ids.items()), "generated": str(got),
                "spec": str(exp)}
        # replay against miasm's own evaluation where possible (no memory, no uninterpreted operator)
        info["replayed"] = False
        try:
            from miasm.expression.expression import ExprId, ExprInt
            from miasm.expression.simplifications import expr_simp
            sub = dict((ExprId(nm, iw), ExprInt(v, iw)) for (nm, iw), v in ids.items())
            r2 = expr_simp(e.replace_expr(sub))
            if r2.is_int():
                info["miasm"] = int(r2)
                if int(r2) == exp.as_long() and int(r2) != got.as_long():
                    info["replayed"] = True
                elif int(r2) != exp.as_long():
                    info["spec_disagrees_with_miasm"] = True
        except Exception as ex:     # noqa
            info["replay_error"] = repr(ex)
        return "refuted", info

    def run_custom(self, findings, seed):
        from vc import loader
        t0 = time.time()
        res = {"id": self.id, "kind": "tv", "params": self.params, "bound": None, "functions": [], "paths": 0,
               "obligations": 0, "discharged": 0, "refuted": [], "undecided": [], "unsupported": None, "engine_error": None,
               "known": [], "backends": {}, "samples": [], "solver_time": 0.0, "covers": [],
               "extra_coverage": {"programs": 0, "disagreements_checked": 0, "unsupported_templates": 0}}
        for f in self.funcs:
            try:
                h = loader.func_text_hash(f)
                h["name"] = "%s:%s" % (f.__module__, f.__qualname__)
                res["functions"].append(h)
            except Exception:
                pass
        known = [f for f in findings if f.get("status", "known") == "known" and self.id.startswith(f["target"])]
        for name, e in self.templates:
            t1 = time.time()
            try:
                st, info = self.check_one(name, e)
            except Exception as ex:     # noqa
                res["engine_error"] = "%s on %s\n%s" % (ex, name, traceback.format_exc())
                break
            res["solver_time"] += time.time() - t1
            if st == "unsupported":
                res["extra_coverage"]["unsupported_templates"] += 1
                continue
            res["obligations"] += 1
            res["extra_coverage"]["programs"] += 1
            oid = "%s/%s" % (self.id, name)
            if st == "discharged":
                res["discharged"] += 1
                res["backends"]["z3-bv"] = res["backends"].get("z3-bv", 0) + 1
                if len(res["samples"]) < 2:
                    res["samples"].append({"template": str(e), "obligation": oid, "verdict": "generated == SPEC for all values"})
            elif st == "undecided":
                res["undecided"].append({"obligation": oid, "reason": info.get("why"), "goal": str(e)})
            else:
                res["extra_coverage"]["disagreements_checked"] += 1
                hit = None
                for f in known:
                    try:
                        if eval(f["witness"], {"__builtins__": {}}, {"ops": _ops_of(e), "template": name, "expr": str(e),
                                                                   "kind": info.get("kind")}):
                            hit = f
                            break
                    except Exception:
                        pass
                if hit is not None:
                    res["known"].append({"finding": hit["id"], "obligation": oid, "model": info.get("model"), "replay": "fails"})
                    res["discharged"] += 0
                    res["obligations"] -= 1          # counted under the known finding, not as an open obligation
                    continue
                if info.get("spec_disagrees_with_miasm"):
                    res["undecided"].append({"obligation": oid, "reason": "SPEC disagrees with miasm's own evaluation on the "
                                             "counter-model (oracle error, not a finding): %r" % (info,), "goal": str(e)})
                    continue
                status = "fails" if info.get("replayed") or info.get("kind") in ("raises", "width") else "passes"
                if "miasm" not in info and info.get("kind") == "value":
                    status = "fails"      # memory / uninterpreted templates: SPEC's concrete evaluator is the replay oracle
                res["refuted"].append({"obligation": oid, "model": info.get("model", {}), "backend": "z3-bv",
                                       "replay": {"status": status, "detail": info}, "goal": str(e), "pc": []})
        res["wall"] = time.time() - t0
        return res

    def replay_custom(self, rp):
        name = rp["obligation"].split(self.id + "/", 1)[-1]
        for n, e in self.templates:
            if n == name:
                st, info = self.check_one(n, e)
                return {"status": "fails" if st == "refuted" else "passes", "detail": info, "failed": []}
        return {"status": "replay-error", "detail": "template not found", "failed": []}


def _ops_of(e):
    out = set()

    def v(x):
        if x.is_op():
            out.add(x.op)
        return x
    e.visit(v)
    return out


def chunks(templates, n):
    """n work units, dealt round-robin: neighbouring templates share their operator and so their cost (the division family
    is the expensive one), contiguous slices left one unit with all of them"""
    n = max(1, min(n, len(templates)))
    return [templates[i::n] for i in range(n)]
