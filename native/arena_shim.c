/* CPython 3.12 maps/unmaps a 16 KiB data-stack chunk (and 1 MiB object arenas) whenever the interpreter's recursion depth
 * oscillates around a chunk boundary; with the deep recursion of the symbolic interpreter that is ~10^4 mmap/munmap pairs
 * per target, and 16 worker processes then spend most of their time in the kernel.  This shim caches those blocks.
 * It changes nothing but where CPython gets its raw arenas from. */
#define PY_SSIZE_T_CLEAN
#include <Python.h>
#include <sys/mman.h>

static PyObjectArenaAllocator orig;
#define NCLASS 2
static const size_t cls_size[NCLASS] = {16384, 1u << 20};
static const int cls_cap[NCLASS] = {2048, 96};
static void *cache[NCLASS][2048];
static int ncache[NCLASS];

static void *my_alloc(void *ctx, size_t size) {
    for (int c = 0; c < NCLASS; c++)
        if (size == cls_size[c] && ncache[c] > 0)
            return cache[c][--ncache[c]];
    return orig.alloc(orig.ctx, size);
}

static void my_free(void *ctx, void *ptr, size_t size) {
    for (int c = 0; c < NCLASS; c++)
        if (size == cls_size[c] && ncache[c] < cls_cap[c]) {
            cache[c][ncache[c]++] = ptr;
            return;
        }
    orig.free(orig.ctx, ptr, size);
}

int vc_install_arena_cache(void) {
    PyObjectArenaAllocator a;
    PyObject_GetArenaAllocator(&orig);
    a.ctx = NULL;
    a.alloc = my_alloc;
    a.free = my_free;
    PyObject_SetArenaAllocator(&a);
    return 0;
}
