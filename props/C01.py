"""C01 -- Expression simplification preserves meaning and never crashes.

Amendment to DESIGN.md section 4/C01 (see DESIGN.md section 12): the rule contracts are NOT discharged by lazy
initialisation (not built); instead the contract of the public entry point
    ExpressionSimplifier.__call__(e):  width(result) == width(e)  and  [[result]] == [[e]]  and no exception
is discharged on an enumerated family of expression SHAPES (depth <= 2, plus pattern families for cond / compose / slice /
condition codes) whose constants are SYMBOLIC and whose leaves are arbitrary identifiers: the whole real pipeline (every
registered pass, canonization, fixpoint loop) is interpreted by pyvc per shape, and the equality with SPEC is proved for
ALL constant values and ALL identifier values.  Shape-bounded => level 'other'.
"""
import itertools

from miasm.expression.expression import ExprCompose, ExprCond, ExprId, ExprInt, ExprMem, ExprOp, ExprSlice
from miasm.expression.simplifications import ExpressionSimplifier
from miasm.expression import simplifications_common as SC
from miasm.expression import simplifications_explicit as SE

from harness.core import Target
from vc import spec
from vc.exprmodel import expr_config, fresh_simplifier
from vc.path import Infeasible
from vc.terms import And, Eq, Implies, Not, Or, PyArith

PROPERTY = {
    "id": "C01",
    "level": "other",
    "explanation": "Contract of ExpressionSimplifier.__call__ (same width, same SPEC value under every assignment, no exception) "
                   "discharged per expression SHAPE: every shape of an enumerated family (operators x operators at depth 2, "
                   "pattern families for conditions, compositions, slices, extensions, flags and condition codes) is built "
                   "with SYMBOLIC constants and identifier leaves and pushed through the whole real simplifier by the symbolic "
                   "interpreter; `[[result]] == [[input]]` is then proved by z3 for all constant and identifier values "
                   "(exact wide bit-vector encoding, integer encoding for the arithmetic family). Values unbounded within the "
                   "width; shapes bounded (depth <= 2/3, arity <= 3) => 'other', never counted as proved. The evidence lists "
                   "which registered passes actually rewrote something on the family and which never fired.",
    "trusted_base": ["pyvc interpreter + CPython differential", "SPEC (vc/spec.py)", "z3 (rlimit) integer + exact wide "
                     "bit-vector encodings", "Expr.get_object through its C08 contract; visitor caches treated as pure memo "
                     "tables (passes are pure)"],
    "assumptions": ["shape family: depth <= 2 (3 for some pattern families), n-ary arity <= 3, widths (8,32) quick; "
                    "(4,8),(8,16),(32,64) added in thorough", "zero divisors excluded (SPEC undefined)",
                    "PASS_COND is not part of any shipped configuration: out of scope"],
}

CONFIGS = {"commons": [ExpressionSimplifier.PASS_COMMONS],
           "explicit": [ExpressionSimplifier.PASS_HIGH_TO_EXPLICIT],
           "commons+explicit": [ExpressionSimplifier.PASS_COMMONS, ExpressionSimplifier.PASS_HIGH_TO_EXPLICIT]}

ARITH = ["+", "*", "&", "^", "|"]
SHIFT = ["<<", ">>", "a>>", "<<<", ">>>"]
DIVS = ["/", "%", "udiv", "umod", "sdiv", "smod"]
CMPS = ["==", "<u", "<s", "<=u", "<=s"]
FLAG2 = ["FLAG_EQ_AND", "FLAG_EQ_CMP", "FLAG_SIGN_SUB", "FLAG_ADD_CF", "FLAG_SUB_CF", "FLAG_ADD_OF", "FLAG_SUB_OF"]
UN = ["-", "parity", "cntleadzeros", "cnttrailzeros"]


# ------------------------------------------------------------------------------------------------------
# template DSL -> expression
# ------------------------------------------------------------------------------------------------------
def ID(n, w): return ("id", n, w)
def K(n, w): return ("int", n, w)
def C(v, w): return ("cst", v, w)
def OP(op, *a): return ("op", op) + a
def SL(a, lo, hi): return ("slice", a, lo, hi)
def CO(*a): return ("compose",) + a
def CD(c, a, b): return ("cond", c, a, b)
def ME(p, s): return ("mem", p, s)
def NEG(a): return OP("-", a)
def ZX(a, n): return OP("zeroExt_%d" % n, a)
def SX(a, n): return OP("signExt_%d" % n, a)


def width(t):
    k = t[0]
    if k in ("id", "int", "cst"):
        return t[2]
    if k == "slice":
        return t[3] - t[2]
    if k == "compose":
        return sum(width(x) for x in t[1:])
    if k == "cond":
        return width(t[2])
    if k == "mem":
        return t[2]
    return spec.result_width(t[1], [width(x) for x in t[2:]])


def wellformed(t):
    k = t[0]
    if k in ("id", "int", "cst"):
        return True
    if k == "slice":
        return wellformed(t[1]) and 0 <= t[2] < t[3] <= width(t[1])
    if k == "compose":
        return all(wellformed(x) for x in t[1:])
    if k == "cond":
        return all(wellformed(x) for x in t[1:]) and width(t[2]) == width(t[3])
    if k == "mem":
        return wellformed(t[1]) and t[2] % 8 == 0
    op, args = t[1], t[2:]
    if not all(wellformed(x) for x in args):
        return False
    ws = [width(x) for x in args]
    if op in spec.FLAGS3:
        return len(args) == 3 and ws[0] == ws[1] and ws[2] == 1
    if len(set(ws)) != 1:
        return False
    if op.startswith("zeroExt_") or op.startswith("signExt_"):
        return int(op[8:]) > ws[0]
    if op in spec.CC:
        return len(args) == spec.CC[op] and ws[0] == 1
    return spec.arity_ok(op, len(args))


def show(t):
    k = t[0]
    if k == "id":
        return "%s%d" % (t[1], t[2])
    if k == "int":
        return "#%s%d" % (t[1], t[2])
    if k == "cst":
        return "0x%x:%d" % (t[1], t[2])
    if k == "slice":
        return "%s[%d:%d]" % (show(t[1]), t[2], t[3])
    if k == "compose":
        return "{%s}" % ",".join(show(x) for x in t[1:])
    if k == "cond":
        return "(%s?%s:%s)" % tuple(show(x) for x in t[1:])
    if k == "mem":
        return "@%d[%s]" % (t[2], show(t[1]))
    return "%s(%s)" % (t[1], ",".join(show(x) for x in t[2:]))


def build(ctx, t, ints):
    k = t[0]
    if k == "id":
        return ExprId(t[1], t[2])
    if k == "cst":
        return ExprInt(t[1], t[2])
    if k == "int":
        key = (t[1], t[2])
        if key not in ints:
            v = ctx.int("k_%s_%d" % (t[1], t[2]), 0, (1 << t[2]) - 1)
            r = ctx.call(ExprInt, v, t[2])
            if r.raised:
                raise AssertionError("ExprInt raised %r" % (r.exc,))
            ints[key] = r.value
        return ints[key]
    if k == "slice":
        r = ctx.call(ExprSlice, build(ctx, t[1], ints), t[2], t[3])
    elif k == "compose":
        r = ctx.call(ExprCompose, *[build(ctx, x, ints) for x in t[1:]])
    elif k == "cond":
        r = ctx.call(ExprCond, *[build(ctx, x, ints) for x in t[1:]])
    elif k == "mem":
        r = ctx.call(ExprMem, build(ctx, t[1], ints), t[2])
    else:
        r = ctx.call(ExprOp, t[1], *[build(ctx, x, ints) for x in t[2:]])
    if r.raised:
        raise Infeasible("template is not a well-formed expression: %r" % (r.exc,))
    return r.value


def mem8_concrete(a):
    return ((a * 2654435761) >> 7) & 0xff


FIRED = {}


def make_pass_wrappers():
    """each registered pass is still interpreted from its real source; the wrapper only records whether it rewrote"""
    wr = {}
    passes = set()
    for table in (ExpressionSimplifier.PASS_COMMONS, ExpressionSimplifier.PASS_HIGH_TO_EXPLICIT):
        for fs in table.values():
            passes.update(fs)

    def mk(f):
        def handler(o, args, kwargs):
            r = o.I.call_function(f, args, kwargs)
            if r is not args[1]:
                FIRED[f.__name__] = FIRED.get(f.__name__, 0) + 1
            return r
        return handler
    for f in passes:
        wr[f] = mk(f)
    return wr, passes


WRAPPERS, PASSES = make_pass_wrappers()


def t_shape(t, cfg):
    def body(ctx):
        s = fresh_simplifier(CONFIGS[cfg])
        ints = {}
        e = build(ctx, t, ints)
        vals = {}

        def ident(nm, w):
            if (nm, w) not in vals:
                vals[(nm, w)] = ctx.int("id_%s_%d" % (nm, w), 0, (1 << w) - 1)
            return vals[(nm, w)]
        env = spec.Env(spec.INT)
        env.ident = ident
        if not ctx.symbolic:
            env.mem_byte = lambda a, w_: mem8_concrete(a)
        try:
            v0, w0 = spec.sem(e, env)
        except PyArith:
            raise Infeasible("zero divisor: SPEC undefined")
        for d, dw in env.divisors:
            ctx.assume(d != 0)
        r = ctx.call(ExpressionSimplifier.__call__, s, e)
        ctx.cover("ret")
        if r.raised:
            ctx.check("no-raise:%s" % type(r.exc).__name__, False, kind="no-raise", info={"exception": repr(r.exc)})
            return
        res = r.value
        ndiv = len(env.divisors)
        try:
            v1, w1 = spec.sem(res, env)
        except PyArith:
            ctx.check("result-defined", False)
            return
        ctx.check("width", w1 == w0, kind="size")
        if w1 != w0:
            return
        # a rewriting must not introduce a division that can be undefined where the original was defined
        for d, dw in env.divisors[ndiv:]:
            ctx.check("result-divisor-nonzero", d != 0)
        ctx.check("value", Eq(v1, v0))
    return body


# ------------------------------------------------------------------------------------------------------
# shape families
# ------------------------------------------------------------------------------------------------------
def family(w, ws, tier):
    """w: main width, ws: small width (extensions ws -> w)"""
    A, B, Cc = ID("A", w), ID("B", w), ID("C", w)
    a, b = ID("a", ws), ID("b", ws)
    k1, k2, k3 = K("p", w), K("q", w), K("r", w)
    ks = K("s", ws)
    f1, f2 = ID("f", 1), ID("g", 1)
    out = []
    bin_ops = ARITH + SHIFT + DIVS + CMPS + FLAG2
    leaves2 = [(A, k1), (k1, A), (A, B), (A, A)]
    # depth 1
    for op in bin_ops:
        for x, y in leaves2:
            out.append(OP(op, x, y))
    for op in ARITH:
        out += [OP(op, A, B, k1), OP(op, A, k1, k2), OP(op, A, B, A), OP(op, A, NEG(A), B), OP(op, k1, A, k2)]
    for op in UN:
        out += [OP(op, A), OP(op, k1)]
    out += [ZX(a, w), SX(a, w), ZX(ks, w), SX(ks, w)]
    # depth 2: binary over binary
    childs = []
    for op in ARITH + SHIFT + ["udiv", "umod", "sdiv", "smod"]:
        childs += [OP(op, A, k1), OP(op, A, B)]
    childs += [NEG(A), NEG(k1), OP("*", A, C((1 << w) - 1, w))]
    parents = ARITH + SHIFT + CMPS + (["udiv", "smod"] if tier != "quick" else [])
    for p in parents:
        for c in childs:
            out += [OP(p, c, k2), OP(p, c, Cc), OP(p, Cc, c)]
            if p in ARITH:
                out.append(OP(p, c, c))
    for u in UN:
        for c in childs[:12]:
            out.append(OP(u, c))
    # comparisons / flags against constants and between extensions (the boundary rules)
    for ext in (ZX, SX):
        ea, eb = ext(a, w), ext(b, w)
        for op in CMPS + ["FLAG_EQ_CMP", "FLAG_SUB_CF", "FLAG_SIGN_SUB", "FLAG_SUB_OF"]:
            out += [OP(op, ea, k1), OP(op, k1, ea), OP(op, ea, eb), OP(op, ea, ext(ks, w))]
        for op in ARITH + SHIFT + ["sdiv", "smod", "udiv", "umod"]:
            out += [OP(op, ea, eb), OP(op, ea, k1)]
            out.append(SL(OP(op, ea, eb), 0, ws))
            out.append(OP("==", OP(op, ea, k1), k2))
        out += [ext(ext(ID("t", ws // 2 or 1), ws), w)] if ws > 1 else []
        out += [SL(ea, 0, ws), SL(ea, 0, ws // 2 or 1), SL(ea, ws // 2, ws), SL(ea, ws, w), SL(ea, ws - 1, ws + 1) if w > ws else ea,
                SL(ea, 1, w)]
        out += [CD(ea, A, B), CD(OP("&", ea, k1), A, B), CD(OP("|", ea, k1), A, B), CD(OP("^", ea, k1), A, B),
                CD(OP("==", ea, k1), A, B), CD(OP("<s", ea, k1), A, B), CD(OP("<u", ea, k1), A, B)]
        out += [OP("==", OP("&", ea, k1), k2), ext(CD(f1, ks, K("t", ws)), w), ext(CD(A, a, b), w)]
    out += [ZX(SX(ID("t", ws // 2 or 1), ws), w), SX(ZX(ID("t", ws // 2 or 1), ws), w)] if ws > 1 else []
    # compositions
    z = C(0, w - ws)
    out += [OP(op, CO(a, z), k1) for op in CMPS + ["&", "|", "^", "+", "<<", ">>"]]
    out += [OP("==", CO(a, K("h", w - ws)), k1), OP("&", CO(a, b, C(0, w - 2 * ws)), k1) if w >= 2 * ws else A,
            CO(SL(A, 0, ws), SL(A, ws, w)), CO(SL(A, 0, ws), SL(B, ws, w)), CO(ks, K("h", w - ws)), CO(a, CD(f1, z, K("h", w - ws))),
            CO(SL(A, 0, ws), C(0, w - ws)), SL(CO(a, b), 0, ws), SL(CO(a, b), ws, 2 * ws), SL(CO(a, b), 1, ws + 1) if ws > 1 else a,
            OP("<<", CO(a, z), k1), OP(">>", CO(a, K("h", w - ws)), k1), OP("<<", CO(a, z), C(ws, w)), OP(">>", CO(z, a), C(ws, w)),
            OP("|", CO(a, z), CO(b, K("h", w - ws))), OP("&", CO(a, z), CO(b, z)), OP("^", CO(a, z), CO(ks, z))]
    # slices
    for lo, hi in sorted(set([(0, ws), (0, 1), (w - 1, w), (ws, w), (1, ws + 1), (0, w - 1)])):
        if not (0 <= lo < hi <= w):
            continue
        out += [SL(k1, lo, hi), SL(OP("&", A, k1), lo, hi), SL(OP("|", A, k1), lo, hi), SL(OP("^", A, B), lo, hi),
                SL(OP("+", A, k1), lo, hi), SL(OP("<<", A, k1), lo, hi), SL(OP(">>", A, k1), lo, hi), SL(NEG(A), lo, hi),
                SL(CD(f1, A, B), lo, hi), SL(CD(f1, k1, k2), lo, hi), SL(OP("<<", A, C(ws, w)), lo, hi),
                SL(OP(">>", A, C(ws, w)), lo, hi), SL(OP("a>>", A, C(ws, w)), lo, hi), SL(ME(A, w), lo, hi) if w in (32, 64) else A]
        if hi - lo > 1:
            out.append(SL(SL(A, lo, hi), 0, 1))
            out.append(SL(SL(A, lo, hi), hi - lo - 1, hi - lo))
    # conditions
    conds = [A, k1, OP("==", A, k1), OP("==", A, B), OP("<s", A, k1), OP("<u", A, B), OP("&", A, k1), OP("|", A, k1), OP("^", A, k1),
             OP("+", A, k1), OP("+", A, NEG(B)), NEG(A), SL(A, w - 1, w), OP("<=u", A, k1), OP("FLAG_EQ_CMP", A, B),
             OP("FLAG_SUB_CF", A, B), OP("FLAG_EQ", A), OP("FLAG_SIGN_SUB", A, B), CD(B, k1, k2), CD(B, C(1, w), C(0, w)),
             OP("<<", A, k1), OP("zeroExt_%d" % (2 * w), A)]
    for c in conds:
        out += [CD(c, B, Cc), CD(c, k2, k3), CD(c, C(1, w), C(0, w)), CD(c, C(0, 1), C(1, 1)), CD(c, B, B)]
    out += [CD(f1, C(1, 1), C(0, 1)), CD(f1, C(0, 1), C(1, 1)), CD(CD(f1, A, B), Cc, A), CD(CD(f1, k1, k2), A, B),
            CD(CD(f1, C(1, w), C(0, w)), A, B)]
    for op in ["+", "|", "^", "&", "*", "<<", ">>", "a>>"]:
        out += [OP(op, CD(f1, k1, k2), k3), OP(op, CD(f1, A, B), Cc), OP(op, CD(f1, k1, k2), CD(f1, k3, k1)),
                OP(op, CD(f1, A, B), CD(f2, Cc, A))]
    out += [NEG(CD(f1, k1, k2)), OP("==", CD(f1, k1, k2), k3), OP("==", CD(f1, C(1, w), C(0, w)), C(1, w)),
            OP("==", CD(f1, C(1, w), C(0, w)), C(0, w)), OP("<u", CD(f1, k1, k2), k3)]
    # memory
    if w in (32, 64):
        out += [ME(OP("+", A, k1), 8), ME(OP("+", A, k1, k2), 32), ME(CD(f1, A, B), 16), ME(CO(SL(A, 0, ws), SL(A, ws, w)), 8),
                OP("+", ME(A, w), k1), OP("==", ME(A, w), ME(OP("+", A, C(0, w)), w))]
    # arithmetic identities (simp_add_multiple, cancellations, rotations)
    out += [OP("+", A, A, A), OP("+", A, OP("*", A, k1)), OP("+", OP("*", A, k1), OP("*", A, k2)), OP("+", OP("*", A, k1), NEG(A)),
            OP("+", OP("*", A, k1), OP("*", B, k2), OP("*", A, k3)), OP("+", A, NEG(A), B), OP("^", A, B, A), OP("*", NEG(A), NEG(B)),
            OP("*", NEG(A), B, NEG(Cc)), NEG(OP("*", A, B, k1)), NEG(NEG(A)), NEG(OP("+", A, B)), OP("<<<", OP("<<<", A, k1), k2),
            OP(">>>", OP("<<<", A, k1), k2), OP("<<<", OP(">>>", A, B), B), OP("<<", OP(">>", A, k1), k1), OP(">>", OP("<<", A, k1), k1),
            OP(">>", OP(">>", A, k1), k2), OP("<<", OP("<<", A, B), Cc), OP(">>", OP("&", A, k1), k2), OP("<<<", A, C(w, w)),
            OP("&", A, C((1 << w) - 1, w)), OP("|", A, C((1 << w) - 1, w)), OP("*", A, C(1, w)), OP("+", A, C(0, w))]
    # smod of sign extensions
    out += [OP("smod", SX(a, w), SX(b, w)), OP("smod", SX(a, w), k1), OP("sdiv", SX(a, w), SX(b, w))]
    # condition codes over flags of the same operands
    FA = {"cf": OP("FLAG_SUB_CF", A, B), "zf": OP("FLAG_EQ_CMP", A, B), "nf": OP("FLAG_SIGN_SUB", A, B), "of": OP("FLAG_SUB_OF", A, B),
          "zf0": OP("FLAG_EQ", A), "zfa": OP("FLAG_EQ_AND", A, B), "cf+": OP("FLAG_ADD_CF", A, B), "of+": OP("FLAG_ADD_OF", A, B),
          "nf0": SL(A, w - 1, w)}
    for cc, n in spec.CC.items():
        pools = {1: [("cf",), ("zf",), ("nf",), ("zf0",), ("zfa",), ("nf0",)],
                 2: [("cf", "zf"), ("nf", "of"), ("cf", "zf0"), ("nf0", "of"), ("cf+", "zf")],
                 3: [("nf", "of", "zf"), ("nf0", "of", "zf"), ("nf", "of+", "zf0")]}[n]
        for names in pools:
            t = OP(cc, *[FA[x] for x in names])
            out += [t, CD(t, Cc, A), OP("==", t, C(1, 1))]
        out.append(OP(cc, *[f1, f2, ID("h", 1)][:n]))
    for fl in FLAG2:
        out += [CD(OP(fl, A, B), Cc, A), OP(fl, A, k1), OP(fl, OP("+", A, k1), k2), OP(fl, A, C(0, w)), OP(fl, NEG(A), k1)]
    # every two-operand flag of SPEC (FLAG_SIGN_ADD included) on identifiers, on one constant and on constants only (the
    # constant-folding entry simp_flag_cst re-enters the simplifier: seed C02-2)
    for fl in spec.FLAGS2:
        out += [OP(fl, A, B), OP(fl, k1, A), OP(fl, k1, k2)]
    out += [OP("FLAG_EQ", k1)]
    for fl in spec.FLAGS3:
        out += [OP(fl, k1, k2, C(1, 1)), OP(fl, k1, k2, f1)]
    # round 3 (reported next to seed C01-3): rules that recurse into the simplifier and then assume the result's shape; flags
    # given as CONSTANTS to the condition codes; borrow chains whose low words are other operands; constant-first operands of
    # the extension rules
    if ws >= 2:
        h = ws // 2
        t = ID("t", h)
        out += [OP("==", CO(ZX(t, ws), C(0, w - ws)), k1), OP("==", CO(SX(t, ws), C(0, w - ws)), k1),
                OP("==", CO(OP("+", a, ks), C(0, w - ws)), k1), OP("==", CO(OP("^", a, ks), C(0, w - ws)), k1)]
    nf, zf, of, cf = OP("FLAG_SIGN_SUB", A, B), OP("FLAG_EQ_CMP", A, B), OP("FLAG_SUB_OF", A, B), OP("FLAG_SUB_CF", A, B)
    nf0 = OP("FLAG_SIGN_SUB", A, C(0, w))
    for cc, n in spec.CC.items():
        for bit in (0, 1):
            kb = C(bit, 1)
            if n == 1:
                out += [OP(cc, kb)]
            elif n == 2:
                out += [OP(cc, nf, kb), OP(cc, kb, of), OP(cc, cf, kb), OP(cc, kb, zf), OP(cc, nf0, kb)]
            else:
                out += [OP(cc, nf, kb, zf), OP(cc, nf, of, kb), OP(cc, kb, of, zf), OP(cc, nf0, kb, OP("FLAG_EQ_CMP", A, C(0, w))),
                        OP(cc, nf0, kb, OP("FLAG_EQ", A))]
    D = ID("D", w)
    for fl in spec.FLAGS3:
        out += [OP(fl, A, B, OP("FLAG_SUB_CF", Cc, D)), OP(fl, A, B, OP("FLAG_ADD_CF", Cc, D)),
                OP(fl, A, B, OP("FLAG_SUBWC_CF", Cc, D, f1))]
    for op in ("smod", "sdiv", "umod", "udiv", "+", "&", "<s", "<u", "=="):
        out += [OP(op, k1, SX(b, w)), OP(op, k1, ZX(b, w)), OP(op, SX(a, w), k1)]
    cfc = OP("FLAG_SUB_CF", A, B)
    for fl in spec.FLAGS3:
        out += [OP(fl, A, B, f1), OP(fl, A, B, cfc), OP(fl, A, k1, f1), OP(fl, A, B, C(0, 1)), OP(fl, A, B, C(1, 1))]
    out += [OP("FLAG_EQ", OP("&", A, B)), OP("FLAG_EQ", OP("+", A, NEG(B))), OP("FLAG_SUB_CF", A, C(0, w)), CD(OP("FLAG_SUB_CF", A, B), Cc, A)]
    res, seen = [], set()
    for t in out:
        if t in seen or not wellformed(t):
            continue
        seen.add(t)
        res.append(t)
    return res


# shapes whose obligation is not decided in budget on the unchanged tree (non-linear products of symbolic constants, rotation
# of a rotation by symbolic counts, bit operations over divisions, 4000+ paths): removed statically, listed in the evidence
NOT_ATTEMPTED = {
    "*(A,#p,#q)": "product of two symbolic constants and an identifier: non-linear, neither encoding decides it in budget",
    "*(#p,A,#q)": "same",
    "*(*(A,#p),#q)": "same",
    "*(*(A,#p),*(A,#p))": "same",
    "<<<(<<<(A,#p),#q)": "rotation of a rotation by two symbolic counts",
    ">>>(>>>(A,#p),#q)": "same",
    ">>>(<<<(A,#p),#q)": "same",
    "&(udiv(A,B),udiv(A,B))": "bit operation over a 32-bit division",
    "&(umod(A,B),umod(A,B))": "same",
    "&(umod(A,#p),umod(A,#p))": "same",
    "&(udiv(A,#p),udiv(A,#p))": "same",
    "a>>((f?#p:#q),(f?#r:#p))": "more than 4000 paths",
    "<<((f?#p:#q),(f?#r:#p))": "four symbolic constants under shifts: solver memory",
    ">>((f?#p:#q),(f?#r:#p))": "same",
}


def _take_fired():
    d = dict(FIRED)
    FIRED.clear()
    return {"passes_fired": d}


def _strip_widths(sh):
    import re
    return re.sub(r"(?<=[A-Za-z])\d+", "", sh)


PROPERTY["not_attempted"] = ["%s: %s" % kv for kv in sorted(NOT_ATTEMPTED.items())]


def targets(tier):
    fns = [ExpressionSimplifier.__call__, ExpressionSimplifier.expr_simp_inner, ExpressionSimplifier.apply_simp] + sorted(
        PASSES, key=lambda f: f.__name__)
    ts = []
    wcfg = [(32, 8)] if tier == "quick" else [(32, 8), (8, 4), (16, 8), (64, 32)]
    cfgs = ["commons", "commons+explicit"] if tier == "quick" else ["commons", "commons+explicit", "explicit"]
    for (w, ws) in wcfg:
        fam = family(w, ws, tier)
        for cfg in cfgs:
            for i, t in enumerate(fam):
                if _strip_widths(show(t)) in NOT_ATTEMPTED:
                    continue
                if tier == "quick" and cfg != "commons" and i % 4:
                    continue      # quick: every 4th shape under the second configuration
                cfgd = expr_config(WRAPPERS)
                cfgd["max_steps"] = 1500000
                tg = Target("C01/%s/w=%d,%d/%s" % (cfg, w, ws, show(t)), fns, t_shape(t, cfg), kind="bounded",
                            bound="shape fixed; constants and identifiers symbolic", config=cfgd, diff_samples=3, max_paths=4000)
                tg.expect_covers = ["ret"]
                tg.extra = _take_fired
                ts.append(tg)
    return ts
