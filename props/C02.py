"""C02 -- Simplification reaches a stable fixed point (idempotence + termination per shape).

Same machinery as C01 (see props/C01.py): for each expression shape of the family, with symbolic constants and identifier
leaves, the whole real pipeline is interpreted twice: r1 = simp(e), r2 = simp(r1).  Obligations: r2 is structurally r1
(identity of hash-consed expressions is structural equality, C08), also when the second run uses a fresh simplifier (no
cache).  Every path of the exploration ends, so the simplifier terminates on every instance of the shape (all constant
values) within the interpreter's loop and step budgets."""
from miasm.expression.simplifications import ExpressionSimplifier

from harness.core import Target
from props import C01
from vc.exprmodel import expr_config, fresh_simplifier
from vc.path import Infeasible

PROPERTY = {
    "id": "C02",
    "level": "other",
    "explanation": "Idempotence and termination of ExpressionSimplifier.__call__ discharged per expression SHAPE (family of "
                   "props/C01.py, symbolic constants, identifier leaves): r1 = simp(e); r2 = simp(r1) with the same "
                   "simplifier and with a fresh one; obligation r2 is r1 (structural equality of hash-consed expressions). "
                   "Every explored path ends within the loop/step budgets, which is termination for every instance of the "
                   "shape. Shape-bounded => 'other'. Termination on shapes outside the family is NOT decided.",
    "trusted_base": C01.PROPERTY["trusted_base"],
    "assumptions": C01.PROPERTY["assumptions"] + ["rule pairs that undo each other on shapes outside the family are not detected"],
}


def t_idem(t, cfg):
    def body(ctx):
        s = fresh_simplifier(C01.CONFIGS[cfg])
        ints = {}
        e = C01.build(ctx, t, ints)
        r1 = ctx.call(ExpressionSimplifier.__call__, s, e)
        if r1.raised:
            if isinstance(r1.exc, RecursionError):
                ctx.cover("ret")
                ctx.check("terminates (no unbounded recursion)", False, kind="termination")
                return
            raise Infeasible("raises: C01's obligation, not C02's")
        ctx.cover("ret")
        r2 = ctx.call(ExpressionSimplifier.__call__, s, r1.value)
        if r2.raised:
            ctx.check("second-run-no-raise", False, kind="no-raise")
            return
        ctx.check("idempotent(same simplifier)", ctx.equal(r2.value, r1.value))
        s2 = fresh_simplifier(C01.CONFIGS[cfg])
        r3 = ctx.call(ExpressionSimplifier.__call__, s2, r1.value)
        if r3.raised:
            ctx.check("fresh-run-no-raise", False, kind="no-raise")
            return
        ctx.check("idempotent(fresh simplifier)", ctx.equal(r3.value, r1.value))
    return body


def targets(tier):
    fns = [ExpressionSimplifier.__call__, ExpressionSimplifier.expr_simp_inner, ExpressionSimplifier.apply_simp]
    ts = []
    wcfg = [(32, 8)] if tier == "quick" else [(32, 8), (8, 4), (64, 32)]
    for (w, ws) in wcfg:
        fam = C01.family(w, ws, tier)
        for cfg in (["commons"] if tier == "quick" else ["commons", "commons+explicit"]):
            for i, t in enumerate(fam):
                if C01._strip_widths(C01.show(t)) in C01.NOT_ATTEMPTED:
                    continue
                if tier == "quick" and i % 2:
                    continue
                cfgd = expr_config()
                cfgd["max_steps"] = 3000000
                tg = Target("C02/%s/w=%d,%d/%s" % (cfg, w, ws, C01.show(t)), fns, t_idem(t, cfg), kind="bounded",
                            bound="shape fixed; constants and identifiers symbolic", config=cfgd, diff_samples=2, max_paths=4000)
                tg.expect_covers = ["ret"]
                ts.append(tg)
    return ts
