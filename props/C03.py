"""C03 -- Constant evaluation follows fixed-width two's-complement arithmetic.

Closed templates op(Int a, Int b) with SYMBOLIC a, b go through the WHOLE real pipeline (ExpressionSimplifier.__call__ ->
visit -> canonize -> apply_simp -> every registered pass -> fixpoint loop), interpreted by pyvc; only Expr.get_object is used
through its contract.  Obligation: the result IS an ExprInt of SPEC's width with SPEC's value (not merely equivalent).
"""
from miasm.expression.expression import ExprCompose, ExprCond, ExprInt, ExprOp, ExprSlice
from miasm.expression.simplifications import ExpressionSimplifier

from harness.core import Target
from vc import spec
from vc.exprmodel import expr_config, fresh_simplifier
from vc.terms import And, Eq, Implies, Ite, Not, Or

PROPERTY = {
    "id": "C03",
    "level": "proof",
    "explanation": "For every operator with a folding rule and every width of the enumerated set, the closed template "
                   "op(ExprInt a, ExprInt b) with symbolic a, b is pushed through the whole real simplifier (all registered "
                   "passes, canonization, fixpoint loop) by the symbolic interpreter; the obligation on "
                   "ExpressionSimplifier.__call__ is: the result is an ExprInt, of SPEC's width, whose value equals SPEC's "
                   "two's-complement meaning for ALL operand values (zero divisor: the expression is returned unchanged). "
                   "Proved per (operator, width, simplifier configuration); the width set is an enumerated parameter.",
    "trusted_base": ["pyvc interpreter + CPython differential", "SPEC (vc/spec.py), cross-checked on every run against "
                     "concrete evaluation", "z3 integer arithmetic with int2bv bridges for & | ^ on two symbolic operands",
                     "Expr.get_object used through its C08 contract (structural equality = identity)"],
    "assumptions": ["operand values range over [0, 2^w); widths from the enumerated set (quick: 1,2,3,7,8,9,16,31,32,33,64; "
                    "thorough adds 4,5,15,17,63,65,127,128)", "x ** y: exponentiation is an uninterpreted function on both "
                    "sides (only the modular wrap is checked)", "FLAG_SIGN_ADD has no formula in simplifications_explicit and "
                    "is never folded: not part of the claimed operator set"],
}

QUICK_W = [1, 2, 3, 7, 8, 9, 16, 31, 32, 33, 64]
THOROUGH_W = sorted(set(QUICK_W + [4, 5, 15, 17, 63, 65, 127, 128]))

BIN_OPS = ["+", "*", "^", "&", "|", "/", "%", "udiv", "umod", "sdiv", "smod", "**", "<<", ">>", "a>>", "<<<", ">>>",
           "==", "<u", "<s", "<=u", "<=s",
           "FLAG_EQ_AND", "FLAG_EQ_CMP", "FLAG_SIGN_SUB", "FLAG_ADD_CF", "FLAG_SUB_CF", "FLAG_ADD_OF", "FLAG_SUB_OF"]
UN_OPS = ["-", "parity", "cntleadzeros", "cnttrailzeros", "FLAG_EQ"]
TER_OPS = list(spec.FLAGS3)
CONFIGS = {"commons": [ExpressionSimplifier.PASS_COMMONS],
           "commons+explicit": [ExpressionSimplifier.PASS_COMMONS, ExpressionSimplifier.PASS_HIGH_TO_EXPLICIT]}


def mk_int_expr(ctx, name, w):
    v = ctx.int(name, 0, (1 << w) - 1)
    r = ctx.call(ExprInt, v, w)
    if r.raised:
        raise AssertionError("ExprInt constructor raised %r" % (r.exc,))
    return v, r.value


def check_int_result(ctx, res, want, want_w):
    ctx.check("folded-to-ExprInt", isinstance(res, ExprInt))
    if not isinstance(res, ExprInt):
        return
    ctx.check("width", res._size == want_w)
    ctx.check("value", Eq(res._arg, want))


def t_op(op, w, cfg, arity):
    def body(ctx):
        s = fresh_simplifier(CONFIGS[cfg])
        vals, exprs, widths = [], [], []
        for i in range(arity):
            wi = 1 if (op in TER_OPS and i == 2) else w
            v, e = mk_int_expr(ctx, "abc"[i], wi)
            vals.append(v)
            exprs.append(e)
            widths.append(wi)
        r = ctx.call(ExprOp, op, *exprs)
        if r.raised:
            ctx.check("constructor-no-raise", False, kind="no-raise")
            return
        e = r.value
        zero_div = False
        if op in spec.DIVS:
            zero_div = ctx.decide(Eq(vals[1], 0))
        r = ctx.call(ExpressionSimplifier.__call__, s, e)
        if r.raised:
            ctx.check("no-raise:%s" % type(r.exc).__name__, False, kind="no-raise")
            return
        ctx.cover("ret")
        res = r.value
        if zero_div:
            # the one documented undefined case: returned unchanged
            ctx.check("zero-divisor-unchanged", ctx.equal(res, e))
            return
        want, want_w = spec.sem_op(spec.INT, op, vals, widths)
        check_int_result(ctx, res, want, want_w)
    return body


def t_ext(kind, w, n, cfg):
    def body(ctx):
        s = fresh_simplifier(CONFIGS[cfg])
        v, e = mk_int_expr(ctx, "a", w)
        r = ctx.call(ExprOp, "%s_%d" % (kind, n), e)
        if r.raised:
            ctx.check("constructor-no-raise", False, kind="no-raise")
            return
        r = ctx.call(ExpressionSimplifier.__call__, s, r.value)
        if r.raised:
            ctx.check("no-raise:%s" % type(r.exc).__name__, False, kind="no-raise")
            return
        ctx.cover("ret")
        want, want_w = spec.sem_op(spec.INT, "%s_%d" % (kind, n), [v], [w])
        check_int_result(ctx, r.value, want, want_w)
    return body


def t_slice(w, cfg):
    def body(ctx):
        s = fresh_simplifier(CONFIGS[cfg])
        v, e = mk_int_expr(ctx, "a", w)
        # every (start, stop) of the width: enumerated (structure), value symbolic
        start = ctx.choose(w, "start")
        stop = start + 1 + ctx.choose(w - start, "len")
        r = ctx.call(ExprSlice, e, start, stop)
        if r.raised:
            ctx.check("constructor-no-raise", False, kind="no-raise")
            return
        r = ctx.call(ExpressionSimplifier.__call__, s, r.value)
        if r.raised:
            ctx.check("no-raise:%s" % type(r.exc).__name__, False, kind="no-raise")
            return
        ctx.cover("ret")
        want = spec.INT.extract(v, w, start, stop)
        check_int_result(ctx, r.value, want, stop - start)
    return body


def t_compose(w1, w2, cfg):
    def body(ctx):
        s = fresh_simplifier(CONFIGS[cfg])
        v1, e1 = mk_int_expr(ctx, "a", w1)
        v2, e2 = mk_int_expr(ctx, "b", w2)
        r = ctx.call(ExprCompose, e1, e2)
        if r.raised:
            ctx.check("constructor-no-raise", False, kind="no-raise")
            return
        r = ctx.call(ExpressionSimplifier.__call__, s, r.value)
        if r.raised:
            ctx.check("no-raise:%s" % type(r.exc).__name__, False, kind="no-raise")
            return
        ctx.cover("ret")
        check_int_result(ctx, r.value, spec.INT.concat([(v1, w1), (v2, w2)]), w1 + w2)
    return body


def t_cond(wc, w, cfg):
    def body(ctx):
        s = fresh_simplifier(CONFIGS[cfg])
        vc, ec = mk_int_expr(ctx, "c", wc)
        v1, e1 = mk_int_expr(ctx, "a", w)
        v2, e2 = mk_int_expr(ctx, "b", w)
        r = ctx.call(ExprCond, ec, e1, e2)
        if r.raised:
            ctx.check("constructor-no-raise", False, kind="no-raise")
            return
        r = ctx.call(ExpressionSimplifier.__call__, s, r.value)
        if r.raised:
            ctx.check("no-raise:%s" % type(r.exc).__name__, False, kind="no-raise")
            return
        ctx.cover("ret")
        check_int_result(ctx, r.value, Ite(vc != 0, v1, v2), w)
    return body


def targets(tier):
    W = QUICK_W if tier == "quick" else THOROUGH_W
    fns = [ExpressionSimplifier.__call__, ExpressionSimplifier.expr_simp_inner, ExpressionSimplifier.apply_simp]
    from miasm.expression import simplifications_common as SC
    from miasm.core import modint
    fns += [SC.simp_cst_propagation, SC.simp_cmp_int_int, SC.simp_ext_cst, SC.simp_flag_cst, SC.simp_slice, SC.simp_compose,
            SC.simp_cond, modint.moduint.__init__, modint.modint.__init__, ExprInt.__new__]
    ts = []
    cfgs = ["commons"] if tier == "quick" else ["commons", "commons+explicit"]
    for cfg in cfgs:
        for w in W:
            for op in BIN_OPS:
                ts.append(Target("C03/%s/op=%s/w=%d" % (cfg, op, w), fns, t_op(op, w, cfg, 2), params={"op": op, "w": w},
                                 config=expr_config(), diff_samples=6))
            for op in UN_OPS:
                ts.append(Target("C03/%s/op=%s/w=%d" % (cfg, op, w), fns, t_op(op, w, cfg, 1), params={"op": op, "w": w},
                                 config=expr_config(), diff_samples=6))
            for op in TER_OPS:
                ts.append(Target("C03/%s/op=%s/w=%d" % (cfg, op, w), fns, t_op(op, w, cfg, 3), params={"op": op, "w": w},
                                 config=expr_config(), diff_samples=6))
            for n in sorted(set([w + 1, 2 * w, 64 if w < 64 else 128])):
                for kind in ("zeroExt", "signExt"):
                    ts.append(Target("C03/%s/op=%s_%d/w=%d" % (cfg, kind, n, w), fns, t_ext(kind, w, n, cfg),
                                     params={"op": kind, "w": w, "n": n}, config=expr_config(), diff_samples=6))
            if w <= 16:
                ts.append(Target("C03/%s/slice/w=%d" % (cfg, w), fns, t_slice(w, cfg), params={"w": w}, config=expr_config(),
                                 diff_samples=6))
            ts.append(Target("C03/%s/compose/w=%d+%d" % (cfg, w, 8), fns, t_compose(w, 8, cfg), params={"w": w},
                             config=expr_config(), diff_samples=6))
            ts.append(Target("C03/%s/cond/w=%d" % (cfg, w), fns, t_cond(w, w, cfg), params={"w": w}, config=expr_config(),
                             diff_samples=6))
    # CC_* operators take 1-bit flags
    for cfg in cfgs:
        for op, n in spec.CC.items():
            ts.append(Target("C03/%s/op=%s" % (cfg, op), fns, t_cc(op, n, cfg), params={"op": op}, config=expr_config(),
                             diff_samples=6))
    for t in ts:
        t.expect_covers = ["ret"]
    return ts


def t_cc(op, n, cfg):
    def body(ctx):
        s = fresh_simplifier(CONFIGS[cfg])
        vals, exprs = [], []
        for i in range(n):
            v, e = mk_int_expr(ctx, "abc"[i], 1)
            vals.append(v)
            exprs.append(e)
        r = ctx.call(ExprOp, op, *exprs)
        if r.raised:
            ctx.check("constructor-no-raise", False, kind="no-raise")
            return
        r = ctx.call(ExpressionSimplifier.__call__, s, r.value)
        if r.raised:
            ctx.check("no-raise:%s" % type(r.exc).__name__, False, kind="no-raise")
            return
        ctx.cover("ret")
        want, want_w = spec.sem_op(spec.INT, op, vals, [1] * n)
        check_int_result(ctx, r.value, want, want_w)
    return body
