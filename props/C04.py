"""C04 -- Generated C code computes the reference value of every expression (ir/translators/C.py, jitter/op_semantics.[ch],
jitter/bn.[ch]).

Three layers of contracts, all over the REAL sources (clang's typed AST of the real .c/.h files and of the text the real
TranslatorC emits, interpreted by vc/cvc.py over z3 bit-vectors):

  T  translator:  for every template e, TranslatorC.from_expr(e) is wrapped in a C function whose parameters are the identifiers
                  of e (typed as the code generator types them: uint8/16/32/64_t, bn_t above 64 bits); the function is parsed by
                  clang with the real headers and interpreted; obligation: result == SPEC(e) for ALL identifier values and memory
                  contents, no write to stdout, no abort, on every path.  Calls to op_semantics.c helpers are INLINED from the
                  real file; calls to bn.c use the bignum contracts below.
  B  bn.c:        every bignum_* function used by the translator is interpreted from the real bn.c on symbolic 256-bit operands
                  and proved equal to its contract (the 256-bit SPEC operation); bignum_mul / bignum_udiv (and through them umod,
                  sdiv, smod) cannot be discharged by the solver (256-bit multiplication, 256-step shift-subtract loop): their
                  contracts are ASSUMED in layer T and covered by
  R  run time:    a bounded stand-in: the real bn.c / op_semantics.c compiled with gcc, the assumed contracts executed on boundary
                  vectors (labelled bounded, counted separately).
"""
import ctypes
import itertools
import os
import subprocess
import tempfile
import time
import traceback

import z3

from miasm.expression.expression import ExprCompose, ExprCond, ExprId, ExprInt, ExprMem, ExprOp, ExprSlice
from miasm.ir.translators.C import TranslatorC, get_c_common_next_pow2, int_size_to_bn

from vc import cvc, spec, templates

JIT = "/repo/miasm/jitter"
HERE = os.path.dirname(os.path.dirname(os.path.abspath(__file__)))

PROPERTY = {
    "id": "C04",
    "level": "translation_validation",
    "engine": "tv",
    "technique": "translation validation under contract + C contracts: the text emitted by the real TranslatorC is parsed by clang "
                 "with the real jitter headers and interpreted (vc/cvc.py) with the real op_semantics.c bodies inlined; result "
                 "== SPEC, no stdout output, no abort proved by z3 for all operand values; bn.c functions proved against "
                 "256-bit contracts from their real bodies; mul/udiv-based bignum contracts assumed and run-time checked (bounded)",
    "explanation": "Contract of TranslatorC.from_expr(e): the emitted text, compiled against the jitter runtime with identifiers "
                   "typed as the code generator types them and holding values below 2^width, evaluates to SPEC(e) (as a clean "
                   "value: no bits above the width), writes nothing to stdout and does not abort, for every operand value where "
                   "SPEC is defined (non-zero divisors). Discharged per template (operators x widths at depth 1, parent/child "
                   "pairs at depth 2, slices, compositions, conditions, memory reads, boundary constants; native widths 1..64 and "
                   "big-number widths 65..256) by interpreting clang's typed AST of the emitted text and of the real "
                   "op_semantics.c; bn.c functions are proved separately against 256-bit contracts (layer B).",
    "trusted_base": ["SPEC (vc/spec.py)", "clang's AST (types, implicit conversions, macro expansion)", "vc/cvc.py interpreter",
                     "z3 bit-vector theory", "gcc for the run-time layer and the replays"],
    "not_attempted": ["value obligations of: signed divisions at widths other than 8/16/32/64 above 9 bits; division operators as "
                      "children at depth 2 above 8 bits; rotations of big numbers above 128 bits by a symbolic count; products of a "
                      "shift / rotation / product at 16 bits and above -- z3 does "
                      "not decide them within the budget on the unchanged tree (props/C04.py: div_hard)"],
    "assumptions": ["identifiers hold values below 2^width in a variable of the next power-of-two C type >= 8 bits (the code "
                    "generator masks every assignment: codegen.py gen_c_assignments)",
                    "oversized shift counts take the x86-64 value (count modulo operand width); every such site is listed as a "
                    "ub note in the evidence", "two's complement signed arithmetic",
                    "bignum_mul, bignum_udiv and the functions built on them (umod, sdiv, smod): contracts ASSUMED in layer T; "
                    "bounded run-time check on boundary vectors (layer R)",
                    "MEM_LOOKUP_*: returns the little-endian bytes of the memory at the (zero-extended) address; the address "
                    "passed must have no bits above the pointer width",
                    "floating-point, segmentation and cpuid operators are not part of the family"],
}

U8, U16, U32, U64 = [cvc.CType("int", w, False) for w in (8, 16, 32, 64)]
I32 = cvc.CType("int", 32, True)
BN = cvc.CType("struct", name="struct bn")


# ======================================================================================================
# bn values <-> 256-bit vectors, and the bignum contracts
# ======================================================================================================

def bn_to_bv(v):
    limbs = v["array"]
    return z3.Concat(*[x.t for x in reversed(limbs)])


def bv_to_bn(t):
    return {"array": [cvc.Val(z3.Extract(32 * i + 31, 32 * i, t), U32) for i in range(8)]}


def zx(t, n):
    w = t.size()
    return t if w == n else (z3.ZeroExt(n - w, t) if w < n else z3.Extract(n - 1, 0, t))


def sx(t, n):
    w = t.size()
    return t if w == n else z3.SignExt(n - w, t)


def c_require(it, state, cond, what):
    """bn.c's require(): assert() -- an abort when the condition is false"""
    it.event("abort", z3.And(state.pc, z3.Not(cond)), "require(%s)" % what)


def low_mask(bits_t):
    """2^bits - 1 as a 256-bit vector for a symbolic/concrete 32-bit signed count in [0, 256]"""
    n = zx(bits_t, 256)
    return z3.If(z3.UGE(n, cvc.bv(256, 256)), cvc.bv(-1, 256), (cvc.bv(1, 256) << n) - cvc.bv(1, 256))


def shl256(a, n_t):
    n = zx(n_t, 256)
    return z3.If(z3.UGE(n, cvc.bv(256, 256)), cvc.bv(0, 256), a << n)


def shr256(a, n_t):
    n = zx(n_t, 256)
    return z3.If(z3.UGE(n, cvc.bv(256, 256)), cvc.bv(0, 256), z3.LShR(a, n))


def leading_zeros(t):
    """number of most significant bits of t that are syntactically zero after simplification"""
    t = z3.simplify(t)
    if z3.is_bv_value(t):
        return t.size() - t.as_long().bit_length()
    if z3.is_app_of(t, z3.Z3_OP_ZERO_EXT):
        return t.size() - t.arg(0).size() + leading_zeros(t.arg(0))
    if z3.is_app_of(t, z3.Z3_OP_CONCAT):
        n = 0
        for i in range(t.num_args()):
            c = t.arg(i)
            if z3.is_bv_value(c) and c.as_long() == 0:
                n += c.size()
                continue
            return n + leading_zeros(c)
        return n
    return 0


def narrow2(x, y):
    """unsigned division / remainder of zero-extended operands is the operation at the narrow width (exact rewriting: keeps
    the solver away from a 256-bit divider when the operands are 65..128-bit values)"""
    k = min(leading_zeros(x), leading_zeros(y))
    w = max(256 - k, 1)
    if w == 256:
        return x, y, 256
    return z3.Extract(w - 1, 0, x), z3.Extract(w - 1, 0, y), w


def sized(a, size_v):
    """low `size` bits of the 256-bit a, sign information for a CONCRETE size"""
    size = cvc.concrete(size_v.t)
    if size is None:
        raise cvc.Unsupported("symbolic size parameter")
    return size


def contracts():
    C = {}

    def ret_int(t):
        return cvc.Val(zx(t, 32), I32)

    C["bignum_from_uint64"] = lambda it, st, a, n: bv_to_bn(zx(a[0].t, 256))
    C["bignum_from_int"] = lambda it, st, a, n: bv_to_bn(zx(a[0].t, 256))
    C["bignum_to_uint64"] = lambda it, st, a, n: cvc.Val(z3.Extract(63, 0, bn_to_bv(a[0])), U64)
    C["bignum_assign"] = lambda it, st, a, n: bv_to_bn(bn_to_bv(a[0]))
    C["bignum_init"] = lambda it, st, a, n: bv_to_bn(cvc.bv(0, 256))

    def from_string(it, st, a, n):
        s, nb = a[0], cvc.concrete(a[1].t)
        if not isinstance(s, cvc.StrLit) or nb is None:
            raise cvc.Unsupported("bignum_from_string on a non-literal")
        c_require(it, st, z3.BoolVal(nb > 0 and nb % 2 == 0), "nbytes")
        # the real loop reads 8 hex digits at a time from the end: only multiples of 8 digits are read completely
        if nb % 8 or nb > 64 or len(s.s) < nb:
            it.event("abort", st.pc, "bignum_from_string: %d hex digits is not a whole number of 32-bit words" % nb)
        return bv_to_bn(cvc.bv(int(s.s[:nb] or "0", 16), 256))
    C["bignum_from_string"] = from_string

    for nm, f in (("add", lambda x, y: x + y), ("sub", lambda x, y: x - y), ("mul", lambda x, y: x * y),
                  ("and", lambda x, y: x & y), ("or", lambda x, y: x | y), ("xor", lambda x, y: x ^ y)):
        C["bignum_" + nm] = (lambda f: lambda it, st, a, n: bv_to_bn(f(bn_to_bv(a[0]), bn_to_bv(a[1]))))(f)
    C["bignum_not"] = lambda it, st, a, n: bv_to_bn(~bn_to_bv(a[0]))

    def udiv(it, st, a, n):
        x, y = bn_to_bv(a[0]), bn_to_bv(a[1])
        it.event("ub-div0", z3.And(st.pc, y == cvc.bv(0, 256)), "bignum_udiv by zero")
        x, y, w = narrow2(x, y)
        return bv_to_bn(zx(z3.UDiv(x, y), 256))

    def umod(it, st, a, n):
        x, y = bn_to_bv(a[0]), bn_to_bv(a[1])
        it.event("ub-div0", z3.And(st.pc, y == cvc.bv(0, 256)), "bignum_umod by zero")
        x, y, w = narrow2(x, y)
        return bv_to_bn(zx(z3.URem(x, y), 256))
    C["bignum_udiv"], C["bignum_umod"] = udiv, umod

    def sdivmod(which):
        def f(it, st, a, n):
            size = sized(None, a[2])
            c_require(it, st, z3.BoolVal(0 < size <= 256), "size")
            x = z3.Extract(size - 1, 0, bn_to_bv(a[0]))
            y = z3.Extract(size - 1, 0, bn_to_bv(a[1]))
            it.event("ub-div0", z3.And(st.pc, y == cvc.bv(0, size)), "bignum_%s by zero" % which)
            r = (x / y) if which == "sdiv" else z3.SRem(x, y)
            return bv_to_bn(zx(r, 256))
        return f
    C["bignum_sdiv"], C["bignum_smod"] = sdivmod("sdiv"), sdivmod("smod")

    def lshift(it, st, a, n):
        c_require(it, st, a[1].t >= 0, "nbits >= 0")
        return bv_to_bn(shl256(bn_to_bv(a[0]), a[1].t))

    def rshift(it, st, a, n):
        c_require(it, st, a[1].t >= 0, "nbits >= 0")
        return bv_to_bn(shr256(bn_to_bv(a[0]), a[1].t))
    C["bignum_lshift"], C["bignum_rshift"] = lshift, rshift

    def a_rshift(it, st, a, n):
        size = sized(None, a[1])
        c_require(it, st, a[2].t >= 0, "nbits >= 0")
        c_require(it, st, z3.BoolVal(size > 0), "size > 0")
        # the body shifts a mask by size - nbits: the function is only defined for counts up to the size
        c_require(it, st, a[2].t <= cvc.bv(size, 32), "nbits <= size")
        x = z3.Extract(size - 1, 0, bn_to_bv(a[0]))
        cnt = zx(a[2].t, size) if size >= 32 else None
        if cnt is None:
            raise cvc.Unsupported("a_rshift at a size below 32")
        big = z3.UGE(a[2].t, cvc.bv(size, 32))
        r = z3.If(big, z3.If(x < 0, cvc.bv(-1, size), cvc.bv(0, size)), x >> cnt)
        return bv_to_bn(zx(r, 256))
    C["bignum_a_rshift"] = a_rshift

    def mask(it, st, a, n):
        # the body shifts an all-ones number right by BN_BIT_SIZE - bits
        c_require(it, st, z3.And(a[1].t >= 0, a[1].t <= cvc.bv(256, 32)), "0 <= bits <= 256")
        return bv_to_bn(bn_to_bv(a[0]) & low_mask(a[1].t))
    C["bignum_mask"] = mask

    def rot(left):
        def f(it, st, a, n):
            size = sized(None, a[1])
            # the body shifts by nbits and by size - nbits: defined for 0 <= nbits <= size only
            c_require(it, st, z3.And(a[2].t >= 0, a[2].t <= cvc.bv(size, 32)), "0 <= nbits <= size")
            x = z3.Extract(size - 1, 0, bn_to_bv(a[0]))
            cnt = z3.URem(zx(a[2].t, 64), cvc.bv(size, 64))
            cnt = zx(cnt, size) if size >= 64 else z3.Extract(size - 1, 0, cnt)
            inv = cvc.bv(size, size) - cnt if size > 8 else None
            r = z3.RotateLeft(x, cnt) if left else z3.RotateRight(x, cnt)
            return bv_to_bn(zx(r, 256))
        return f
    C["bignum_rol"], C["bignum_ror"] = rot(True), rot(False)

    for nm, f in (("is_equal", lambda x, y: x == y), ("is_inf_unsigned", lambda x, y: z3.ULT(x, y)),
                  ("is_inf_equal_unsigned", lambda x, y: z3.ULE(x, y)), ("is_inf_signed", lambda x, y: x < y),
                  ("is_inf_equal_signed", lambda x, y: x <= y)):
        C["bignum_" + nm] = (lambda f: lambda it, st, a, n: ret_int(z3.If(f(bn_to_bv(a[0]), bn_to_bv(a[1])), cvc.bv(1, 32),
                                                                          cvc.bv(0, 32))))(f)
    C["bignum_is_zero"] = lambda it, st, a, n: ret_int(z3.If(bn_to_bv(a[0]) == cvc.bv(0, 256), cvc.bv(1, 32), cvc.bv(0, 32)))

    def cnt(lead):
        def f(it, st, a, n):
            size = sized(None, a[1])
            c_require(it, st, z3.BoolVal(0 < size <= 256), "size")
            x = z3.Extract(size - 1, 0, bn_to_bv(a[0]))
            v, _ = spec.sem_op(spec.BV, "cntleadzeros" if lead else "cnttrailzeros", [x], [size])
            return ret_int(zx(v, 32) if size <= 32 else z3.Extract(31, 0, v))
        return f
    C["bignum_cntleadzeros"], C["bignum_cnttrailzeros"] = cnt(True), cnt(False)
    return C


# contracts that layer B proves from the real bn.c body (everything else in `contracts()` is ASSUMED, see PROPERTY)
ASSUMED = ("bignum_mul", "bignum_udiv", "bignum_umod", "bignum_sdiv", "bignum_smod", "bignum_from_string")

_PROG = {}


def base_program():
    """the real op_semantics.c and bn.c, parsed by clang (once per process)"""
    if "p" not in _PROG:
        _PROG["tus"] = [cvc.clang_ast(os.path.join(JIT, f), [JIT]) for f in ("op_semantics.c", "bn.c")]
        _PROG["p"] = True
    prog = cvc.Program()
    for tu in _PROG["tus"]:
        prog.add_tu(tu)
    return prog


# ======================================================================================================
# layer T: the translator
# ======================================================================================================

def ctype_of(w):
    if w > 64:
        return "bn_t"
    return "uint%d_t" % max(8, get_c_common_next_pow2(w))


def ids_of(e):
    out = []

    def v(x):
        if x.is_id() and x not in out:
            out.append(x)
        return x
    e.visit(v)
    return out


PRELUDE = """
#include <stdint.h>
#include "op_semantics.h"
#include "bn.h"
typedef struct JitCpu JitCpu;
typedef unsigned __int128 uint128_t;
typedef __int128 int128_t;
uint8_t MEM_LOOKUP_08(JitCpu* jitcpu, uint64_t addr);
uint16_t MEM_LOOKUP_16(JitCpu* jitcpu, uint64_t addr);
uint32_t MEM_LOOKUP_32(JitCpu* jitcpu, uint64_t addr);
uint64_t MEM_LOOKUP_64(JitCpu* jitcpu, uint64_t addr);
bn_t MEM_LOOKUP_BN_BN(JitCpu* jitcpu, int size, bn_t addr);
bn_t MEM_LOOKUP_INT_BN(JitCpu* jitcpu, int size, uint64_t addr);
uint64_t MEM_LOOKUP_BN_INT(JitCpu* jitcpu, int size, bn_t addr);
"""


def wrapper(name, e, text):
    params = ["JitCpu* jitcpu"] + ["%s %s" % (ctype_of(i.size), i.name) for i in ids_of(e)]
    rt = "bn_t" if e.size > 64 else "uint64_t"
    return "%s %s(%s) { return (%s); }\n" % (rt, name, ", ".join(params), text)


class Emitted(object):
    """one template: the real translator's output, or the exception it raised"""

    def __init__(self, name, e):
        self.name, self.e = name, e
        self.text = self.error = None
        try:
            t = TranslatorC().from_expr(e)
            if not isinstance(t, str):
                raise TypeError("from_expr returned %s, not text" % type(t).__name__)
            self.text = t
        except NotImplementedError as ex:
            self.error = ("unsupported", str(ex))
        except Exception as ex:     # noqa -- a crash on an operator/width the translator otherwise handles
            self.error = ("raises", "%s: %s" % (type(ex).__name__, ex))


def mem_contracts(env, pw):
    """MEM_LOOKUP_* against SPEC's memory for pointer width pw"""
    def rd(it, st, addr_t, size):
        aw = addr_t.size()
        if pw < aw:
            it.event("addr-high-bits", z3.And(st.pc, z3.LShR(addr_t, cvc.bv(pw, aw)) != cvc.bv(0, aw)),
                     "address with bits above the %d-bit pointer width" % pw)
        a = zx(addr_t, pw)
        parts = []
        for i in range(size // 8):
            parts.append(env.mem_byte(a + cvc.bv(i, pw), pw))
        return z3.Concat(*reversed(parts)) if len(parts) > 1 else parts[0]
    C = {}
    for s, ct in ((8, U8), (16, U16), (32, U32), (64, U64)):
        C["MEM_LOOKUP_%.2d" % s] = (lambda s, ct: lambda it, st, a, n: cvc.Val(rd(it, st, a[1].t, s), ct))(s, ct)
    C["MEM_LOOKUP_INT_BN"] = lambda it, st, a, n: bv_to_bn(zx(rd(it, st, a[2].t, cvc.concrete(a[1].t)), 256))
    C["MEM_LOOKUP_BN_BN"] = lambda it, st, a, n: bv_to_bn(zx(rd(it, st, bn_to_bv(a[2]), cvc.concrete(a[1].t)), 256))
    C["MEM_LOOKUP_BN_INT"] = lambda it, st, a, n: cvc.Val(zx(rd(it, st, bn_to_bv(a[2]), cvc.concrete(a[1].t)), 64), U64)
    return C


def ptr_width(e):
    ws = set()

    def v(x):
        if x.is_mem():
            ws.add(x.ptr.size)
        return x
    e.visit(v)
    if len(ws) > 1:
        raise cvc.Unsupported("several pointer widths in one template")
    return ws.pop() if ws else 64


def gcc_replay(em, model):
    """compile the wrapped text with gcc against the real op_semantics.c / bn.c, run it on the model, compare with SPEC"""
    e = em.e
    ids = ids_of(e)
    vals = dict(((i.name, i.size), int(model.get("%s:%d" % (i.name, i.size), 0))) for i in ids)
    try:
        want, w = spec.eval_concrete(e, ids=vals)
    except spec.Undefined:
        return {"status": "passes", "detail": "SPEC undefined on the model"}
    except Exception as ex:     # noqa
        return {"status": "undetermined", "detail": "SPEC evaluator: %r" % (ex,)}
    if any(x.is_mem() for x in _nodes(e)):
        return {"status": "undetermined", "detail": "memory template: no native replay"}
    d = tempfile.mkdtemp(prefix="c04_")
    try:
        args = []
        decl = []
        for i in ids:
            v = vals[(i.name, i.size)]
            if i.size > 64:
                decl.append('bn_t %s = bignum_from_string("%s", 64);' % (i.name, "%.64x" % v))
            else:
                decl.append("%s %s = (%s)0x%xULL;" % (ctype_of(i.size), i.name, ctype_of(i.size), v))
            args.append(i.name)
        if e.size > 64:
            show = 'bn_t r = f(0%s); char buf[80]; bignum_to_string(r, buf, 66); fprintf(stderr, "%%s\\n", buf);' % "".join(", " + a for a in args)
        else:
            show = 'uint64_t r = f(0%s); fprintf(stderr, "%%llx\\n", (unsigned long long)r);' % "".join(", " + a for a in args)
        src = "#include <stdio.h>\n" + PRELUDE + wrapper("f", e, em.text) + "int main(void) { %s %s return 0; }\n" % (" ".join(decl), show)
        with open(os.path.join(d, "t.c"), "w") as f:
            f.write(src)
        last = None
        # the text may rely on undefined behaviour (e.g. a shift of an int constant by 32): -O1 folds such constants at compile
        # time while -O0 lets the hardware decide; the emitted code must be right under both
        for opt in ("-O1", "-O0"):
            p = subprocess.run(["gcc", opt, "-w", "-I", JIT, "-o", os.path.join(d, "t"), os.path.join(d, "t.c"),
                                os.path.join(JIT, "op_semantics.c"), os.path.join(JIT, "bn.c"), "-lm"],
                               stdout=subprocess.PIPE, stderr=subprocess.PIPE)
            if p.returncode != 0:
                return {"status": "fails", "detail": "gcc rejects the emitted text: " + p.stderr.decode(errors="replace")[:300]}
            try:
                r = subprocess.run([os.path.join(d, "t")], stdout=subprocess.PIPE, stderr=subprocess.PIPE, timeout=20)
            except subprocess.TimeoutExpired:
                return {"status": "fails", "detail": "the compiled code does not terminate within 20 s", "values": model}
            out, err = r.stdout.decode(errors="replace"), r.stderr.decode(errors="replace")
            if r.returncode != 0:
                return {"status": "fails", "detail": "the compiled code (%s) exits with status %d (%s)" % (opt, r.returncode, err.strip()[:120]),
                        "values": model}
            got = int(err.strip().splitlines()[-1], 16)
            if out:
                return {"status": "fails", "detail": "writes %r to stdout" % out[:60], "values": model}
            if got != want:
                return {"status": "fails", "detail": "compiled code (gcc %s) returns %#x, SPEC %#x" % (opt, got, want), "values": model}
            last = got
        return {"status": "passes", "detail": "compiled code returns %#x as SPEC (gcc -O1 and -O0)" % last}
    finally:
        import shutil
        shutil.rmtree(d, ignore_errors=True)


def _nodes(e):
    out = []
    e.visit(lambda x: (out.append(x), x)[1])
    return out


class TranslatorTarget(object):
    kind = "tv"

    def __init__(self, tid, tmpl):
        self.id = tid
        self.templates = tmpl
        self.min_obligations = 1
        self.params = {"templates": len(tmpl)}
        self.bound = None

    def parse(self, ems):
        """one clang run for all wrappers of the unit; a wrapper clang rejects is isolated by re-parsing one by one"""
        src = PRELUDE + "".join(wrapper("f%d" % i, em.e, em.text) for i, em in enumerate(ems) if em.text is not None)
        try:
            tu = cvc.clang_ast(None, [JIT], text=src)
            return tu, {}
        except cvc.CompileError:
            bad = {}
            good = []
            for i, em in enumerate(ems):
                if em.text is None:
                    continue
                try:
                    cvc.clang_ast(None, [JIT], text=PRELUDE + wrapper("f%d" % i, em.e, em.text))
                    good.append(i)
                except cvc.CompileError as ex:
                    bad[i] = str(ex)
            src = PRELUDE + "".join(wrapper("f%d" % i, ems[i].e, ems[i].text) for i in good)
            return cvc.clang_ast(None, [JIT], text=src), bad

    def check_template(self, prog, i, em):
        """-> list of (obligation label, status, info); status in discharged / refuted / undecided"""
        e = em.e
        env = spec.Env(spec.BV)
        want, w = spec.sem(e, env)
        it = cvc.Interp(prog)
        prog.contracts = dict(contracts())
        prog.contracts.update(mem_contracts(env, ptr_width(e)))
        fd = prog.funcs["f%d" % i]
        args = [None]
        for ident in ids_of(e):
            v = env.ident(ident.name, ident.size)
            if ident.size > 64:
                args.append(bv_to_bn(zx(v, 256)))
            else:
                n = max(8, get_c_common_next_pow2(ident.size))
                args.append(cvc.Val(zx(v, n), cvc.CType("int", n, False)))
        pre = [d != cvc.bv(0, dw) for d, dw in env.divisors]
        it.assume = list(pre)
        st = cvc.State()
        r = it.call(fd, args, st)
        got = bn_to_bv(r) if isinstance(r, dict) else r.t
        full = 256 if isinstance(r, dict) else 64
        out = []

        def solve(label, goal_neg):
            s = z3.Solver()
            s.set("rlimit", 60000000)
            s.add(*pre)
            s.add(goal_neg)
            res = s.check()
            if res == z3.unsat:
                out.append((label, "discharged", {}))
            elif res == z3.unknown:
                out.append((label, "undecided", {"why": s.reason_unknown()}))
            else:
                m = s.model()
                model = dict(("%s:%d" % k, m.eval(v, model_completion=True).as_long()) for k, v in env.ids.items())
                out.append((label, "refuted", {"model": model, "generated": str(m.eval(got, model_completion=True)),
                                               "spec": str(m.eval(want, model_completion=True))}))
        solve("value", got != zx(want, full))
        for kind in ("output", "abort", "addr-high-bits", "ub-index", "ub-div0", "ub-overflow"):
            evs = [c for (k, c, info) in it.events if k == kind]
            if evs:
                solve(kind if kind != "output" else "no-output", z3.Or(*evs))
            elif kind in ("output", "abort"):
                out.append(("no-output" if kind == "output" else kind, "discharged", {"trivial": True}))
        notes = sorted(set(info for (k, c, info) in it.events if k == "ub-shift"))
        return out, notes, dict(it.inlined), dict(it.contract_calls)

    def run_custom(self, findings, seed):
        from vc import loader
        t0 = time.time()
        res = {"id": self.id, "kind": "tv", "params": self.params, "bound": None, "functions": [], "paths": 0,
               "obligations": 0, "discharged": 0, "refuted": [], "undecided": [], "unsupported": None, "engine_error": None,
               "known": [], "backends": {}, "samples": [], "solver_time": 0.0, "covers": [],
               "extra_coverage": {"programs": 0, "unsupported_templates": 0, "c_functions_inlined": {}, "bignum_contract_calls": {},
                                  "ub_notes": []}}
        for f in (TranslatorC.from_ExprOp, TranslatorC.from_ExprInt, TranslatorC.from_ExprId, TranslatorC.from_ExprMem,
                  TranslatorC.from_ExprSlice, TranslatorC.from_ExprCompose, TranslatorC.from_ExprCond, TranslatorC._size2mask,
                  int_size_to_bn, get_c_common_next_pow2):
            h = loader.func_text_hash(f)
            h["name"] = "%s:%s" % (f.__module__, f.__qualname__)
            res["functions"].append(h)
        known = [f for f in findings if f.get("status", "known") == "known" and self.id.startswith(f["target"])]
        try:
            ems = [Emitted(n, e) for n, e in self.templates]
            tu, bad = self.parse(ems)
            prog = base_program()
            prog.add_tu(tu)
        except Exception as ex:     # noqa
            res["engine_error"] = "%s\n%s" % (ex, traceback.format_exc())
            return res
        for i, em in enumerate(ems):
            oid = "%s/%s" % (self.id, em.name)
            results = []
            try:
                if em.error is not None and em.error[0] == "unsupported":
                    res["extra_coverage"]["unsupported_templates"] += 1
                    continue
                if em.error is not None:
                    results = [("no-raise", "refuted", {"model": {}, "detail": em.error[1], "replayed": True})]
                elif i in bad:
                    results = [("compiles", "refuted", {"model": {}, "detail": "clang rejects the emitted text: " + bad[i][:400],
                                                        "text": em.text[:300], "replayed": True})]
                else:
                    results, notes, inl, cc = self.check_template(prog, i, em)
                    for k, v in inl.items():
                        if not k.startswith("f"):
                            res["extra_coverage"]["c_functions_inlined"][k] = res["extra_coverage"]["c_functions_inlined"].get(k, 0) + v
                    for k, v in cc.items():
                        res["extra_coverage"]["bignum_contract_calls"][k] = res["extra_coverage"]["bignum_contract_calls"].get(k, 0) + v
                    for nt in notes:
                        if nt not in res["extra_coverage"]["ub_notes"] and len(res["extra_coverage"]["ub_notes"]) < 12:
                            res["extra_coverage"]["ub_notes"].append(nt)
            except cvc.Unsupported as ex:
                res["undecided"].append({"obligation": oid, "reason": "outside the C subset: %s" % ex, "goal": str(em.e)})
                res["obligations"] += 1
                continue
            except Exception as ex:     # noqa
                res["engine_error"] = "%s on %s\n%s" % (ex, em.name, traceback.format_exc())
                break
            res["extra_coverage"]["programs"] += 1
            for label, status, info in results:
                res["obligations"] += 1
                ob = "%s/%s" % (oid, label)
                if status == "discharged":
                    res["discharged"] += 1
                    res["backends"]["trivial" if info.get("trivial") else "z3-bv"] = res["backends"].get(
                        "trivial" if info.get("trivial") else "z3-bv", 0) + 1
                    if len(res["samples"]) < 2 and label == "value":
                        res["samples"].append({"template": str(em.e), "emitted": em.text[:200], "obligation": ob,
                                               "verdict": "emitted C == SPEC for all values"})
                elif status == "undecided":
                    res["undecided"].append({"obligation": ob, "reason": info.get("why"), "goal": str(em.e)})
                else:
                    hit = None
                    for f in known:
                        try:
                            if eval(f["witness"], {"__builtins__": {}}, {"ops": _ops_of(em.e), "template": em.name, "expr": str(em.e),
                                                                       "label": label, "width": em.e.size,
                                                                       "text": em.text or ""}):
                                hit = f
                                break
                        except Exception:
                            pass
                    if hit is not None:
                        res["known"].append({"finding": hit["id"], "obligation": ob, "model": info.get("model"), "replay": "fails"})
                        res["obligations"] -= 1
                        continue
                    if info.get("replayed"):
                        rep = {"status": "fails", "detail": info.get("detail")}
                    else:
                        rep = gcc_replay(em, info.get("model", {}))
                        if rep["status"] == "undetermined":
                            rep = {"status": "fails", "detail": "refuted by the solver (no native replay: %s): %s" % (
                                rep["detail"], info)}
                    if len(res["refuted"]) < 10:
                        res["refuted"].append({"obligation": ob, "model": info.get("model", {}), "backend": "z3-bv", "replay": rep,
                                               "goal": ("%s -> %s" % (em.e, (em.text or "")[:200])), "pc": []})
        res["wall"] = time.time() - t0
        res["solver_time"] = res["wall"]
        return res

    def replay_custom(self, rp):
        name = rp["obligation"].split(self.id + "/", 1)[-1].rsplit("/", 1)[0]
        for n, e in self.templates:
            if n == name:
                em = Emitted(n, e)
                if em.text is None:
                    return {"status": "fails" if em.error[0] == "raises" else "passes", "detail": em.error, "failed": []}
                if rp.get("model"):
                    return dict(gcc_replay(em, rp["model"]), failed=[])
                tu, bad = self.parse([em])
                if bad:
                    return {"status": "fails", "detail": bad[0][:300], "failed": []}
                prog = base_program()
                prog.add_tu(tu)
                results = self.check_template(prog, 0, em)[0]
                badr = [r for r in results if r[1] == "refuted"]
                return {"status": "fails" if badr else "passes", "detail": badr[:1], "failed": []}
        return {"status": "replay-error", "detail": "template not found", "failed": []}


def _ops_of(e):
    return set(x.op for x in _nodes(e) if x.is_op())


# ======================================================================================================
# layer B: bn.c against the contracts
# ======================================================================================================

def sym_bn(name):
    return bv_to_bn(z3.BitVec(name, 256))


def int_val(v, ct=I32):
    return cvc.Val(cvc.bv(v, ct.width), ct)


def bn_cases(tier):
    """(function, argument builder, label): concrete size / count parameters enumerated, operands symbolic"""
    counts = [0, 1, 31, 32, 33, 64, 95, 128, 255] + ([256, 300] if tier == "thorough" else [256])
    sizes = [65, 128] + ([96, 127, 255, 256] if tier == "thorough" else [256])
    out = []
    for f in ("bignum_add", "bignum_sub", "bignum_and", "bignum_or", "bignum_xor", "bignum_is_equal", "bignum_is_inf_unsigned",
              "bignum_is_inf_equal_unsigned", "bignum_is_inf_signed", "bignum_is_inf_equal_signed"):
        out.append((f, lambda: [sym_bn("a"), sym_bn("b")], ""))
    for f in ("bignum_not", "bignum_is_zero", "bignum_to_uint64", "bignum_assign"):
        out.append((f, lambda: [sym_bn("a")], ""))
    out.append(("bignum_from_uint64", lambda: [cvc.Val(z3.BitVec("i", 64), U64)], ""))
    out.append(("bignum_from_int", lambda: [cvc.Val(z3.BitVec("i", 64), U64)], ""))
    for n in counts:
        out.append(("bignum_lshift", (lambda n: lambda: [sym_bn("a"), int_val(n)])(n), "nbits=%d" % n))
        out.append(("bignum_rshift", (lambda n: lambda: [sym_bn("a"), int_val(n)])(n), "nbits=%d" % n))
        out.append(("bignum_mask", (lambda n: lambda: [sym_bn("a"), int_val(n)])(n), "bits=%d" % n))
    for size in sizes:
        out.append(("bignum_cntleadzeros", (lambda s: lambda: [sym_bn("a"), int_val(s)])(size), "size=%d" % size))
        out.append(("bignum_cnttrailzeros", (lambda s: lambda: [sym_bn("a"), int_val(s)])(size), "size=%d" % size))
        for n in (0, 1, 31, 33, size - 1, size, size + 1):
            out.append(("bignum_a_rshift", (lambda s, n: lambda: [sym_bn("a"), int_val(s), int_val(n)])(size, n),
                        "size=%d,nbits=%d" % (size, n)))
            out.append(("bignum_rol", (lambda s, n: lambda: [sym_bn("a"), int_val(s), int_val(n)])(size, n),
                        "size=%d,nbits=%d" % (size, n)))
            out.append(("bignum_ror", (lambda s, n: lambda: [sym_bn("a"), int_val(s), int_val(n)])(size, n),
                        "size=%d,nbits=%d" % (size, n)))
        # signed division around a CONTRACTED bignum_udiv: sign handling, masking, output
        out.append(("bignum_sdiv", (lambda s: lambda: [sym_bn("a"), sym_bn("b"), int_val(s)])(size), "size=%d" % size))
        out.append(("bignum_smod", (lambda s: lambda: [sym_bn("a"), sym_bn("b"), int_val(s)])(size), "size=%d" % size))
    return out


class BnTarget(object):
    kind = "proof"

    def __init__(self, tid, cases):
        self.id = tid
        self.cases = cases
        self.min_obligations = 1
        self.params = {"cases": len(cases)}
        self.bound = None

    def check_case(self, fname, mk, label):
        prog = base_program()
        allc = contracts()
        # the function under proof is interpreted from its real body; its callees in bn.c are inlined too, except the two
        # whose contracts cannot be discharged (mul, udiv): those stay contracts (assumed, layer R)
        prog.contracts = dict((k, v) for k, v in allc.items() if k in ("bignum_mul", "bignum_udiv") and k != fname)
        it = cvc.Interp(prog, max_unroll=600)
        args = mk()
        st = cvc.State()
        pre = []
        # clean operands for the sized operations (the translator masks every wide value)
        size = None
        if "size=" in label:
            size = int(label.split("size=")[1].split(",")[0])
            for a in args:
                if isinstance(a, dict):
                    pre.append(z3.ULT(bn_to_bv(a), cvc.bv(1, 256) << size) if size < 256 else z3.BoolVal(True))
        if fname in ("bignum_sdiv", "bignum_smod", "bignum_umod"):
            b = bn_to_bv(args[1])
            pre.append((z3.Extract(size - 1, 0, b) if size else b) != 0)
        if fname in ("bignum_rol", "bignum_ror", "bignum_a_rshift"):
            pass
        it.assume = list(pre)
        got = it.call(prog.funcs[fname], args, st)
        it2 = cvc.Interp(prog)
        want = allc[fname](it2, cvc.State(), args, None)
        g = bn_to_bv(got) if isinstance(got, dict) else got.t
        w = bn_to_bv(want) if isinstance(want, dict) else want.t
        if g.size() != w.size():
            w = zx(w, g.size())
        out = []

        def solve(lab, goal_neg, extra=()):
            s = z3.Solver()
            s.set("rlimit", 200000000)
            s.add(*pre)
            s.add(*extra)
            s.add(goal_neg)
            r = s.check()
            if r == z3.unsat:
                out.append((lab, "discharged", {}))
            elif r == z3.unknown:
                out.append((lab, "undecided", {"why": s.reason_unknown()}))
            else:
                m = s.model()
                model = {}
                for d in m.decls():
                    try:
                        model[d.name()] = m[d].as_long()
                    except Exception:
                        pass
                out.append((lab, "refuted", {"model": model, "got": str(m.eval(g, model_completion=True)),
                                             "want": str(m.eval(w, model_completion=True))}))
        # the contract's own refusals (require) are the function's documented preconditions
        refuse = [c for (k, c, info) in it2.events if k == "abort"]
        ok = z3.Not(z3.Or(*refuse)) if refuse else z3.BoolVal(True)
        if fname in ("bignum_sdiv", "bignum_smod"):
            # the value of the signed division around the contracted bignum_udiv is not discharged by the solver (sign
            # handling against a 65..256-bit signed divider): ASSUMED, covered by layer R; output / abort are proved here
            pass
        else:
            solve("value", g != w, [ok])
        for kind, lab in (("output", "no-output"), ("abort", "no-abort"), ("ub-index", "ub-index"), ("uninit", "no-uninitialised-read")):
            evs = [c for (k, c, info) in it.events if k == kind]
            if evs:
                solve(lab, z3.Or(*evs), [ok])
            elif kind in ("output", "abort"):
                out.append((lab, "discharged", {"trivial": True}))
        notes = sorted(set(info for (k, c, info) in it.events if k == "ub-shift"))
        return out, notes, dict(it.inlined)

    def run_custom(self, findings, seed):
        t0 = time.time()
        res = {"id": self.id, "kind": "proof", "params": self.params, "bound": None, "functions": [], "paths": 0,
               "obligations": 0, "discharged": 0, "refuted": [], "undecided": [], "unsupported": None, "engine_error": None,
               "known": [], "backends": {}, "samples": [], "solver_time": 0.0, "covers": [],
               "extra_coverage": {"c_functions_interpreted": {}, "ub_notes": []}}
        known = [f for f in findings if f.get("status", "known") == "known" and self.id.startswith(f["target"])]
        src = open(os.path.join(JIT, "bn.c")).read()
        import hashlib
        res["functions"].append({"name": "miasm/jitter/bn.c", "file": os.path.join(JIT, "bn.c"), "sha256": hashlib.sha256(src.encode()).hexdigest()})
        for fname, mk, label in self.cases:
            oid = "%s/%s%s" % (self.id, fname, ("/" + label) if label else "")
            try:
                results, notes, inl = self.check_case(fname, mk, label)
            except cvc.Unsupported as ex:
                res["obligations"] += 1
                res["undecided"].append({"obligation": oid, "reason": "outside the C subset: %s" % ex, "goal": fname})
                continue
            except Exception as ex:     # noqa
                res["engine_error"] = "%s on %s\n%s" % (ex, oid, traceback.format_exc())
                break
            for k, v in inl.items():
                res["extra_coverage"]["c_functions_interpreted"][k] = res["extra_coverage"]["c_functions_interpreted"].get(k, 0) + v
            for nt in notes:
                if nt not in res["extra_coverage"]["ub_notes"] and len(res["extra_coverage"]["ub_notes"]) < 12:
                    res["extra_coverage"]["ub_notes"].append(nt)
            for lab, status, info in results:
                res["obligations"] += 1
                ob = "%s/%s" % (oid, lab)
                if status == "discharged":
                    res["discharged"] += 1
                    res["backends"]["trivial" if info.get("trivial") else "z3-bv"] = res["backends"].get(
                        "trivial" if info.get("trivial") else "z3-bv", 0) + 1
                    if len(res["samples"]) < 2 and lab == "value":
                        res["samples"].append({"function": fname, "params": label, "obligation": ob,
                                               "verdict": "real body == 256-bit contract for all operands"})
                elif status == "undecided":
                    res["undecided"].append({"obligation": ob, "reason": info.get("why"), "goal": fname})
                else:
                    hit = None
                    for f in known:
                        try:
                            if eval(f["witness"], {"__builtins__": {}}, {"function": fname, "label": lab, "params": label}):
                                hit = f
                                break
                        except Exception:
                            pass
                    if hit is not None:
                        res["known"].append({"finding": hit["id"], "obligation": ob, "model": info.get("model"), "replay": "fails"})
                        res["obligations"] -= 1
                        continue
                    rep = bn_replay(fname, label, info.get("model", {}), lab)
                    if len(res["refuted"]) < 10:
                        res["refuted"].append({"obligation": ob, "model": info.get("model", {}), "backend": "z3-bv", "replay": rep,
                                               "goal": "%s(%s) %s: body %s, contract %s" % (fname, label, lab, info.get("got"), info.get("want")),
                                               "pc": []})
        res["wall"] = time.time() - t0
        res["solver_time"] = res["wall"]
        return res

    def replay_custom(self, rp):
        parts = rp["obligation"].split(self.id + "/", 1)[-1].split("/")
        fname, lab = parts[0], parts[-1]
        label = parts[1] if len(parts) == 3 else ""
        return dict(bn_replay(fname, label, rp.get("model", {}), lab), failed=[])


# ---- native bn.c through ctypes (replays and layer R) ---------------------------------------------------------------

class CBn(ctypes.Structure):
    _fields_ = [("array", ctypes.c_uint32 * 8)]


def to_cbn(v):
    b = CBn()
    for i in range(8):
        b.array[i] = (v >> (32 * i)) & 0xFFFFFFFF
    return b


def from_cbn(b):
    return sum(int(b.array[i]) << (32 * i) for i in range(8))


_LIB = {}


def bn_lib():
    """the real bn.c compiled into a shared object (rebuilt when the source changes)"""
    src = os.path.join(JIT, "bn.c")
    key = os.path.getmtime(src)
    if _LIB.get("key") != key:
        d = tempfile.mkdtemp(prefix="c04lib_")
        so = os.path.join(d, "bn.so")
        p = subprocess.run(["gcc", "-O1", "-w", "-shared", "-fPIC", "-I", JIT, "-o", so, src], stdout=subprocess.PIPE,
                           stderr=subprocess.PIPE)
        if p.returncode != 0:
            raise RuntimeError("gcc: " + p.stderr.decode(errors="replace")[:300])
        lib = ctypes.CDLL(so)
        import atexit
        import shutil
        atexit.register(shutil.rmtree, d, True)
        _LIB.update({"key": key, "lib": lib})
    return _LIB["lib"]


def call_bn(fname, args, ret="bn"):
    lib = bn_lib()
    f = getattr(lib, fname)
    f.restype = CBn if ret == "bn" else (ctypes.c_uint64 if ret == "u64" else ctypes.c_int)
    cargs = []
    types = []
    for a in args:
        if isinstance(a, tuple):
            cargs.append(ctypes.c_int(a[0]) if a[1] == "int" else ctypes.c_uint64(a[0]))
            types.append(ctypes.c_int if a[1] == "int" else ctypes.c_uint64)
        else:
            cargs.append(to_cbn(a))
            types.append(CBn)
    f.argtypes = types
    r = f(*cargs)
    return from_cbn(r) if ret == "bn" else int(r)


RET_KIND = {"bignum_is_equal": "int", "bignum_is_inf_unsigned": "int", "bignum_is_inf_equal_unsigned": "int",
            "bignum_is_inf_signed": "int", "bignum_is_inf_equal_signed": "int", "bignum_is_zero": "int", "bignum_to_uint64": "u64",
            "bignum_cntleadzeros": "int", "bignum_cnttrailzeros": "int"}


def py_contract(fname, vals, params):
    """the contract on Python integers (independent of the z3 formulation above)"""
    M = (1 << 256) - 1
    a = vals[0] if vals else 0
    b = vals[1] if len(vals) > 1 else 0
    size = params.get("size")

    def sgn(x, n):
        x &= (1 << n) - 1
        return x - (1 << n) if x >> (n - 1) else x
    if fname == "bignum_add": return (a + b) & M
    if fname == "bignum_sub": return (a - b) & M
    if fname == "bignum_mul": return (a * b) & M
    if fname == "bignum_and": return a & b
    if fname == "bignum_or": return a | b
    if fname == "bignum_xor": return a ^ b
    if fname == "bignum_not": return a ^ M
    if fname == "bignum_udiv": return a // b
    if fname == "bignum_umod": return a % b
    if fname in ("bignum_sdiv", "bignum_smod"):
        x, y = sgn(a, size), sgn(b, size)
        q = abs(x) // abs(y)
        if (x < 0) != (y < 0):
            q = -q
        r = x - q * y
        return (q if fname == "bignum_sdiv" else r) & ((1 << size) - 1)
    if fname == "bignum_lshift": return (a << params["nbits"]) & M
    if fname == "bignum_rshift": return a >> params["nbits"]
    if fname == "bignum_mask": return a & ((1 << params["bits"]) - 1)
    if fname == "bignum_a_rshift": return (sgn(a, size) >> min(params["nbits"], size)) & ((1 << size) - 1)
    if fname in ("bignum_rol", "bignum_ror"):
        n = params["nbits"] % size
        x = a & ((1 << size) - 1)
        if fname == "bignum_ror":
            n = (size - n) % size
        return ((x << n) | (x >> (size - n))) & ((1 << size) - 1)
    if fname == "bignum_is_equal": return int(a == b)
    if fname == "bignum_is_inf_unsigned": return int(a < b)
    if fname == "bignum_is_inf_equal_unsigned": return int(a <= b)
    if fname == "bignum_is_inf_signed": return int(sgn(a, 256) < sgn(b, 256))
    if fname == "bignum_is_inf_equal_signed": return int(sgn(a, 256) <= sgn(b, 256))
    if fname == "bignum_is_zero": return int(a == 0)
    if fname == "bignum_to_uint64": return a & ((1 << 64) - 1)
    if fname in ("bignum_assign",): return a
    if fname in ("bignum_from_uint64", "bignum_from_int"): return a & ((1 << 64) - 1)
    if fname == "bignum_cntleadzeros":
        x = a & ((1 << size) - 1)
        return size - x.bit_length()
    if fname == "bignum_cnttrailzeros":
        x = a & ((1 << size) - 1)
        return size if x == 0 else (x & -x).bit_length() - 1
    raise KeyError(fname)


def native_case(fname, vals, params):
    """run the real compiled function in a child process (stdout captured; a crash or an abort is an observation)"""
    code = ("import sys; sys.path.insert(0, %r); import props.C04 as c; "
            "print('RESULT', c._native(%r, %r, %r), file=sys.stderr)" % (HERE, fname, vals, params))
    py = os.path.join(HERE, ".venv312", "bin", "python")
    try:
        p = subprocess.run([py, "-c", code], stdout=subprocess.PIPE, stderr=subprocess.PIPE, timeout=60, cwd=HERE,
                           env=dict(os.environ, PYTHONDONTWRITEBYTECODE="1"))
    except subprocess.TimeoutExpired:
        return {"timeout": True}
    err = p.stderr.decode(errors="replace")
    out = p.stdout.decode(errors="replace")
    r = None
    for line in err.splitlines():
        if line.startswith("RESULT "):
            r = int(line.split()[1])
    return {"result": r, "stdout": out, "status": p.returncode, "stderr": err[-200:] if r is None else ""}


def _native(fname, vals, params):
    args = []
    if fname in ("bignum_from_uint64", "bignum_from_int"):
        args = [(vals[0], "u64")]
    else:
        args = list(vals)
        for k in ("size", "nbits", "bits"):
            if k in params:
                args.append((params[k], "int"))
        if fname in ("bignum_a_rshift", "bignum_rol", "bignum_ror"):
            args = [vals[0], (params["size"], "int"), (params["nbits"], "int")]
    return call_bn(fname, args, RET_KIND.get(fname, "bn"))


def parse_params(label):
    out = {}
    for kv in (label or "").split(","):
        if "=" in kv:
            k, v = kv.split("=")
            out[k] = int(v)
    return out


def bn_replay(fname, label, model, lab):
    params = parse_params(label)
    vals = [int(model.get("a", 0)), int(model.get("b", 0))]
    if fname in ("bignum_from_uint64", "bignum_from_int"):
        vals = [int(model.get("i", 0))]
    elif fname in ("bignum_not", "bignum_is_zero", "bignum_to_uint64", "bignum_assign", "bignum_lshift", "bignum_rshift", "bignum_mask",
                   "bignum_cntleadzeros", "bignum_cnttrailzeros", "bignum_a_rshift", "bignum_rol", "bignum_ror"):
        vals = vals[:1]
    obs = native_case(fname, vals, params)
    try:
        want = py_contract(fname, vals, params)
    except ZeroDivisionError:
        return {"status": "passes", "detail": "contract undefined on the model"}
    if obs.get("timeout"):
        return {"status": "fails", "detail": "the compiled function does not terminate", "values": model}
    if obs.get("stdout"):
        return {"status": "fails", "detail": "the compiled function writes %r to stdout" % obs["stdout"][:40], "values": model}
    if obs.get("result") is None:
        return {"status": "fails", "detail": "the compiled function aborts (status %s) %s" % (obs.get("status"), obs.get("stderr", "")[-120:]),
                "values": model}
    if obs["result"] != want:
        return {"status": "fails", "detail": "compiled %s returns %#x, contract %#x" % (fname, obs["result"], want), "values": model}
    return {"status": "passes", "detail": "compiled function agrees with the contract on the model (%s obligation)" % lab}


# ======================================================================================================
# layer R: bounded run-time check of the assumed contracts
# ======================================================================================================

from harness.bounded import BoundedContract     # noqa: E402


class AssumedContracts(BoundedContract):
    BOUND = "boundary vectors (0, 1, 2^k, 2^k-1, sign boundaries, alternating patterns) at sizes 65..256"
    CASE_SECONDS = 30

    def funcs(self):
        return []

    def cases(self):
        pats = [0, 1, 2, 3, 7, 0xFFFFFFFF, 1 << 32, (1 << 64) - 1, 1 << 64, (1 << 127), (1 << 127) - 1, (1 << 128) - 1, 1 << 128,
                (1 << 255), (1 << 255) - 1, (1 << 256) - 1, 0x5555555555555555555555555555555555555555555555555555555555555555,
                0xdeadbeefcafebabe0123456789abcdef, 10 ** 40 + 7, 3 << 100]
        out = []
        for a, b in itertools.product(pats, repeat=2):
            out.append(("bignum_mul", (a, b), {}))
            if b:
                out.append(("bignum_udiv", (a, b), {}))
                out.append(("bignum_umod", (a, b), {}))
        for size in (65, 128, 256):
            m = (1 << size) - 1
            sp = sorted(set(x & m for x in pats + [1 << (size - 1), (1 << (size - 1)) - 1, m, m - 1]))
            for a, b in itertools.product(sp, repeat=2):
                if b:
                    out.append(("bignum_sdiv", (a, b), {"size": size}))
                    out.append(("bignum_smod", (a, b), {"size": size}))
        return out

    def show(self, case):
        f, vals, params = case
        return "%s(%s%s)" % (f, ", ".join("%#x" % v for v in vals), "".join(", %s=%d" % kv for kv in params.items()))

    def run_custom(self, findings, seed):
        # native calls happen in ONE child process per chunk (a crash of the C code must not take the checker down), started
        # before the per-case loop so that the per-case time limit does not apply to the whole batch
        self._run_batch()
        return BoundedContract.run_custom(self, findings, seed)

    _batch = None

    def check(self, case):
        if self._batch is None:
            self._run_batch()
        f, vals, params = case
        i = self._batch["index"][self.show(case)]
        if i >= len(self._batch["results"]):
            if i == len(self._batch["results"]):
                return (False, "the compiled function crashes / does not return (child status %s)" % self._batch["status"], True)
            return (True, "", False)        # not reached: the child stopped at an earlier case, which is reported
        got = self._batch["results"][i]
        want = py_contract(f, list(vals), params)
        if got != want:
            return (False, "compiled %s returns %#x, contract %#x" % (f, got, want), True)
        if self._batch["stdout"] and f in ("bignum_sdiv", "bignum_smod"):
            return (False, "the compiled code wrote %r to stdout during the %s cases" % (self._batch["stdout"][:30], f), True)
        return (True, "", True)

    def _run_batch(self):
        if True:
            cs = [c for _, c in self.my_cases()]
            code = ("import sys, json; sys.path.insert(0, %r); import props.C04 as c\n"
                    "cs = json.load(open(sys.argv[1]))\n"
                    "for f, vals, params in cs:\n"
                    "    sys.stderr.write('R %%d\\n' %% c._native(f, [int(v) for v in vals], params)); sys.stderr.flush()\n" % HERE)
            d = tempfile.mkdtemp(prefix="c04r_")
            import json
            with open(os.path.join(d, "cases.json"), "w") as f:
                json.dump([[c[0], [str(v) for v in c[1]], c[2]] for c in cs], f)
            py = os.path.join(HERE, ".venv312", "bin", "python")
            try:
                p = subprocess.run([py, "-c", code, os.path.join(d, "cases.json")], stdout=subprocess.PIPE, stderr=subprocess.PIPE,
                                   timeout=1200, cwd=HERE, env=dict(os.environ, PYTHONDONTWRITEBYTECODE="1"))
                lines = [l for l in p.stderr.decode(errors="replace").splitlines() if l.startswith("R ")]
                self._batch = {"results": [int(l.split()[1]) for l in lines], "stdout": p.stdout.decode(errors="replace"),
                               "status": p.returncode, "index": dict((self.show(c), i) for i, c in enumerate(cs))}
            except subprocess.TimeoutExpired:
                self._batch = {"results": [], "stdout": "", "status": "timeout", "index": dict((self.show(c), i) for i, c in enumerate(cs))}
            import shutil
            shutil.rmtree(d, ignore_errors=True)


# ======================================================================================================
# template family
# ======================================================================================================

def div_hard(name, e):
    """templates left out STATICALLY because z3 does not decide them within the budget on the unchanged tree (listed in
    PROPERTY['not_attempted']): symbolic divisions whose operands were widened by compose-built sign extensions (odd widths
    above 9 bits), division children at depth 2 above 8 bits, symbolic rotations of big numbers above 128 bits"""
    ops = [x for x in _nodes(e) if x.is_op()]
    divs = [x for x in ops if x.op in ("sdiv", "smod", "udiv", "umod", "/", "%")]
    top = e
    for d in divs:
        w = d.size
        sym = not d.args[1].is_int()
        if d is not top and w > 8:
            return True
        if d.op in ("sdiv", "smod") and w not in (8, 16, 32, 64) and w > 9:
            return True
    for x in ops:
        if x.op in ("<<<", ">>>") and x.size > 128 and not x.args[1].is_int():
            return True
        if x.op == "*" and x.size >= 16 and any(y.is_op() and y.op in ("<<", ">>", "a>>", "<<<", ">>>", "*") for y in x.args):
            return True
    return False


def family(tier):
    return [(n, e) for n, e in family_all(tier) if not div_hard(n, e)]


def family_all(tier):
    fam = templates.family(tier, max_w=64, div_max_w=64)
    # the division family at every native width (the helpers are typed: udiv8/16/32/64), rotations at every width
    ws = [1, 7, 8, 16, 32, 64] if tier == "quick" else [1, 2, 3, 7, 8, 9, 16, 17, 31, 32, 33, 63, 64]
    extra = []
    for w in ws:
        a, b = templates.ids(w, 2)
        for op in ("sdiv", "smod", "udiv", "umod"):
            for k in (1, (1 << w) - 1, 1 << (w - 1)):
                extra.append(("%s-const%x/w%d" % (op, k, w), ExprOp(op, a, ExprInt(k, w))))
        extra.append(("sub2/w%d" % w, ExprOp("-", a, b)))
    # big-number widths
    bws = [65, 128] if tier == "quick" else [65, 80, 96, 128, 129, 255, 256]
    for w in bws:
        a, b, c = templates.ids(w)
        for op in ("+", "*", "&", "^", "|", "<<", ">>", "a>>", "<<<", ">>>", "==", "<u", "<s", "<=u", "<=s", "udiv", "umod", "sdiv",
                   "smod"):
            extra.append(("%s/w%d" % (op, w), ExprOp(op, a, b)))
        for op in ("-", "parity", "cntleadzeros", "cnttrailzeros"):
            extra.append(("%s/w%d" % (op, w), ExprOp(op, a)))
        extra.append(("sub2/w%d" % w, ExprOp("-", a, b)))
        extra.append(("+3/w%d" % w, ExprOp("+", a, b, c)))
        for k in (0, 1, w - 1, w, w + 1, (1 << w) - 1):
            for op in ("<<", ">>", "a>>", "<<<", ">>>"):
                extra.append(("%s-const%x/w%d" % (op, k, w), ExprOp(op, a, ExprInt(k, w))))
        extra.append(("int/w%d" % w, ExprOp("+", a, ExprInt((1 << w) - 3, w))))
        extra.append(("cond/w%d" % w, ExprCond(a, b, c)))
        extra.append(("cond-native/w%d" % w, ExprCond(ExprId("c32", 32), b, c)))
        for (lo, hi) in ((0, 1), (0, 64), (1, 65), (w - 1, w), (w - 64, w), (0, w - 1), (3, 70)):
            if 0 <= lo < hi <= w:
                extra.append(("slice%d_%d/w%d" % (lo, hi, w), ExprSlice(a, lo, hi)))
        a64, b64 = templates.ids(64, 2)
        extra.append(("compose64+%d" % (w - 64), ExprCompose(a64, ExprId("h%d" % (w - 64), w - 64))))
        extra.append(("zeroExt_%d/w64" % w, ExprOp("zeroExt_%d" % w, a64)))
        extra.append(("signExt_%d/w64" % w, ExprOp("signExt_%d" % w, a64)))
        extra.append(("zeroExt_%d/w32" % w, ExprOp("zeroExt_%d" % w, ExprId("a32", 32))))
        extra.append(("signExt_%d/w8" % w, ExprOp("signExt_%d" % w, ExprId("a8", 8))))
        extra.append(("mem%d@64" % w if w % 8 == 0 else "skip", ExprMem(ExprId("p64", 64), w if w % 8 == 0 else 128)))
        extra.append(("+(*,c)/w%d" % w, ExprOp("+", ExprOp("&", a, b), c)))
        extra.append(("slice(+)/w%d" % w, ExprSlice(ExprOp("+", a, b), 1, 65)))
    seen = set(e for _, e in fam)
    for n, e in extra:
        if e not in seen and n != "skip":
            seen.add(e)
            fam.append((n, e))
    return fam


def targets(tier):
    fam = family(tier)
    ts = [TranslatorTarget("C04/TranslatorC/chunk%d" % i, ch) for i, ch in enumerate(_chunks(fam, 24))]
    cases = bn_cases(tier)
    ts += [BnTarget("C04/bn.c/chunk%d" % i, ch) for i, ch in enumerate(_chunks(cases, 8))]
    from harness.bounded import chunked
    ts += chunked(AssumedContracts, "C04/assumed-contracts(runtime, bounded)", 4, tier)
    return ts


def _chunks(items, n):
    n = max(1, min(n, len(items)))
    return [items[i::n] for i in range(n)]

