"""C05 -- z3 translation agrees with the reference semantics (miasm/ir/translators/z3_ir.py)."""
import z3

from miasm.ir.translators.z3_ir import TranslatorZ3, Z3Mem

from harness.tv import NotSupported, TVTarget, chunks
from vc import templates

PROPERTY = {
    "id": "C05",
    "level": "translation_validation",
    "engine": "tv",
    "technique": "translation validation under contract: real TranslatorZ3 output proved equal to SPEC per template by z3",
    "explanation": "Contract of TranslatorZ3.from_expr: the returned z3 term equals SPEC(e) for every value of the identifiers "
                   "and every memory content (configured byte order; zero divisors excluded). The real translator is executed "
                   "on the template family (every accepted operator x widths at depth 1, parent/child pairs at depth 2, "
                   "slices, compositions, conditions, memory reads, boundary constants); `term != SPEC` is refuted by z3 for "
                   "each template, i.e. for ALL operand values. Division-family operators are bit-blasted at widths <= 8.",
    "trusted_base": ["SPEC (vc/spec.py)", "z3 bit-vector theory", "template family is finite: parametricity beyond depth 2 is "
                     "argued, not proved"],
    "assumptions": ["templates: widths 1,7,8,16,32,64 (quick) / + 2,3,9,31,33,63 (thorough); division family at widths <= 8",
                    "an operator for which the translator raises NotImplementedError is 'not supported' and carries no "
                    "obligation"],
}


def to_term_factory(endianness):
    def to_term(e):
        tr = TranslatorZ3(endianness=endianness)
        try:
            return tr.from_expr(e)
        except NotImplementedError as ex:
            raise NotSupported(str(ex))
    return to_term


FUNCS = [TranslatorZ3.from_ExprOp, TranslatorZ3.from_ExprInt, TranslatorZ3.from_ExprId, TranslatorZ3.from_ExprMem,
         TranslatorZ3.from_ExprSlice, TranslatorZ3.from_ExprCompose, TranslatorZ3.from_ExprCond, TranslatorZ3._sdivC,
         TranslatorZ3._abs, Z3Mem.get, Z3Mem.__getitem__, Z3Mem.get_mem_array]


def targets(tier):
    fam = templates.family(tier, max_w=64 if tier == "quick" else 128, div_max_w=8)
    ts = []
    for endian, big in (("<", False), (">", True)):
        fams = fam if not big else [(n, e) for (n, e) in fam if "mem" in n]
        for i, ch in enumerate(chunks(fams, 16 if not big else 2)):
            ts.append(TVTarget("C05/TranslatorZ3(%s)/chunk%d" % ("le" if not big else "be", i), ch, to_term_factory(endian),
                               FUNCS, big_endian=big, id_name=lambda name, w: str(name), mem_name=lambda aw: "mem%d" % aw))
    return ts
