"""C06 -- SMT-LIB2 translation agrees with the reference semantics (miasm/ir/translators/smt2.py, smt2_helper.py)."""
import z3

from miasm.expression import smt2_helper
from miasm.ir.translators.smt2 import SMT2Mem, TranslatorSMT2

from harness.tv import NotSupported, TVTarget, chunks
from vc import spec, templates

PROPERTY = {
    "id": "C06",
    "level": "translation_validation",
    "engine": "tv",
    "technique": "translation validation under contract: real TranslatorSMT2 text parsed by z3 and proved equal to SPEC per "
                 "template",
    "explanation": "Contract of TranslatorSMT2.from_expr + to_smt2 declarations: the emitted SMT-LIB2 text parses in the logic "
                   "it declares and denotes SPEC(e) for every value of the identifiers and every memory content. The real "
                   "translator is executed on the template family; its text (with the declarations the translator itself "
                   "tracks) is parsed by z3.parse_smt2_string -- a parse or sort error is a failed obligation -- and "
                   "`term != SPEC` is refuted by z3 per template (all operand values).",
    "trusted_base": ["SPEC (vc/spec.py)", "z3's SMT-LIB2 parser and bit-vector theory", "finite template family (depth <= 2)"],
    "assumptions": ["widths 1,7,8,16,32,64 (quick); division family bit-blasted at widths <= 8",
                    "operators for which the translator raises NotImplementedError carry no obligation"],
}


def to_term_factory(endianness):
    def to_term(e):
        tr = TranslatorSMT2(endianness=endianness)
        try:
            txt = tr.from_expr(e)
        except NotImplementedError as ex:
            raise NotSupported(str(ex))
        decls = ""
        for bv, size in tr._bitvectors.items():
            decls += smt2_helper.declare_bv(bv, size) + "\n"
        for size, mem in tr._mem.mems.items():
            decls += smt2_helper.declare_array(mem, smt2_helper.bit_vec(size), smt2_helper.bit_vec(8)) + "\n"
        w = e.size
        full = decls + "(declare-fun out__ () (_ BitVec %d))\n(assert (= out__ %s))\n" % (w, txt)
        try:
            a = z3.parse_smt2_string(full)
        except z3.Z3Exception as ex:
            raise ValueError("emitted SMT-LIB2 does not parse: %s" % str(ex)[:200])
        return a[0].arg(1)
    return to_term


FUNCS = [TranslatorSMT2.from_ExprOp, TranslatorSMT2.from_ExprInt, TranslatorSMT2.from_ExprId, TranslatorSMT2.from_ExprMem,
         TranslatorSMT2.from_ExprSlice, TranslatorSMT2.from_ExprCompose, TranslatorSMT2.from_ExprCond, SMT2Mem.get,
         SMT2Mem.__getitem__, smt2_helper.bv_rotate_left, smt2_helper.bv_rotate_right, smt2_helper.bit_vec_val,
         smt2_helper.bv_extract, smt2_helper.bv_concat]


def targets(tier):
    fam = templates.family(tier, max_w=64, div_max_w=8)
    ts = []
    for endian, big in (("<", False), (">", True)):
        fams = fam if not big else [(n, e) for (n, e) in fam if "mem" in n]
        for i, ch in enumerate(chunks(fams, 16 if not big else 2)):
            ts.append(TVTarget("C06/TranslatorSMT2(%s)/chunk%d" % ("le" if not big else "be", i), ch, to_term_factory(endian),
                               FUNCS, big_endian=big, id_name=lambda name, w: str(name), mem_name=lambda aw: "mem%d" % aw))
    return ts
