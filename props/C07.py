"""C07 -- Python-source and expression-source translations are faithful (translators/python.py, miasm_ir.py)."""
import time

from miasm.expression.expression import (ExprCompose, ExprCond, ExprId, ExprInt, ExprLoc, ExprMem, ExprOp, ExprSlice,
                                         LocKey)
from miasm.ir.translators.miasm_ir import TranslatorMiasm
from miasm.ir.translators.python import TranslatorPython

from harness.core import Target
from vc import spec, templates
from vc.path import Infeasible
from vc.terms import Eq, PyArith, UF, is_sym, mk_int

PROPERTY = {
    "id": "C07",
    "level": "translation_validation",
    "engine": "tv",
    "technique": "translation validation under contract: emitted Python source interpreted symbolically (pyvc) and proved equal "
                 "to SPEC per template; bounded run-time contract for the expression-construction source",
    "explanation": "Clause 1 (TranslatorPython): for every template the real translator's source text is parsed with `ast` and "
                   "interpreted by pyvc with the identifiers symbolic in [0, 2^w) and memory(addr, n) an uninterpreted byte map; "
                   "obligation per path: no exception (in particular no TypeError from a float) and value == SPEC for ALL "
                   "identifier values. Clause 2 (TranslatorMiasm): eval(from_expr(e)) is e -- a statement about re-parsing "
                   "concatenated text, decided by a BOUNDED run-time contract check over a corpus of trees (depth <= 3) with "
                   "hostile names and boundary constants (labelled bounded, never counted as proved).",
    "trusted_base": ["SPEC (vc/spec.py)", "pyvc interpreter + CPython differential", "z3 integer / bit-vector encodings",
                     "finite template family (depth <= 2)"],
    "assumptions": ["memory(address, size) returns the little-endian value of `size` bytes of one byte map (the translator "
                    "leaves it unimplemented)", "widths 1,7,8,16,32,64 (quick); division family at every such width "
                    "(integer encoding)", "clause 2: corpus-bounded"],
}


def mem8_concrete(a):
    return ((a * 2654435761) >> 7) & 0xff


def make_memory(ctx, aw):
    def memory(addr, size):
        r = 0
        for i in range(size):
            a = (addr + i) % (1 << aw)
            if ctx.symbolic:
                b = mk_int("mod", UF("mem_%d" % aw, a), 256)
            else:
                b = mem8_concrete(a)
            r = r + (b << (8 * i))
        return r
    memory._vc_native = True
    return memory


def collect(e):
    idents, aws = {}, set()

    def v(x):
        if x.is_id():
            idents[(x.name, x.size)] = x
        if x.is_mem():
            aws.add(x.ptr.size)
        return x
    e.visit(v)
    return idents, aws


def t_python(name, e):
    def body(ctx):
        idents, aws = collect(e)
        aw = sorted(aws)[0] if aws else 32
        try:
            src = TranslatorPython().from_expr(e)
        except NotImplementedError:
            ctx.cover("unsupported")
            ctx.check("unsupported-operator-carries-no-obligation", True)
            return
        except Exception as ex:     # noqa
            ctx.cover("ret")
            ctx.check("translator-no-raise:%s" % type(ex).__name__, False, kind="no-raise")
            return
        vals = {}
        env = {}
        for (nm, w) in sorted(idents):
            vals[(nm, w)] = ctx.int("id_%s" % nm, 0, (1 << w) - 1)
            env[nm] = vals[(nm, w)]
        memory = make_memory(ctx, aw)
        env["memory"] = memory
        senv = spec.Env(spec.INT)
        senv.ident = lambda nm, w: vals[(nm, w)]
        if not ctx.symbolic:
            senv.mem_byte = lambda a, w_: mem8_concrete(a)
        try:
            want, w = spec.sem(e, senv)
        except PyArith:
            raise Infeasible("zero divisor: SPEC undefined")
        for d, dw in senv.divisors:
            ctx.assume(d != 0)
        r = ctx.eval_source(src, env)
        ctx.cover("ret")
        if r.raised:
            ctx.check("no-raise:%s" % type(r.exc).__name__, False, kind="no-raise", info={"source": src})
            return
        v = r.value
        if isinstance(v, bool):
            v = int(v)
        ctx.check("value", Eq(v, want), info={"source": src})
    return body


def py_models():
    return {}


# ------------------------------------------------------------------------------------------------------
# clause 2: bounded run-time contract of TranslatorMiasm
# ------------------------------------------------------------------------------------------------------
NAMES = ["a", "RAX", "x'y", 'q"uote', "back\\slash", "nul\x00byte", "café", "tab\there", "new\nline", "'", '"""',
         "ExprId('z', 8)", "a, size=8) or (1", "%s", "{0}", ""]


def corpus(depth_limit=3, cap=6000):
    import itertools
    leaves = []
    for w in (1, 8, 32, 64, 128):
        for n in NAMES[: (len(NAMES) if w in (8, 32) else 3)]:
            leaves.append(ExprId(n, w))
        for v in (0, 1, (1 << w) - 1, 1 << (w - 1)):
            leaves.append(ExprInt(v, w))
    out = list(leaves)
    by_w = {}
    for l in leaves:
        by_w.setdefault(l.size, []).append(l)
    level = leaves
    for d in range(2, depth_limit + 1):
        new = []
        for w, ls in sorted(by_w.items()):
            ls = ls[:10]
            for a, b in itertools.islice(itertools.product(ls, ls), 60):
                for op in ("+", "^", "<<<", "sdiv", "weird'op\"\\", "call_func_ret"):
                    new.append(ExprOp(op, a, b))
                new.append(ExprCond(a, b, a))
                new.append(ExprCompose(a, b))
                if w > 1:
                    new.append(ExprSlice(a, 0, w - 1))
                    new.append(ExprSlice(b, w // 2, w))
                if w in (32, 64):
                    new.append(ExprMem(a, 8))
                    new.append(ExprMem(a + b, w))
                new.append(ExprOp("zeroExt_%d" % (w * 2), a))
                new.append(ExprOp("-", a))
        for x in new:
            by_w.setdefault(x.size, [])
            if len(by_w[x.size]) < 40:
                by_w[x.size].insert(0, x)
        out += new
        if len(out) > cap:
            break
    seen, res = set(), []
    for x in out:
        if x not in seen:
            seen.add(x)
            res.append(x)
    return res[:cap]


class MiasmRoundTrip(object):
    """bounded run-time contract check: eval(TranslatorMiasm().from_expr(e)) is e"""
    kind = "bounded"

    def __init__(self, tier):
        self.id = "C07/TranslatorMiasm.from_expr/roundtrip"
        self.tier = tier
        self.min_obligations = 1
        self.params = {}
        self.bound = "expression trees of depth <= 3 over a corpus of hostile names and boundary constants"

    def cases(self):
        return corpus(3, 3000 if self.tier == "quick" else 20000)

    def check_case(self, e):
        import miasm.expression.expression as m2
        ns = dict((k, getattr(m2, k)) for k in ("ExprId", "ExprInt", "ExprOp", "ExprCond", "ExprSlice", "ExprCompose", "ExprMem",
                                                 "ExprAssign", "ExprLoc", "LocKey"))
        try:
            src = TranslatorMiasm().from_expr(e)
            r = eval(src, ns)
        except Exception as ex:     # noqa
            return False, "raises %s: %s" % (type(ex).__name__, str(ex)[:120])
        if r is not e:
            return False, "rebuilt %r instead of %r" % (r, e)
        return True, ""

    def run_custom(self, findings, seed):
        from vc import loader
        t0 = time.time()
        res = {"id": self.id, "kind": "bounded", "params": {}, "bound": self.bound, "functions": [], "paths": 0,
               "obligations": 0, "discharged": 0, "refuted": [], "undecided": [], "unsupported": None, "engine_error": None,
               "known": [], "backends": {}, "samples": [], "solver_time": 0.0, "covers": [], "extra_coverage": {}}
        for f in (TranslatorMiasm.from_ExprId, TranslatorMiasm.from_ExprInt, TranslatorMiasm.from_ExprOp,
                  TranslatorMiasm.from_ExprCond, TranslatorMiasm.from_ExprSlice, TranslatorMiasm.from_ExprCompose,
                  TranslatorMiasm.from_ExprMem):
            h = loader.func_text_hash(f)
            h["name"] = "%s:%s" % (f.__module__, f.__qualname__)
            res["functions"].append(h)
        n = 0
        for e in self.cases():
            n += 1
            ok, why = self.check_case(e)
            res["obligations"] += 1
            if ok:
                res["discharged"] += 1
            elif len(res["refuted"]) < 5:
                res["refuted"].append({"obligation": "%s/case%d" % (self.id, n), "model": {"case": n}, "backend": "runtime",
                                       "replay": {"status": "fails", "detail": why}, "goal": repr(e)[:300], "pc": []})
        res["backends"]["runtime-contract(bounded)"] = res["discharged"]
        res["extra_coverage"] = {"bounded_runtime_cases": n}
        res["samples"] = [{"case": repr(e)[:200], "verdict": "eval(source) is e"} for e in self.cases()[200:202]]
        res["wall"] = time.time() - t0
        return res

    def replay_custom(self, rp):
        cs = self.cases()
        i = int(rp["model"]["case"]) - 1
        ok, why = self.check_case(cs[i])
        return {"status": "passes" if ok else "fails", "detail": why, "failed": []}


def targets(tier):
    fam = templates.family(tier, max_w=64, div_max_w=64)
    fns = [TranslatorPython.from_ExprOp, TranslatorPython.from_ExprInt, TranslatorPython.from_ExprId, TranslatorPython.from_ExprMem,
           TranslatorPython.from_ExprSlice, TranslatorPython.from_ExprCompose, TranslatorPython.from_ExprCond]
    ts = []
    for name, e in fam:
        t = Target("C07/TranslatorPython/%s" % name, fns, t_python(name, e), kind="proof", diff_samples=4)
        ts.append(t)
    ts.append(MiasmRoundTrip(tier))
    return ts
