"""C08 -- Expressions are canonical values that round-trip through serialization (expression.py, parser.py).

The textual round trip goes through pyparsing and the pickle VM, canonicity through a process-global dictionary keyed by tuples of
arbitrary components: outside the Python subset of pyvc.  Bounded stand-in, labelled: the contracts (rebuild-from-components is
the identical object; different components give different objects; width = independent width function of the components;
repr/parse, pickle, deepcopy, copy, empty replacement and identity visit return the identical object) are executed on the REAL
classes over an enumerated corpus of expression trees."""
import copy
import itertools
import pickle

from miasm.expression.expression import (Expr, ExprAssign, ExprCompose, ExprCond, ExprId, ExprInt, ExprLoc, ExprMem, ExprOp,
                                         ExprSlice, LocKey)
from miasm.expression.parser import str_to_expr

from harness.bounded import BoundedContract, chunked

PROPERTY = {
    "id": "C08",
    "level": "exploration",
    "engine": "bounded-contract",
    "technique": "bounded stand-in: run-time contract check of the real Expr constructors / get_object / __eq__ / __hash__ / "
                 "__reduce__ / copy / replace_expr / visit / str_to_expr over an enumerated corpus of expression trees",
    "explanation": "Contracts: (canonical) building a node again from equal components returns the identical object with the same "
                   "hash; two nodes of the corpus built from different components are different objects, compare unequal and are "
                   "distinct dictionary keys; ExprInt components are compared modulo 2^size; (width) size equals an independent "
                   "width function of the components; (round trips) str_to_expr(repr(e)), pickle.loads(pickle.dumps(e, p)) for "
                   "every protocol, copy.deepcopy(e), e.copy(), e.replace_expr({}), e.visit(identity) are the identical object "
                   "and leave its fields unchanged. Corpus: every node kind; integers of widths 1..256 with boundary values "
                   "(0, 1, 2^k-1, 2^61-1, 2^63, negative inputs); identifier names with quotes, backslashes, non-ASCII and "
                   "control characters; every operator family with its width rule; depth <= 3. Bounded: exploration, not proof.",
    "rule": "one case = one expression (all contracts) or one pair of expressions (distinctness); non-trivial = compound node or "
            "special-character identifier",
    "trusted_base": ["CPython executes the real classes, pickle and pyparsing; the width function and the component view are "
                     "written independently in props/C08.py"],
    "assumptions": ["corpus of props/C08.py (depth <= 3); distinctness is checked on all pairs of a ~600-expression sub-corpus",
                    "ExprAssign normalises a slice destination into an assignment of the whole register: its components are "
                    "taken after that normalisation (dst/src as stored)"],
}

NAMES = ["a", "B2", "with space", "it's", 'say "hi"', "both ' and \"", "back\\slash", "trail\\", "\\'", "é", "日本", "tab\there",
         "nl\nx", "", "0x10", "ExprId('a', 8)", "(", ")", ","]
WIDTHS = [1, 7, 8, 16, 32, 61, 64, 65, 128, 256]


INT_BUILT = []      # (object, value modulo 2^size, size) at construction time


def ints():
    out = []
    for w in WIDTHS:
        for v in (0, 1, 2, (1 << w) - 1, (1 << (w - 1)), (1 << (w - 1)) - 1, -1, -2, (1 << 61) - 1, 1 << 61, 1 << 63, (1 << 64) - 1,
                  7, 63, 0x1234567890abcdef, 1 << w, (1 << w) + 1, (1 << 61) + 6, (1 << 122) - 1):
            e = ExprInt(v, w)
            INT_BUILT.append((e, v % (1 << w), w))
            out.append(e)
    return out


def width_of(kind, comps):
    """independent width function of a node's components"""
    if kind in ("int", "id", "loc", "mem"):
        return comps[-1]
    if kind == "assign":
        return comps[0].size
    if kind == "cond":
        return comps[1].size
    if kind == "slice":
        return comps[2] - comps[1]
    if kind == "compose":
        return sum(x.size for x in comps)
    op, args = comps[0], comps[1:]
    if op in ("==", "<u", "<s", "<=u", "<=s", "parity", "FLAG_EQ", "FLAG_EQ_AND", "FLAG_EQ_CMP", "FLAG_SIGN_SUB", "FLAG_SIGN_ADD",
              "FLAG_ADD_CF", "FLAG_SUB_CF", "FLAG_ADD_OF", "FLAG_SUB_OF", "FLAG_ADDWC_CF", "FLAG_ADDWC_OF", "FLAG_SUBWC_CF",
              "FLAG_SUBWC_OF", "CC_U<=", "CC_U>", "CC_S<", "CC_EQ", "CC_NE", "CC_U<", "CC_U>=", "CC_S>", "CC_S>=", "CC_S<=",
              "CC_NEG", "CC_POS"):
        return 1
    for pre in ("zeroExt_", "signExt_"):
        if op.startswith(pre):
            return int(op[len(pre):])
    if op == "segm":
        return args[1].size
    return args[0].size


def comps_of(e):
    """(kind, components) read from the public attributes"""
    if e.is_int():
        return "int", (int(e.arg), e.size)
    if e.is_id():
        return "id", (e.name, e.size)
    if e.is_loc():
        return "loc", (e.loc_key, e.size)
    if e.is_mem():
        return "mem", (e.ptr, e.size)
    if e.is_assign():
        return "assign", (e.dst, e.src)
    if e.is_cond():
        return "cond", (e.cond, e.src1, e.src2)
    if e.is_slice():
        return "slice", (e.arg, e.start, e.stop)
    if e.is_compose():
        return "compose", tuple(e.args)
    return "op", (e.op,) + tuple(e.args)


CTOR = {"int": ExprInt, "id": ExprId, "loc": ExprLoc, "mem": ExprMem, "assign": ExprAssign, "cond": ExprCond, "slice": ExprSlice,
        "compose": ExprCompose, "op": ExprOp}


def corpus(tier):
    leaves = [ExprId(n, s) for n in NAMES for s in (8, 32)] + [ExprId("c", 1), ExprId("a", 64), ExprId("w", 128)]
    leaves += [ExprLoc(LocKey(k), s) for k in (0, 1, 77, 1 << 40) for s in (32, 64)]
    its = ints()
    a8, b8, a32, b32, c1 = ExprId("a", 8), ExprId("B2", 8), ExprId("a", 32), ExprId("B2", 32), ExprId("c", 1)
    i8, i32 = ExprInt(5, 8), ExprInt(0x80000000, 32)
    l1 = []
    for x, y in ((a8, b8), (a32, i32), (a8, i8), (ExprId("it's", 8), ExprId("back\\slash", 8))):
        for op in ("+", "*", "^", "&", "|", "-", "/", "%", "<<", ">>", "a>>", "<<<", ">>>", "udiv", "umod", "sdiv", "smod", "**",
                   "==", "<u", "<s", "<=u", "<=s", "FLAG_EQ_CMP", "FLAG_SUB_CF", "FLAG_ADD_OF", "FLAG_SIGN_SUB", "call_func_x",
                   "weird op'\"\\", "fadd"):
            l1.append(ExprOp(op, x, y))
        l1.append(ExprOp("+", x, y, x))
        l1.append(ExprOp("+", y, x))
        for op in ("-", "parity", "cntleadzeros", "cnttrailzeros", "FLAG_EQ", "zeroExt_64", "signExt_64", "zeroExt_128", "!",
                   "bsf", "fsqrt"):
            l1.append(ExprOp(op, x))
        l1.append(ExprOp("FLAG_ADDWC_CF", x, y, c1))
        l1.append(ExprOp("segm", ExprId("ds", 16), x))
        l1 += [ExprCond(c1, x, y), ExprCond(x, x, y), ExprCond(x, y, x), ExprMem(x, 8), ExprMem(x, 64), ExprMem(y, 8),
               ExprCompose(x, y), ExprCompose(y, x), ExprCompose(x), ExprCompose(x, y, x), ExprSlice(x, 0, 1), ExprSlice(x, 0, 8),
               ExprSlice(x, 3, 7), ExprSlice(y, 3, 7), ExprAssign(x, y), ExprAssign(y, x)]
    l1 += [ExprAssign(ExprSlice(a32, 0, 8), b8), ExprAssign(ExprSlice(a32, 8, 16), i8), ExprAssign(ExprMem(a32, 8), b8),
           ExprCompose(c1, ExprInt(0, 7)), ExprCompose(ExprInt(1, 64), ExprInt(1, 64)), ExprSlice(ExprInt(-1, 256), 100, 200)]
    l2 = []
    sub8 = [e for e in l1 if e.size == 8 and not e.is_assign()][::3]
    for s in sub8:
        l2 += [ExprOp("+", s, a8), ExprOp("+", a8, s), ExprOp("-", s), ExprCond(s, a8, s), ExprMem(ExprOp("zeroExt_32", s), 16),
               ExprCompose(s, s), ExprSlice(s, 1, 5), ExprAssign(a8, s), ExprOp("==", s, s)]
    l3 = []
    if tier == "thorough":
        for s in [e for e in l2 if e.size == 8 and not e.is_assign()][::5]:
            l3 += [ExprOp("^", s, b8, s), ExprCond(ExprSlice(s, 0, 1), s, a8), ExprCompose(s, ExprMem(ExprCompose(s, s, s, s), 24))]
    # each node is recorded with the components it shows once the whole corpus is built; integer leaves are additionally
    # recorded at construction time (INT_BUILT): if a later construction aliases an earlier object (a collision in the singleton
    # table) the earlier node no longer shows the value it was built from
    seen, out = set(), []
    for e in leaves + its + l1 + l2 + l3:
        f = fields(e)
        if f not in seen:
            seen.add(f)
            out.append((e, f))
    return out


def fields(e):
    k, c = comps_of(e)
    return (k, c, e.size)


def check_expr(case):
    e, built = case
    kind, comps = comps_of(e)
    before = fields(e)
    if before != built:
        return "built from the components %r, now shows %r: another construction aliased the object" % (built[1], before[1])
    if kind == "int":
        for (obj, v, w) in INT_BUILT:
            if obj is e and (v, w) != comps:
                return "ExprInt(%#x, %d) and ExprInt(%#x, %d) are the same object" % (v, w, comps[0], comps[1])
    # ---- canonicity ----
    again = CTOR[kind](*comps)
    if again is not e:
        return "rebuilding from the components %r gives another object" % (comps,)
    if not (again == e) or again != e or hash(again) != hash(e):
        return "the rebuilt node compares / hashes differently"
    if e.size != width_of(kind, comps):
        return "size %d, the components determine %d" % (e.size, width_of(kind, comps))
    if kind == "int":
        v, w = comps
        if not (0 <= v < (1 << w)):
            return "ExprInt value %#x not reduced modulo 2^%d" % (v, w)
        for alias in (v + (1 << w), v - (1 << w)):
            if ExprInt(alias, w) is not e:
                return "ExprInt(%#x, %d) is not the object of ExprInt(%#x, %d)" % (alias, w, v, w)
    # ---- round trips ----
    try:
        text = repr(e)
        back = str_to_expr(text)
    except Exception as ex:     # noqa
        return "str_to_expr(repr(e)) raises %s for %s" % (type(ex).__name__, ascii(repr(e))[:120])
    if back is not e:
        return "str_to_expr(repr(e)) gives %s for %s" % (ascii(repr(back))[:120], ascii(text)[:120])
    for proto in range(0, pickle.HIGHEST_PROTOCOL + 1):
        try:
            back = pickle.loads(pickle.dumps(e, proto))
        except Exception as ex:     # noqa
            return "pickle protocol %d raises %s" % (proto, type(ex).__name__)
        if back is not e:
            return "pickle protocol %d gives another object (%s)" % (proto, ascii(repr(back))[:100])
    for what, fn in (("copy.deepcopy", lambda: copy.deepcopy(e)), ("copy()", lambda: e.copy()),
                     ("replace_expr({})", lambda: e.replace_expr({})), ("visit(identity)", lambda: e.visit(lambda x: x)),
                     ("copy.copy", lambda: copy.copy(e))):
        try:
            back = fn()
        except Exception as ex:     # noqa
            return "%s raises %s: %s" % (what, type(ex).__name__, str(ex)[:100])
        if back is not e:
            return "%s gives another object (%s)" % (what, ascii(repr(back))[:100])
    if fields(e) != before:
        return "a round trip modified the expression: %r -> %r" % (before, fields(e))
    return None


class ExprCases(BoundedContract):
    BOUND = "corpus of props/C08.py: all node kinds, widths 1..256, special-character identifiers, depth <= 3"
    CASE_SECONDS = 20

    def funcs(self):
        fs = [Expr.get_object, Expr.__eq__, Expr.__hash__, Expr.__repr__, Expr.copy, Expr.__deepcopy__, Expr.replace_expr, Expr.visit,
              str_to_expr]
        for cls in (ExprInt, ExprId, ExprLoc, ExprMem, ExprAssign, ExprCond, ExprSlice, ExprCompose, ExprOp):
            fs += [cls.__new__, cls.__init__, cls.__reduce__, cls._exprhash, cls._exprrepr]
        return fs

    def cases(self):
        return corpus(self.tier)

    def show(self, case):
        return ascii(repr(case[0]))[:300]

    def check(self, case):
        why = check_expr(case)
        e = case[0]
        return (why is None, why or "", not (e.is_int() or (e.is_id() and e.name.isalnum())))


class PairCases(BoundedContract):
    BOUND = "all pairs of a ~600-expression sub-corpus"

    def funcs(self):
        return [Expr.get_object, Expr.__eq__, Expr.__hash__]

    def cases(self):
        c = corpus("quick")
        view = c[::2] if self.tier == "quick" else c        # (object, components it was built from)
        return [(i, view) for i in range(len(view))]

    def my_cases(self):
        cs = self.cases()
        return [(i, c) for i, c in enumerate(cs) if i % self.nchunks == self.chunk]

    def show(self, case):
        i, view = case
        return "pairs of %s with the rest of the corpus" % ascii(repr(view[i][0]))[:200]

    def check(self, case):
        i, view = case
        e, fe = view[i]
        table = {}
        for (x, fx) in view:
            table[x] = fx
        for (x, fx) in view:
            same = fx == fe
            if (x is e) != same:
                return (False, "%s and %s: components %s but %s object" % (
                    ascii(repr(e))[:100], ascii(repr(x))[:100], "equal" if same else "differ", "another" if same else "the same"), True)
            if (x == e) != same or (x != e) == same:
                return (False, "%s == %s answers %r although the components %s" % (
                    ascii(repr(e))[:100], ascii(repr(x))[:100], x == e, "are equal" if same else "differ"), True)
        if table[e] != fe:
            return (False, "dictionary lookup of %s returns the entry of another expression" % ascii(repr(e))[:100], True)
        return (True, "", True)


def targets(tier):
    return chunked(ExprCases, "C08/expr-contracts", 8, tier) + chunked(PairCases, "C08/pairs", 8, tier)
