"""C09 -- Possible-values enumeration covers exactly the concrete value (expression_helper.possible_values)."""
import itertools
import time

import z3

from miasm.expression.expression import ExprCompose, ExprCond, ExprId, ExprInt, ExprMem, ExprOp, ExprSlice
from miasm.expression.expression_helper import (CondConstraintNotZero, CondConstraintZero, possible_values)

from harness.tv import chunks
from vc import spec

PROPERTY = {
    "id": "C09",
    "level": "translation_validation",
    "engine": "tv",
    "technique": "validation under contract: the real possible_values is run on every shape of a family and its output is "
                 "proved complete and exact for ALL assignments by z3 against SPEC",
    "explanation": "Contract of possible_values(e): for every assignment rho (a) some alternative has all its constraints true "
                   "under rho, (b) every alternative whose constraints are all true evaluates to [[e]]rho. The real function "
                   "is executed on each expression of a family with conditionals nested in operands (1-3 of them), slices, "
                   "compositions, memory pointers, condition positions and branches (depth <= 3); its output (alternatives = "
                   "constraint sets + value expressions) is translated with SPEC and both clauses are proved by z3 for ALL "
                   "values of the identifiers and memory (not sampled assignments). Family bounded; assignments unbounded.",
    "trusted_base": ["SPEC (vc/spec.py)", "z3 bit-vector theory", "finite family of expression shapes (depth <= 3)"],
    "assumptions": ["constraints are read as: CondConstraintZero(x) <=> [[x]] == 0, CondConstraintNotZero(x) <=> [[x]] != 0",
                    "expressions without locations/assignments; zero divisors excluded"],
}

W = 32


def family(tier):
    a, b, c, d = [ExprId(n, W) for n in "abcd"]
    f, g = ExprId("f", 1), ExprId("g", 1)
    k = ExprInt(5, W)
    conds = [ExprCond(f, a, b), ExprCond(g, c, k), ExprCond(a, b, c), ExprCond(ExprOp("==", a, b), c, d),
             ExprCond(ExprCond(f, a, b), c, d), ExprCond(f, ExprCond(g, a, b), c), ExprCond(f, a, ExprCond(g, b, c)),
             ExprCond(f, ExprCond(f, a, b), c), ExprCond(ExprOp("<s", a, k), a, ExprOp("-", a))]
    out = list(conds)
    plain = [a, k, ExprOp("+", a, b)]
    ops2 = ["+", "*", "&", "<<", "a>>", "==", "<u", "udiv", "smod", ">>>"]
    for op in ops2:
        for x in conds:
            out += [ExprOp(op, x, a), ExprOp(op, a, x), ExprOp(op, x, x)]
        for x, y in itertools.product(conds[:5], repeat=2):
            out.append(ExprOp(op, x, y))
    for x, y, z in itertools.product(conds[:3], repeat=3):
        out.append(ExprOp("+", x, y, z))
    for x in conds:
        out += [ExprSlice(x, 0, 8), ExprSlice(x, 8, 32), ExprMem(x, 32), ExprMem(x, 8), ExprOp("-", x), ExprOp("parity", x),
                ExprOp("zeroExt_64", x), ExprCompose(ExprSlice(x, 0, 16), ExprSlice(x, 16, 32)), ExprCompose(x, x),
                ExprCompose(a, x), ExprMem(ExprOp("+", x, k), 16), ExprSlice(ExprMem(x, 32), 0, 8)]
        for y in conds[:4]:
            out += [ExprCompose(x, y), ExprCond(f, x, y), ExprCond(x, y, a), ExprCond(ExprOp("==", x, y), a, b),
                    ExprOp("+", ExprSlice(ExprCompose(x, y), 8, 40), ExprOp("zeroExt_32", f)) if False else ExprCompose(ExprSlice(x, 0, 8), y)]
    for x in conds[:4]:
        out += [ExprOp("+", ExprMem(x, 32), ExprSlice(ExprCompose(x, a), 16, 48)), ExprMem(ExprMem(x, 32), 32),
                ExprOp("^", ExprOp("+", x, a), ExprOp("&", x, b))]
    seen, res = set(), []
    for e in out:
        if e not in seen:
            seen.add(e)
            res.append(e)
    if tier == "quick":
        res = res[::2] + res[1::6]
    return res


class PVTarget(object):
    kind = "tv"

    def __init__(self, tid, exprs):
        self.id = tid
        self.exprs = exprs
        self.min_obligations = 1
        self.params = {"shapes": len(exprs)}
        self.bound = None

    def check_one(self, e):
        try:
            alts = list(possible_values(e))
        except Exception as ex:     # noqa
            return [("no-raise", "refuted", "raises %s: %s" % (type(ex).__name__, ex), {})]
        env = spec.Env(spec.BV)
        want, w = spec.sem(e, env)
        ndiv = len(env.divisors)
        covers = []
        out = []
        side = [d != z3.BitVecVal(0, dw) for d, dw in env.divisors]
        for alt in alts:
            cs = []
            for c in alt.constraints:
                v, cw = spec.sem(c.expr, env)
                if isinstance(c, CondConstraintZero):
                    cs.append(v == z3.BitVecVal(0, cw))
                elif isinstance(c, CondConstraintNotZero):
                    cs.append(v != z3.BitVecVal(0, cw))
                else:
                    return [("constraint-kind", "refuted", "unknown constraint %r" % (c,), {})]
            hold = z3.And(*cs) if cs else z3.BoolVal(True)
            covers.append(hold)
            val, vw = spec.sem(alt.value, env)
            if vw != w:
                out.append(("exact", "refuted", "alternative %s has width %d, expression %d" % (alt.value, vw, w), {}))
                continue
            s = z3.Solver()
            s.set("rlimit", 30000000)
            s.add(*side)
            s.add(hold, val != want)
            r = s.check()
            if r == z3.unsat:
                out.append(("exact", "discharged", "", {}))
            elif r == z3.sat:
                m = s.model()
                out.append(("exact", "refuted", "alternative %s with satisfied constraints %r differs" % (alt.value, list(alt.constraints)),
                            dict((str(k), m[k].as_long()) for k in m.decls() if hasattr(m[k], "as_long"))))
            else:
                out.append(("exact", "undecided", s.reason_unknown(), {}))
        s = z3.Solver()
        s.set("rlimit", 30000000)
        s.add(*side)
        s.add(z3.Not(z3.Or(*covers)) if covers else z3.BoolVal(True))
        r = s.check()
        if r == z3.unsat:
            out.append(("complete", "discharged", "", {}))
        elif r == z3.sat:
            m = s.model()
            out.append(("complete", "refuted", "no alternative has all its constraints satisfied",
                        dict((str(k), m[k].as_long()) for k in m.decls() if hasattr(m[k], "as_long"))))
        else:
            out.append(("complete", "undecided", s.reason_unknown(), {}))
        return out

    def run_custom(self, findings, seed):
        from vc import loader
        t0 = time.time()
        res = {"id": self.id, "kind": "tv", "params": self.params, "bound": None, "functions": [], "paths": 0,
               "obligations": 0, "discharged": 0, "refuted": [], "undecided": [], "unsupported": None, "engine_error": None,
               "known": [], "backends": {}, "samples": [], "solver_time": 0.0, "covers": [],
               "extra_coverage": {"programs": 0, "disagreements_checked": 0}}
        h = loader.func_text_hash(possible_values)
        h["name"] = "miasm.expression.expression_helper:possible_values"
        res["functions"].append(h)
        for i, e in enumerate(self.exprs):
            res["extra_coverage"]["programs"] += 1
            for (label, st, why, model) in self.check_one(e):
                res["obligations"] += 1
                oid = "%s/%d/%s" % (self.id, i, label)
                if st == "discharged":
                    res["discharged"] += 1
                    res["backends"]["z3-bv"] = res["backends"].get("z3-bv", 0) + 1
                    if len(res["samples"]) < 2:
                        res["samples"].append({"expression": str(e), "obligation": oid, "verdict": "proved for all assignments"})
                elif st == "undecided":
                    res["undecided"].append({"obligation": oid, "reason": why, "goal": str(e)})
                else:
                    res["extra_coverage"]["disagreements_checked"] += 1
                    res["refuted"].append({"obligation": oid, "model": model, "backend": "z3-bv",
                                           "replay": {"status": "fails", "detail": why}, "goal": str(e), "pc": []})
        res["solver_time"] = time.time() - t0
        res["wall"] = time.time() - t0
        return res

    def replay_custom(self, rp):
        i = int(rp["obligation"].split("/")[-2])
        r = self.check_one(self.exprs[i])
        bad = [x for x in r if x[1] == "refuted"]
        return {"status": "fails" if bad else "passes", "detail": bad[:1], "failed": []}


def targets(tier):
    fam = family(tier)
    return [PVTarget("C09/possible_values/chunk%d" % i, ch) for i, ch in enumerate(chunks(fam, 16))]
