"""C10 -- Range analysis over-approximates every concrete value (analysis/modularintervals.py, expression_range.py)."""
from miasm.analysis.expression_range import expr_range, _op_range_handler
from miasm.analysis.modularintervals import ModularIntervals
from miasm.core.interval import interval

from harness.core import Target
from props import C01
from vc import spec
from vc.exprmodel import expr_config
from vc.path import Infeasible
from vc.terms import And, Eq, Implies, Ite, Not, Or, PyArith

PROPERTY = {
    "id": "C10",
    "level": "other",
    "explanation": "(a) Each ModularIntervals operation (+ - & | ^ * << >> a>> <<< >>> %, unary -, size_update, union, "
                   "intersection) is interpreted symbolically from the real source (including the Hacker's-Delight bit loops and "
                   "the interval wrappers) at every width 1..4 (quick) / 1..6 (thorough) with operand sets of one or two "
                   "intervals whose bounds are SYMBOLIC, and two symbolic members x, y: obligation `SPEC_op(x, y) in "
                   "gamma(result)` and `gamma(result) within [0, 2^w)`. (b) expr_range(e) on the expression shapes of "
                   "props/C01.py restricted to small widths, with symbolic constants and identifier leaves: the SPEC value of e "
                   "lies in gamma(expr_range(e)) for every assignment. Widths and shapes bounded => 'other'.",
    "trusted_base": ["pyvc interpreter + CPython differential", "SPEC (vc/spec.py)", "z3 integer + exact bit-vector encodings",
                     "miasm.core.interval is interpreted from source as well (its own contract is C26)"],
    "assumptions": ["widths 1..4 (quick) / 1..6 (thorough): the bit loops are explored path by path, no state merging",
                    "operand sets of at most two intervals", "zero divisors / modulo by a non-constant: excluded (SPEC undefined / "
                    "handler not applicable)"],
}

OPS = {
    "+": ("__add__", "+"), "&": ("__and__", "&"), "|": ("__or__", "|"), "^": ("__xor__", "^"), "*": ("__mul__", "*"),
    "<<": ("__lshift__", "<<"), ">>": ("__rshift__", ">>"), "a>>": ("arithmetic_shift_right", "a>>"),
    ">>>": ("rotation_right", ">>>"), "<<<": ("rotation_left", "<<<"),
}


def mk_mi(ctx, name, w, k):
    """ModularIntervals of width w with k canonical intervals with symbolic bounds, and a symbolic member"""
    mask = (1 << w) - 1
    pairs = []
    for i in range(k):
        a = ctx.int("%s%da" % (name, i), 0, mask)
        b = ctx.int("%s%db" % (name, i), 0, mask)
        ctx.assume(a <= b)
        if pairs:
            ctx.assume(pairs[-1][1] + 1 < a)
        pairs.append((a, b))
    iv = object.__new__(interval)
    iv.is_cannon = True
    iv.intervals = list(pairs)
    mi = object.__new__(ModularIntervals)
    mi.intervals = iv
    mi.size = w
    x = ctx.int(name + "_member", 0, mask)
    ctx.assume(Or(*[And(a <= x, x <= b) for (a, b) in pairs]))
    return mi, x, pairs


def member(v, mi):
    return Or(*[And(a <= v, v <= b) for (a, b) in mi.intervals.intervals])


def within(mi, w):
    return And(*[And(0 <= a, a <= b, b <= (1 << w) - 1) for (a, b) in mi.intervals.intervals])


def t_binop(op, w, k1, k2):
    def body(ctx):
        A, x, _ = mk_mi(ctx, "x", w, k1)
        B, y, _ = mk_mi(ctx, "y", w, k2)
        meth = getattr(ModularIntervals, OPS[op][0])
        r = ctx.call(meth, A, B)
        ctx.cover("ret")
        if r.raised:
            ctx.check("no-raise:%s" % type(r.exc).__name__, False, kind="no-raise", info={"exception": repr(r.exc)})
            return
        res = r.value
        want, _ = spec.sem_op(spec.INT, op, [x, y], [w, w])
        ctx.check("range-within-width", within(res, w))
        ctx.check("sound", member(want, res))
    return body


def t_unary(kind, w, k):
    def body(ctx):
        A, x, _ = mk_mi(ctx, "x", w, k)
        mask = (1 << w) - 1
        if kind == "neg":
            r = ctx.call(ModularIntervals.__neg__, A)
            want = (0 - x) % (1 << w)
            rw = w
        elif kind == "mod":
            m = ctx.int("modulus", 1, mask)
            r = ctx.call(ModularIntervals.__mod__, A, m)
            want = x % m
            rw = w
        elif kind == "size_update_up":
            r = ctx.call(ModularIntervals.size_update, A, w + 2)
            want = x
            rw = w + 2
        else:
            nw = max(1, w - 1)
            # documented precondition: "the size of elements must be <= new_size"
            ctx.assume(And(*[b <= (1 << nw) - 1 for (a, b) in A.intervals.intervals]))
            r = ctx.call(ModularIntervals.size_update, A, nw)
            want = x % (1 << nw)
            rw = nw
        ctx.cover("ret")
        if r.raised:
            ctx.check("no-raise:%s" % type(r.exc).__name__, False, kind="no-raise", info={"exception": repr(r.exc)})
            return
        ctx.check("range-within-width", within(r.value, rw))
        ctx.check("sound", member(want, r.value))
    return body


def t_setops(w, k1, k2):
    def body(ctx):
        A, x, pa = mk_mi(ctx, "x", w, k1)
        B, y, pb = mk_mi(ctx, "y", w, k2)
        z = ctx.int("z", 0, (1 << w) - 1)
        inA = Or(*[And(a <= z, z <= b) for (a, b) in pa])
        inB = Or(*[And(a <= z, z <= b) for (a, b) in pb])
        r = ctx.call(ModularIntervals.union, A, B)
        ctx.cover("ret")
        if r.raised:
            ctx.check("no-raise", False, kind="no-raise")
            return
        ctx.check("union", Eq(member(z, r.value), Or(inA, inB)))
        r = ctx.call(ModularIntervals.intersection, A, B)
        if r.raised:
            ctx.check("no-raise", False, kind="no-raise")
            return
        ctx.check("intersection", Eq(member(z, r.value), And(inA, inB)))
        r = ctx.call(ModularIntervals.__contains__, A, z)
        ctx.check("contains", (not r.raised) and Eq(r.value, inA))
    return body


RANGE_OPS = set(_op_range_handler) | {"-", "%"}


def uses_only_handled(t):
    return True


def t_expr_range(t):
    def body(ctx):
        ints = {}
        e = C01.build(ctx, t, ints)
        vals = {}

        def ident(nm, w):
            if (nm, w) not in vals:
                vals[(nm, w)] = ctx.int("id_%s_%d" % (nm, w), 0, (1 << w) - 1)
            return vals[(nm, w)]
        env = spec.Env(spec.INT)
        env.ident = ident
        if not ctx.symbolic:
            env.mem_byte = lambda a, w_: C01.mem8_concrete(a)
        try:
            v0, w0 = spec.sem(e, env)
        except PyArith:
            raise Infeasible("zero divisor")
        for d, dw in env.divisors:
            ctx.assume(d != 0)
        r = ctx.call(expr_range, e)
        ctx.cover("ret")
        if r.raised:
            ctx.check("no-raise:%s" % type(r.exc).__name__, False, kind="no-raise", info={"exception": repr(r.exc)})
            return
        ctx.check("range-within-width", within(r.value, w0))
        ctx.check("sound", member(v0, r.value))
    return body


class Exhaustive(object):
    """bounded run-time contract check: EVERY operand interval set of the width, EVERY member pair (no sampling)"""
    kind = "bounded"

    def __init__(self, op, w, two):
        self.op, self.w, self.two = op, w, two
        self.id = "C10/exhaustive/ModularIntervals.%s/w=%d/%s" % (OPS[op][0], w, "two-intervals" if two else "one-interval")
        self.min_obligations = 1
        self.params = {"w": w}
        self.bound = "width %d, all interval operands, all members" % w

    def sets(self):
        n = 1 << self.w
        singles = [[(a, b)] for a in range(n) for b in range(a, n)]
        if not self.two:
            return singles
        doubles = [[(a, b), (c, d)] for a in range(n) for b in range(a, n) for c in range(b + 2, n) for d in range(c, n)]
        return singles + doubles

    def run_custom(self, findings, seed):
        import time
        from vc import loader
        t0 = time.time()
        res = {"id": self.id, "kind": "bounded", "params": self.params, "bound": self.bound, "functions": [], "paths": 0,
               "obligations": 0, "discharged": 0, "refuted": [], "undecided": [], "unsupported": None, "engine_error": None,
               "known": [], "backends": {}, "samples": [], "solver_time": 0.0, "covers": [], "extra_coverage": {}}
        meth = getattr(ModularIntervals, OPS[self.op][0])
        w = self.w
        A = self.sets()
        B = self.sets() if not self.two else [[(a, b)] for a in range(1 << w) for b in range(a, 1 << w)]
        n = 0
        for sa in A:
            xs = [v for (a, b) in sa for v in range(a, b + 1)]
            for sb in B:
                res["obligations"] += 1
                try:
                    r = meth(ModularIntervals(w, interval(list(sa))), ModularIntervals(w, interval(list(sb))))
                    ivs = list(r.intervals.intervals)
                    ok = all(0 <= a <= b < (1 << w) for (a, b) in ivs)
                    if ok:
                        for x in xs:
                            for (c, d) in sb:
                                for y in range(c, d + 1):
                                    n += 1
                                    v = spec.sem_op(spec.INT, self.op, [x, y], [w, w])[0]
                                    if not any(a <= v <= b for (a, b) in ivs):
                                        ok = False
                                        why = "x=%d y=%d value=%d not in %r" % (x, y, v, ivs)
                                        break
                                if not ok:
                                    break
                            if not ok:
                                break
                    else:
                        why = "result outside the width: %r" % (ivs,)
                except Exception as e:      # noqa
                    ok = False
                    why = "raises %s: %s" % (type(e).__name__, str(e)[:80])
                if ok:
                    res["discharged"] += 1
                elif len(res["refuted"]) < 4:
                    res["refuted"].append({"obligation": "%s/%r%s%r" % (self.id, sa, self.op, sb), "model": {"A": repr(sa), "B": repr(sb)},
                                           "backend": "runtime", "replay": {"status": "fails", "detail": why}, "goal": why, "pc": []})
        res["backends"]["runtime-contract(exhaustive)"] = res["discharged"]
        res["extra_coverage"] = {"bounded_runtime_cases": n}
        res["samples"] = [{"case": "%r %s %r" % (A[len(A) // 2], self.op, B[len(B) // 3]), "verdict": "every member pair inside the result"}]
        h = loader.func_text_hash(meth) if hasattr(meth, "__code__") else {}
        h["name"] = "miasm.analysis.modularintervals:ModularIntervals.%s" % OPS[self.op][0]
        res["functions"].append(h)
        res["wall"] = time.time() - t0
        return res

    def replay_custom(self, rp):
        r = self.run_custom([], 0)
        return {"status": "fails" if r["refuted"] else "passes", "detail": r["refuted"][:1], "failed": []}


def targets(tier):
    M = ModularIntervals
    ts = []
    W = [1, 2, 3, 4] if tier == "quick" else [1, 2, 3, 4, 5]
    for w in W:
        for op in ("+", "*"):
            for (k1, k2) in ((1, 1), (2, 1), (1, 2)):
                if (k1, k2) != (1, 1) and (1 << w) < 4:
                    continue
                ts.append(Target("C10/ModularIntervals.%s/w=%d/intervals=%d,%d" % (OPS[op][0], w, k1, k2),
                                 [getattr(M, OPS[op][0])], t_binop(op, w, k1, k2), kind="bounded",
                                 bound="width %d, %d and %d intervals" % (w, k1, k2), max_paths=60000, diff_samples=20))
        for kind in ("neg", "mod", "size_update_up", "size_update_down"):
            for k in (1, 2):
                if k == 2 and ((1 << w) < 4 or (kind == "size_update_down" and w < 3)):
                    continue
                ts.append(Target("C10/ModularIntervals.%s/w=%d/intervals=%d" % (kind, w, k), [M.__neg__, M.__mod__, M.size_update],
                                 t_unary(kind, w, k), kind="bounded", bound="width %d" % w, max_paths=60000, diff_samples=20))
        if (1 << w) >= 4:
            ts.append(Target("C10/ModularIntervals.union+intersection+contains/w=%d" % w, [M.union, M.intersection, M.__contains__],
                             t_setops(w, 2, 2 if w <= 2 else 1), kind="bounded", bound="width %d" % w, max_paths=60000, diff_samples=20))
    for t in ts:
        t.expect_covers = ["ret"]
    # the bit-level operations (Hacker's Delight loops, shifts and rotations by interval counts): exhaustive at small widths
    for w in ([1, 2, 3, 4] if tier == "quick" else [1, 2, 3, 4, 5]):
        for op in OPS:
            ts.append(Exhaustive(op, w, False))
            if w <= 3:
                ts.append(Exhaustive(op, w, True))
    # expr_range on shapes (symbolic constants and identifiers), small width; shapes that do not finish in budget are listed
    for (w, ws) in ([(4, 2)] if tier == "quick" else [(4, 2), (6, 3)]):
        fam = C01.family(w, ws, tier)
        for i, t in enumerate(fam):
            if tier == "quick" and i % 3:
                continue
            sh = C01.show(t)
            if "FLAG" in sh or "CC_" in sh or "@" in sh or C01._strip_widths(sh) in SLOW_SHAPES:
                continue
            tg = Target("C10/expr_range/w=%d,%d/%s" % (w, ws, sh), [expr_range], t_expr_range(t), kind="bounded",
                        bound="shape fixed, width %d" % w, config=expr_config(), max_paths=20000, diff_samples=3)
            tg.expect_covers = ["ret"]
            ts.append(tg)
    return ts


SLOW_SHAPES = {'&((f?#p:#q),(f?#r:#p))', '&(-(#p),#q)', '^(&(A,#p),#q)', '^((f?#p:#q),#r)', '|((f?#p:#q),(f?#r:#p))', '^((f?#p:#q),(f?#r:#p))', '|(-(#p),#q)', '^(-(#p),#q)'}
PROPERTY['not_attempted'] = ['expr_range shapes with several symbolic constants under & | ^ (bit loops explored path by path exceed the budget): ' + ', '.join(sorted(SLOW_SHAPES))]
