"""C11 -- Expression pattern matching only reports genuine matches (expression.py: match_expr, test_set).

match_expr is purely structural (the only scalar test is equality of constants), so a symbolic treatment of constants adds
nothing over enumeration: the contract is checked at run time on the real function over an exhaustively enumerated grammar of
(expression, pattern) pairs -- a BOUNDED stand-in, labelled as such."""
import itertools

from miasm.expression.expression import (ExprCompose, ExprCond, ExprId, ExprInt, ExprMem, ExprOp, ExprSlice, match_expr,
                                         test_set)

from harness.bounded import BoundedContract, chunked

PROPERTY = {
    "id": "C11",
    "level": "exploration",
    "engine": "bounded-contract",
    "technique": "bounded stand-in: run-time contract check of the real match_expr over an exhaustively enumerated grammar",
    "explanation": "Contract of match_expr(expr, pattern, jokers): on success every joker occurring in the pattern is bound to "
                   "an expression of the joker's width, and substituting the bindings into the pattern yields the matched "
                   "expression up to argument order of commutative operators; an initial binding dictionary is extended, never "
                   "contradicted. Checked on the real function for EVERY pair (expression, pattern) of an enumerated grammar "
                   "(depth <= 2; operators + (2 and 3 operands), ^, <<, unary -, ==; conditions, slices, compositions of 1-3 "
                   "parts, memory reads; identifiers, the constants 0/1 and two jokers; widths 8 and 1). Bounded: exploration, "
                   "not proof.",
    "rule": "one case = one (expression, pattern) pair of the grammar; non-trivial = match_expr reported a match",
    "trusted_base": ["CPython executes the real function; the contract (substitute-and-compare modulo commutativity) is written "
                     "independently in props/C11.py"],
    "assumptions": ["grammar depth <= 2, two jokers, widths 8 and 1", "a unification failure returns False; partial bindings "
                    "left in a caller-supplied dictionary after a failed match are not part of the statement"],
}

W = 8
a, b = ExprId("a", W), ExprId("b", W)
J, K = ExprId("J", W), ExprId("K", W)
c1 = ExprId("c", 1)
J1 = ExprId("J1", 1)
JOKERS = [J, K, J1]
E_LEAVES = [a, b, ExprInt(0, W), ExprInt(1, W)]
P_LEAVES = E_LEAVES + [J, K]


def level1(leaves, cond_leaves):
    out = []
    for x, y in itertools.product(leaves, repeat=2):
        out += [ExprOp("+", x, y), ExprOp("^", x, y), ExprOp("<<", x, y), ExprCompose(x, y)]
    for x, y, z in itertools.product(leaves[:3] + leaves[4:5], repeat=3):
        out.append(ExprOp("+", x, y, z))
    for x in leaves:
        out += [ExprOp("-", x), ExprSlice(x, 0, 4), ExprSlice(x, 4, 8), ExprSlice(x, 2, 4), ExprMem(x, 8), ExprMem(x, 16), ExprCompose(x)]
        for y in leaves[:3] + leaves[4:]:
            for c in cond_leaves:
                out.append(ExprCond(c, x, y))
    for x, y, z in itertools.product(leaves[:2] + leaves[4:5], repeat=3):
        out.append(ExprCompose(x, y, z))
    seen, res = set(), []
    for e in out:
        if e not in seen:
            seen.add(e)
            res.append(e)
    return res


def level2(l1, leaves):
    out = []
    sub = [e for e in l1 if e.size == W][::7]
    for s in sub:
        for x in leaves[:2] + leaves[4:]:
            out += [ExprOp("+", s, x), ExprOp("+", x, s), ExprOp("^", s, x), ExprOp("-", s)]
    return out


def norm(e):
    """normal form modulo argument order of commutative operators"""
    if e.is_op():
        args = [norm(x) for x in e.args]
        if e.is_commutative():
            args = sorted(args, key=repr)
        return ("op", e.op, e.size) + tuple(args)
    if e.is_cond():
        return ("cond", norm(e.cond), norm(e.src1), norm(e.src2))
    if e.is_slice():
        return ("slice", norm(e.arg), e.start, e.stop)
    if e.is_compose():
        return ("compose",) + tuple(norm(x) for x in e.args)
    if e.is_mem():
        return ("mem", norm(e.ptr), e.size)
    return ("leaf", repr(e))


def jokers_in(p):
    out = set()

    def v(x):
        if x in JOKERS:
            out.add(x)
        return x
    p.visit(v)
    return out


class MatchCases(BoundedContract):
    BOUND = "expressions and patterns of depth <= 2 over the grammar of props/C11.py"

    def funcs(self):
        return [match_expr, test_set]

    def cases(self):
        e1 = level1(E_LEAVES, [c1, a])
        p1 = level1(P_LEAVES, [c1, J1, J])
        exprs = E_LEAVES + e1 + level2(e1, E_LEAVES)
        pats = P_LEAVES + [J1] + p1 + level2(p1, P_LEAVES)
        if self.tier == "quick":
            exprs, pats = exprs[::2] + exprs[1::7], pats[::2] + pats[1::7]
        pairs = []
        for e in exprs:
            ne = type(e)
            for p in pats:
                # pairs that cannot match for a trivial reason (different node class, not a joker) are still enumerated at a
                # reduced rate so that the "no match" side is covered too
                if p in JOKERS or type(p) is ne:
                    pairs.append((e, p, None))
                elif (hash((repr(e), repr(p))) % 17) == 0:
                    pairs.append((e, p, None))
        # pre-bound dictionaries
        for e in exprs[:60]:
            for p in pats[:80]:
                if J in jokers_in(p):
                    pairs.append((e, p, {J: a}))
        return pairs

    def show(self, case):
        e, p, init = case
        return "match_expr(%s, %s, jokers%s)" % (e, p, "" if init is None else ", %r" % (init,))

    def check(self, case):
        e, p, init = case
        init_copy = None if init is None else dict(init)
        r = match_expr(e, p, JOKERS, None if init is None else dict(init))
        if r is False:
            return (True, "", False)
        if r is True:
            # test_set on a non-joker leaf answers True for "equal": no binding needed
            return (norm(e) == norm(p) and not jokers_in(p), "answered True although the pattern has jokers or differs", True)
        if not isinstance(r, dict):
            return (False, "returned %r" % (r,), True)
        for j in jokers_in(p):
            if j not in r:
                return (False, "joker %s occurs in the pattern but is not bound" % j, True)
            if r[j].size != j.size:
                return (False, "joker %s (%d bits) bound to %s (%d bits)" % (j, j.size, r[j], r[j].size), True)
        if init_copy:
            for k, v in init_copy.items():
                if r.get(k) != v:
                    return (False, "initial binding %s=%s contradicted (%s)" % (k, v, r.get(k)), True)
        try:
            sub = p.replace_expr(dict((j, r[j]) for j in jokers_in(p)))
        except Exception as ex:     # noqa
            return (False, "substituting the bindings raises %r" % (ex,), True)
        if norm(sub) != norm(e):
            return (False, "substituting %r into the pattern gives %s, not %s" % (r, sub, e), True)
        return (True, "", True)


def targets(tier):
    return chunked(MatchCases, "C11/match_expr", 16, tier)
