"""C12 -- Symbolic execution is a sound abstraction of concrete execution (ir/symbexec.py: SymbolicExecutionEngine)."""
import itertools
import time

import z3

from miasm.core.locationdb import LocationDB
from miasm.expression.expression import ExprCompose, ExprCond, ExprId, ExprInt, ExprMem, ExprOp, ExprSlice
from miasm.ir.ir import AssignBlock, IRBlock
from miasm.ir.symbexec import SymbolicExecutionEngine

from vc import spec

PROPERTY = {
    "id": "C12",
    "claimed": True,
    "level": "translation_validation",
    "engine": "tv",
    "technique": "validation under contract: the real SymbolicExecutionEngine is run on every IR program of a bounded family; the "
                 "final symbolic state, instantiated with SPEC, is proved equal to a reference concrete executor for ALL "
                 "initial register values and memory contents (z3)",
    "explanation": "Contract of eval_updt_irblock / eval_updt_assignblk / eval_expr: after executing a sequence of IR blocks "
                   "symbolically, substituting any concrete initial state into the resulting register expressions, memory cells "
                   "and next destination gives exactly the registers, memory bytes and destination obtained by executing the "
                   "same blocks on that concrete state, each block being a PARALLEL assignment (all sources and destination "
                   "pointers read the state before the block). The real engine is executed on every program of a family "
                   "(blocks of 1-3 assignments from a pool of register moves, arithmetic, flag and condition computations, "
                   "memory loads and stores of 8/16/32 bits through register+constant, register+register and absolute "
                   "pointers, read-after-write and swap patterns, memory-to-memory copies with adjacent and overlapping cells "
                   "read back unaligned; sequences of 1-3 blocks); equality with the reference executor "
                   "(z3 arrays, little endian) is proved for ALL initial values. Programs bounded; states unbounded.",
    "trusted_base": ["SPEC (vc/spec.py)", "z3 bit-vector / array theory", "the reference executor in props/C12.py"],
    "assumptions": ["the documented non-aliasing proviso, enforced BY CONSTRUCTION of the family (within_proviso): every pointer "
                    "used by a program is a sum of distinct initial pointer registers plus a small constant; the four registers "
                    "are assumed to hold addresses in regions 0x01/0x02/0x04/0x08 << 24 (+0x1000), so pointers built on "
                    "different symbolic bases are >= ~2^24 apart and pointers on the same base are compared by exact offset",
                    "programs of the pools that use any other pointer (loaded from memory, shifted, a register added twice) are "
                    "outside the proviso for some initial state and are not part of the family (17% of the generated programs)",
                    "memory destinations of one block do not overlap",
                    "programs bounded: <= 3 blocks of <= 3 assignments from POOL (sampled for 2 and 3 blocks) plus every sequence of "
                    "<= 3 one-assignment blocks from MEMPOOL; final state observed on all registers, the destination and 27 "
                    "memory probes of 8/16/32 bits"],
}

EAX, EBX, ECX, EDX = [ExprId(n, 32) for n in ("EAX", "EBX", "ECX", "EDX")]
IRDST = ExprId("IRDst", 32)
ZF = ExprId("zf", 1)
REGS = [EAX, EBX, ECX, EDX, IRDST, ZF]


class FakeLifter(object):
    addrsize = 32
    IRDst = IRDST

    def __init__(self):
        self.loc_db = LocationDB()


def I(v, w=32):
    return ExprInt(v, w)


POOL = [
    (EAX, EBX + I(1)),
    (EBX, EAX),
    (EAX, EAX + ECX),
    (ECX, ExprMem(EBX + I(4), 32)),
    (EDX, ExprMem(EAX, 8).zeroExtend(32)),
    (ExprMem(EBX + I(4), 32), EAX),
    (ExprMem(EBX + I(5), 8), ECX[0:8]),
    (ExprMem(ECX, 32), EDX),
    (ExprMem(EBX + I(6), 16), EAX[0:16]),
    (ExprMem(I(0x1000), 32), EBX),
    (EAX, ExprMem(I(0x1002), 32)),
    (ZF, ExprOp("FLAG_EQ_CMP", EAX, EBX)),
    (IRDST, ExprCond(ZF, I(0x10), I(0x20))),
    (EBX, ExprCond(ExprOp("<s", EAX, ECX), EAX, ECX + EDX)),
    (EDX, ExprMem(EBX + ECX + I(8), 32) ^ EDX),
    (ExprMem(EBX + ECX + I(8), 32), ExprCompose(EDX[0:16], EAX[0:16])),
    (ECX, ExprOp("<<", ECX, I(3)) + ExprMem(EBX + I(2), 16).zeroExtend(32)),
    (IRDST, EAX),
]


# memory-centric assignments: every sequence of <= 3 one-assignment blocks over this pool is part of the family (memory-to-memory
# copies with adjacent sources and destinations, overlapping and unaligned stores and loads on one base)
MEMPOOL = [
    (ExprMem(EBX + I(8), 32), ExprMem(EAX, 32)),
    (ExprMem(EBX + I(12), 32), ExprMem(EAX + I(4), 32)),
    (ExprMem(EBX + I(10), 16), ECX[0:16]),
    (ExprMem(EBX + I(11), 8), ExprMem(EAX + I(1), 8)),
    (ExprMem(EBX + I(6), 32), EDX),
    (EDX, ExprMem(EBX + I(10), 32)),
    (ECX, ExprMem(EBX + I(11), 16).zeroExtend(32)),
    (ExprMem(EAX + I(2), 16), ExprMem(EBX + I(9), 16)),
    (EAX, EAX + I(4)),
]


def mem_range(dst):
    return (str(dst.ptr), dst.size)


def block_ok(assigns):
    dsts = [d for d, _ in assigns]
    if len(set(dsts)) != len(dsts):
        return False
    mems = [d for d in dsts if d.is_mem()]
    # at most one store per base pointer expression family in a block (no overlapping destinations)
    bases = []
    for m in mems:
        b = str(m.ptr).split(" + 0x")[0]
        if b in bases:
            return False
        bases.append(b)
    return True


def blocks(tier):
    out = [[a] for a in POOL]
    for a, b in itertools.combinations(POOL, 2):
        if block_ok([a, b]):
            out.append([a, b])
    k = 0
    for t in itertools.combinations(POOL, 3):
        k += 1
        if k % (13 if tier == "quick" else 3) == 0 and block_ok(list(t)):
            out.append(list(t))
    return out


def abstract(e, regs):
    """value of e as {initial register: coefficient} + constant, or None when it is anything else (loaded from memory, flag,
    condition, shift, xor...)"""
    if e.is_int():
        return ({}, int(e))
    if e.is_id():
        return regs.get(e)
    if e.is_op("+"):
        coeffs, const = {}, 0
        for a in e.args:
            v = abstract(a, regs)
            if v is None:
                return None
            for r, c in v[0].items():
                coeffs[r] = coeffs.get(r, 0) + c
            const += v[1]
        return (coeffs, const & 0xFFFFFFFF)
    return None


def pointers_of(e, out):
    if e.is_mem():
        out.append(e.ptr)
        pointers_of(e.ptr, out)
    elif e.is_op() or e.is_compose():
        for a in e.args:
            pointers_of(a, out)
    elif e.is_cond():
        pointers_of(e.cond, out), pointers_of(e.src1, out), pointers_of(e.src2, out)
    elif e.is_slice():
        pointers_of(e.arg, out)


def within_proviso(prog):
    """The property holds 'provided memory addresses built on different symbolic bases do not alias'.  The family is kept inside
    that proviso BY CONSTRUCTION: every pointer used by the program must be a sum of DISTINCT initial pointer registers plus a
    small constant.  With the four registers assumed in regions 0x01/0x02/0x04/0x08 << 24 (Ref.assumptions) different sets of
    registers give addresses at least ~2^24 apart, so two accesses alias only if they are built on the same symbolic base, where
    the engine compares offsets exactly.  A program using any other pointer (loaded from memory, shifted, a register added
    twice...) is outside the proviso for some initial states and is not part of the family."""
    regs = dict((r, ({r: 1}, 0)) for r in (EAX, EBX, ECX, EDX))
    for assigns in prog:
        ptrs = []
        for dst, src in assigns:
            pointers_of(src, ptrs)
            pointers_of(dst, ptrs)
        for ptr in ptrs:
            v = abstract(ptr, regs)
            if v is None or any(c != 1 for c in v[0].values()) or not (v[1] < 0x800 or v[1] >= 0xFFFFF800 or not v[0]):
                return False
        new = dict(regs)
        for dst, src in assigns:
            if dst.is_id():
                new[dst] = abstract(src, regs)
        regs = new
    return True


def programs(tier):
    progs = all_programs(tier)
    for n in (1, 2, 3):
        for seq in itertools.product(MEMPOOL, repeat=n):
            progs.append([[a] for a in seq])
    if tier == "thorough":
        for seq in itertools.product(MEMPOOL, repeat=4):
            if hash(tuple(map(str, seq))) % 5 == 0:
                progs.append([[a] for a in seq])
    return [p for p in progs if within_proviso(p)]


def all_programs(tier):
    bl = blocks(tier)
    progs = [[b] for b in bl]
    k = 0
    step2 = 7 if tier == "quick" else 2
    for a in bl:
        for b in bl:
            k += 1
            if k % step2 == 0:
                progs.append([a, b])
    k = 0
    step3 = 1201 if tier == "quick" else 173
    small = bl[:len(POOL) + 40]
    for a in small:
        for b in small:
            for c in small:
                k += 1
                if k % step3 == 0:
                    progs.append([a, b, c])
    return progs


class Ref(object):
    """reference concrete executor over z3 values: registers + one byte array (32-bit addresses), little endian"""

    def __init__(self):
        self.env = spec.Env(spec.BV)
        self.mem0 = z3.Array("mem_32", z3.BitVecSort(32), z3.BitVecSort(8))
        self.env.mems[32] = self.mem0
        self.regs0 = dict((r, self.env.ident(r.name, r.size)) for r in REGS)
        self.regs = dict(self.regs0)
        self.mem = self.mem0

    def cur_env(self):
        e = spec.Env(spec.BV)
        e.mems[32] = self.mem
        regs = self.regs

        def ident(name, w):
            for r, v in regs.items():
                if r.name == name and r.size == w:
                    return v
            return self.env.ident(name, w)
        e.ident = ident
        return e

    def exec_block(self, assigns):
        e = self.cur_env()
        new_regs = dict(self.regs)
        stores = []
        for dst, src in assigns:
            v, w = spec.sem(src, e)
            if dst.is_mem():
                a, _ = spec.sem(dst.ptr, e)
                stores.append((a, v, w))
            else:
                new_regs[dst] = v
        mem = self.mem
        for a, v, w in stores:
            for i in range(w // 8):
                mem = z3.Store(mem, a + z3.BitVecVal(i, 32), z3.Extract(8 * i + 7, 8 * i, v))
        self.regs, self.mem = new_regs, mem

    def assumptions(self):
        r = self.regs0
        out = []
        for reg, base in ((EAX, 0x01000000), (EBX, 0x02000000), (ECX, 0x04000000), (EDX, 0x08000000)):
            out.append(z3.ULE(z3.BitVecVal(base, 32), r[reg]))
            out.append(z3.ULT(r[reg], z3.BitVecVal(base + 0x1000, 32)))
        return out


PROBES = [EBX + I(9), EBX + I(10), EBX + I(11), EBX + I(12), EBX + I(13), EBX + I(14), EAX + I(1), EAX + I(2), EAX + I(4), EAX + I(6),
          EBX + I(4), EBX + I(5), EBX + I(6), EBX + I(7), EBX + I(8), EBX + I(2), EBX + I(3), ECX, ECX + I(3), EAX, I(0x1000), I(0x1002),
          I(0x1003), I(0x1005), EBX + ECX + I(8), EBX + ECX + I(11), EBX + I(1)]


def equal_under(assume, a, b):
    if a.size() != b.size():
        return "width %d vs %d" % (a.size(), b.size())
    d = z3.simplify(a != b)
    if z3.is_false(d):
        return None
    s = z3.Solver()
    s.set("rlimit", 40000000)
    s.add(*assume)
    s.add(d)
    r = s.check()
    if r == z3.unsat:
        return None
    if r == z3.sat:
        return "differs: %s" % (str(s.model())[:240],)
    return "unknown"


class ProgTarget(object):
    kind = "tv"

    def __init__(self, tid, progs):
        self.id = tid
        self.progs = progs
        self.min_obligations = 1
        self.params = {"programs": len(progs)}
        self.bound = "sequences of <= 3 blocks of <= 3 assignments"

    def run_prog(self, prog):
        out = []
        lifter = FakeLifter()
        eng = SymbolicExecutionEngine(lifter)
        ref = Ref()
        loc = lifter.loc_db.add_location()
        dst = None
        for assigns in prog:
            irb = IRBlock(lifter.loc_db, loc, [AssignBlock(dict(assigns))])
            dst = eng.eval_updt_irblock(irb)
            ref.exec_block(assigns)
        assume = ref.assumptions()
        env0 = ref.env
        for r in REGS:
            got, w = spec.sem(eng.symbols.read(r), env0)
            why = equal_under(assume, got, ref.regs[r])
            out.append(("register %s" % r, why is None, why or ""))
        got, w = spec.sem(dst, env0)
        why = equal_under(assume, got, ref.regs[IRDST])
        out.append(("destination", why is None, why or ""))
        for p in PROBES:
            a0, _ = spec.sem(p, env0)
            for size in (8, 16, 32):
                got, w = spec.sem(eng.symbols.read(ExprMem(p.canonize(), size)), env0)
                want = z3.Concat(*[z3.Select(ref.mem, a0 + z3.BitVecVal(i, 32)) for i in reversed(range(size // 8))]) \
                    if size > 8 else z3.Select(ref.mem, a0)
                why = equal_under(assume, got, want)
                out.append(("memory @%d[%s]" % (size, p), why is None, why or ""))
        return out

    def run_custom(self, findings, seed):
        from vc import loader
        t0 = time.time()
        res = {"id": self.id, "kind": "tv", "params": self.params, "bound": self.bound, "functions": [], "paths": 0,
               "obligations": 0, "discharged": 0, "refuted": [], "undecided": [], "unsupported": None, "engine_error": None,
               "known": [], "backends": {}, "samples": [], "solver_time": 0.0, "covers": [],
               "extra_coverage": {"programs": 0, "disagreements_checked": 0}}
        E = SymbolicExecutionEngine
        for f in (E.eval_expr_visitor, E.eval_exprid, E.eval_exprmem, E.eval_exprcond, E.eval_exprslice, E.eval_exprop,
                  E.eval_exprcompose, E.eval_expr, E.eval_assignblk, E.apply_change, E.eval_updt_assignblk, E.eval_updt_irblock,
                  E.mem_read, E.mem_write):
            h = loader.func_text_hash(f)
            h["name"] = "%s:%s" % (f.__module__, f.__qualname__)
            res["functions"].append(h)
        for i, prog in enumerate(self.progs):
            res["extra_coverage"]["programs"] += 1
            desc = " || ".join("{" + "; ".join("%s = %s" % a for a in blk) + "}" for blk in prog)
            try:
                results = self.run_prog(prog)
            except Exception as ex:     # noqa
                results = [("engine-no-raise", False, "raises %s: %s" % (type(ex).__name__, ex))]
            bad = [r for r in results if not r[1]]
            res["obligations"] += len(results)
            res["discharged"] += len(results) - len(bad)
            if bad:
                res["extra_coverage"]["disagreements_checked"] += 1
                if all("unknown" in b[2] for b in bad):
                    res["undecided"].append({"obligation": "%s/%d/%s" % (self.id, i, bad[0][0]), "reason": bad[0][2], "goal": desc})
                elif len(res["refuted"]) < 6:
                    b0 = [b for b in bad if "unknown" not in b[2]][0]
                    res["refuted"].append({"obligation": "%s/%d/%s" % (self.id, i, b0[0]), "model": {"program": desc, "index": i},
                                           "backend": "z3-bv", "replay": {"status": "fails", "detail": b0[2]},
                                           "goal": ("%s: %s" % (b0[0], b0[2]))[:400], "pc": []})
            elif len(res["samples"]) < 2 and len(prog) >= 2:
                res["samples"].append({"program": desc, "verdict": "%d state components proved equal for all initial states" % len(results)})
        res["backends"]["z3-bv"] = res["discharged"]
        res["solver_time"] = time.time() - t0
        res["wall"] = time.time() - t0
        return res

    def replay_custom(self, rp):
        i = int(rp["model"]["index"])
        r = self.run_prog(self.progs[i])
        bad = [x for x in r if not x[1]]
        return {"status": "fails" if bad else "passes", "detail": bad[:1], "failed": []}


def targets(tier):
    ps = programs(tier)
    n = 48
    return [ProgTarget("C12/programs/chunk%d" % i, ps[i::n]) for i in range(n) if ps[i::n]]
