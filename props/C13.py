"""C13 -- Symbolic memory behaves as a little-endian byte store (ir/symbexec.py: MemArray, MemSparse, SymbolMngr)."""
import itertools
import time

import z3

from miasm.expression.expression import ExprCompose, ExprId, ExprInt, ExprMem, ExprOp, ExprSlice
from miasm.ir.symbexec import MemArray, MemSparse, SymbolMngr, get_expr_base_offset

from vc import spec

PROPERTY = {
    "id": "C13",
    "level": "translation_validation",
    "engine": "tv",
    "technique": "validation under contract: the real SymbolMngr/MemSparse/MemArray are driven through every history of a "
                 "bounded family and every read result is proved equal to a byte-store model for ALL values by z3 + SPEC",
    "explanation": "Contract: view bytes: (base, offset) -> 8-bit value; write(ptr, x) sets bytes[(off+i) mod 2^n] = byte i of "
                   "[[x]] (little endian, wrapping at the end of the address space) and nothing else; read(ptr, size) returns an "
                   "expression whose SPEC value is the little-endian concatenation of the current bytes (original memory cells "
                   "where never written); deleting a stored region restores the original cells; exporting the state and "
                   "importing it into a fresh store preserves every read. The real code is executed on every operation "
                   "history of the family (<= 2 operations exhaustively, 3 sampled; writes of 8/16/32 bits of identifiers, "
                   "constants and original-memory values, deletions; offsets around 0 and around the wrap point of an 8-bit "
                   "address space; symbolic, integer and compound bases) and each of the 20 reads afterwards is proved equal to "
                   "the model for ALL identifier values and memory contents. Histories bounded; values unbounded.",
    "trusted_base": ["SPEC (vc/spec.py)", "z3 bit-vector / array theory", "the byte-store model in props/C13.py"],
    "assumptions": ["addresses built on different symbolic bases do not alias (the property's own proviso)",
                    "address space of 8 bits so that wrap-around is reachable; byte-aligned accesses",
                    "histories of at most 3 operations"],
}

AW = 8
MASK = (1 << AW) - 1
B = ExprId("B", AW)
C = ExprId("C", AW)
X32, Y16, Z8, T64 = ExprId("X", 32), ExprId("Y", 16), ExprId("Z", 8), ExprId("T", 64)
OFFS = [0, 1, 2, 0xFD, 0xFF]


def ptr(base, off):
    if base == "int":
        return ExprInt(off, AW)
    b = B if base == "B" else (B + C)
    if off == 0:
        return b
    return (b + ExprInt(off, AW)).canonize()


def values():
    return [X32, Y16, Z8, ExprInt(0x11223344, 32), ExprMem(ptr("B", 1), 32), ExprMem(ptr("B", 0xFF), 16),
            ExprCompose(Z8, ExprSlice(X32, 8, 16)), ExprMem(ptr("B", 0), 8)]


def operations(base):
    ops = []
    for off in OFFS:
        for v in values():
            ops.append(("write", base, off, v))
        ops.append(("delete", base, off, 32))
        ops.append(("delete", base, off, 8))
        ops.append(("delete_partial", base, off, 16))
    return ops


def histories(tier):
    ops = operations("B")
    hs = [()]
    hs += [(o,) for o in ops]
    hs += [(a, b) for a in ops for b in ops]
    k = 0
    step = 31 if tier == "quick" else 5
    for a in ops[::3]:
        for b in ops[::2]:
            for c in ops:
                k += 1
                if k % step == 0:
                    hs.append((a, b, c))
    if tier == "quick":
        hs = hs[:1 + len(ops)] + hs[1 + len(ops)::2]
    # other bases: integer pointers and a compound base, plus interleaving with B (no aliasing between bases)
    for base in ("int", "BC"):
        o2 = operations(base)
        hs += [(o,) for o in o2[::2]]
        hs += [(a, b) for a in o2[::5] for b in o2[::7]]
        hs += [(a, b) for a in ops[::9] for b in o2[::9]]
    return hs


class Model(object):
    """independent byte-store model over SPEC values"""

    def __init__(self, env):
        self.env = env
        self.bytes = {}

    def orig(self, base, off):
        v, _ = spec.sem(ExprMem(ptr(base, off), 8), self.env)
        return v

    def get(self, base, off):
        return self.bytes.get((base, off & MASK), None)

    def write(self, base, off, value):
        v, w = spec.sem(value, self.env)
        for i in range(w // 8):
            o = (off + i) & MASK
            byte = z3.simplify(z3.Extract(8 * i + 7, 8 * i, v))
            if z3.eq(byte, z3.simplify(self.orig(base, o))):
                # writing back the original content of the cell: the cell is simply "not stored" again
                self.bytes.pop((base, o), None)
            else:
                self.bytes[(base, o)] = byte

    def delete(self, base, off, size, partial):
        offs = [(off + i) & MASK for i in range(size // 8)]
        if not partial and not all((base, o) in self.bytes for o in offs):
            return False
        for o in offs:
            self.bytes.pop((base, o), None)
        return True

    def read(self, base, off, size):
        parts = []
        for i in range(size // 8):
            o = (off + i) & MASK
            b = self.bytes.get((base, o))
            parts.append(b if b is not None else self.orig(base, o))
        return z3.Concat(*reversed(parts)) if len(parts) > 1 else parts[0]


def equal_for_all(a, b):
    if a.size() != b.size():
        return "width"
    d = z3.simplify(a != b)
    if z3.is_false(d):
        return None
    s = z3.Solver()
    s.set("rlimit", 20000000)
    s.add(d)
    r = s.check()
    if r == z3.unsat:
        return None
    if r == z3.sat:
        return "differs: %s" % (str(s.model())[:200],)
    return "unknown"


class HistTarget(object):
    kind = "tv"

    def __init__(self, tid, hists):
        self.id = tid
        self.hists = hists
        self.min_obligations = 1
        self.params = {"histories": len(hists)}
        self.bound = "histories of <= 3 operations"

    def run_history(self, h):
        """-> list of (label, ok, why)"""
        out = []
        env = spec.Env(spec.BV)
        model = Model(env)
        mngr = SymbolMngr(addrsize=AW)
        for (kind, base, off, arg) in h:
            p = ptr(base, off)
            if kind == "write":
                mngr.write(ExprMem(p, arg.size), arg)
                model.write(base, off, arg)
            else:
                partial = kind == "delete_partial"
                try:
                    if partial:
                        mngr.symbols_mem.delete_partial(ExprMem(p, arg))
                        ok_real = True
                    else:
                        del mngr[ExprMem(p, arg)]
                        ok_real = True
                except KeyError:
                    ok_real = False
                if partial and not any(bk[0] == base for bk in model.bytes) and not ok_real:
                    ok_model = False        # no store for that base at all: KeyError is the documented answer
                else:
                    ok_model = model.delete(base, off, arg, partial)
                if ok_real != ok_model:
                    out.append(("delete-accepts-iff-fully-present", False, "%s: real %s, model %s" % (kind, ok_real, ok_model)))
                    return out
        bases = sorted(set(op[1] for op in h) | {"B"})
        stores = [("direct", mngr)]
        # export / import into a fresh store
        try:
            fresh = SymbolMngr(addrsize=AW)
            for k, v in mngr.items():
                fresh.write(k, v)
            stores.append(("after-export-import", fresh))
            stores.append(("copy", mngr.copy()))
        except Exception as ex:     # noqa
            out.append(("export-import", False, "raises %s: %s" % (type(ex).__name__, ex)))
        for name, st in stores:
            for base in bases:
                for off in OFFS:
                    for size in (8, 16, 32, 64):
                        try:
                            r = st.read(ExprMem(ptr(base, off), size))
                            got, w = spec.sem(r, env)
                        except Exception as ex:     # noqa
                            out.append(("read(%s)" % name, False, "read @%d[%s+%#x] raises %s: %s" % (size, base, off, type(ex).__name__, ex)))
                            continue
                        want = model.read(base, off, size)
                        why = equal_for_all(got, want) if w == size else "width %d" % w
                        out.append(("read(%s)" % name, why is None, "" if why is None else
                                    "read @%d[%s+%#x] = %s : %s" % (size, base, off, r, why)))
        return out

    def run_custom(self, findings, seed):
        from vc import loader
        t0 = time.time()
        res = {"id": self.id, "kind": "tv", "params": self.params, "bound": self.bound, "functions": [], "paths": 0,
               "obligations": 0, "discharged": 0, "refuted": [], "undecided": [], "unsupported": None, "engine_error": None,
               "known": [], "backends": {}, "samples": [], "solver_time": 0.0, "covers": [],
               "extra_coverage": {"programs": 0, "disagreements_checked": 0}}
        for f in (MemArray.read, MemArray.write, MemArray.memory, MemArray._get_variable_parts, MemArray._build_value_at_offset,
                  MemArray.offset_to_ptr, MemSparse.read, MemSparse.write, MemSparse.__delitem__, MemSparse.delete_partial,
                  SymbolMngr.read, SymbolMngr.write, SymbolMngr.__delitem__, get_expr_base_offset):
            h = loader.func_text_hash(f)
            h["name"] = "%s:%s" % (f.__module__, f.__qualname__)
            res["functions"].append(h)
        known = [f for f in findings if f.get("status", "known") == "known" and self.id.startswith(f["target"])]
        for i, h in enumerate(self.hists):
            res["extra_coverage"]["programs"] += 1
            try:
                results = self.run_history(h)
            except Exception as ex:     # noqa
                results = [("history-no-raise", False, "raises %s: %s" % (type(ex).__name__, ex))]
            bad = [r for r in results if not r[1]]
            res["obligations"] += len(results)
            res["discharged"] += len(results) - len(bad)
            if bad:
                res["extra_coverage"]["disagreements_checked"] += 1
                desc = " ; ".join("%s %s+%#x %s" % (o[0], o[1], o[2], o[3]) for o in h)
                hit = None
                for f in known:
                    try:
                        if eval(f["witness"], {"__builtins__": {}}, {"history": desc, "why": bad[0][2], "label": bad[0][0]}):
                            hit = f
                    except Exception:
                        pass
                if hit is not None:
                    res["known"].append({"finding": hit["id"], "obligation": "%s/%d" % (self.id, i), "model": {"history": desc},
                                         "replay": "fails"})
                    res["obligations"] -= len(bad)
                elif "unknown" in bad[0][2]:
                    res["undecided"].append({"obligation": "%s/%d/%s" % (self.id, i, bad[0][0]), "reason": bad[0][2], "goal": desc})
                elif len(res["refuted"]) < 6:
                    res["refuted"].append({"obligation": "%s/%d/%s" % (self.id, i, bad[0][0]), "model": {"history": desc, "index": i},
                                           "backend": "z3-bv", "replay": {"status": "fails", "detail": bad[0][2]},
                                           "goal": bad[0][2][:300], "pc": []})
            elif len(res["samples"]) < 2 and len(h) >= 2:
                res["samples"].append({"history": " ; ".join("%s %s+%#x %s" % (o[0], o[1], o[2], o[3]) for o in h),
                                       "verdict": "%d reads proved equal to the byte-store model for all values" % len(results)})
        res["backends"]["z3-bv"] = res["discharged"]
        res["solver_time"] = time.time() - t0
        res["wall"] = time.time() - t0
        return res

    def replay_custom(self, rp):
        i = int(rp["model"]["index"])
        r = self.run_history(self.hists[i])
        bad = [x for x in r if not x[1]]
        return {"status": "fails" if bad else "passes", "detail": bad[:1], "failed": []}


def targets(tier):
    hs = histories(tier)
    n = 32
    k = (len(hs) + n - 1) // n
    return [HistTarget("C13/histories/chunk%d" % i, hs[i * k:(i + 1) * k]) for i in range(n) if hs[i * k:(i + 1) * k]]
