"""C14 -- lifted IR is well-formed for every decodable instruction (arch/*/sem.py, ir/ir.py, core/sembuilder.py).

Quantifies over every decodable instruction of ten architectures behind table-driven decoders: outside the Python subset of pyvc.
Bounded stand-in, labelled: for every byte string of a seeded family (random bytes at random addresses, every architecture and
mode) that the real decoder accepts, the real lifter (Lifter.add_instr_to_ircfg) either reports the instruction as unsupported
(NotImplementedError, or the look-up of the mnemonic in the semantics table failing) or produces IR blocks that satisfy the
structural contract, checked here on the produced objects."""
import random
import re

from harness.bounded import BoundedContract, chunked

PROPERTY = {
    "id": "C14",
    "level": "exploration",
    "engine": "bounded-contract",
    "technique": "bounded stand-in: run-time contract check of the real decoders and lifters of every architecture over a seeded family "
                 "of random byte strings and addresses; the structural contract of the produced IR is checked on the real objects",
    "explanation": "For every architecture and mode (x86 16/32/64, ARM l/b, Thumb, AArch64 l/b, MIPS32 l/b, PowerPC, MSP430, MeP l/b) and "
                   "every 16-byte random string the decoder accepts at a random address: Lifter.add_instr_to_ircfg either raises "
                   "NotImplementedError / fails the look-up of the mnemonic in the semantics table (reported as unsupported), or "
                   "produces blocks in which (1) both sides of every assignment have the same width, (2) every destination is an "
                   "ExprId or ExprMem, (3) the next destination IRDst is assigned exactly once per block with the width of the "
                   "program counter, (4) every identifier belongs to the architecture's register set (or is IRDst), and (5) the "
                   "IR graph has an edge to every location among the possible values of the block's destination. Any other "
                   "exception raised by the lifter is a violation (tagged with architecture, mnemonic and exception type). "
                   "Bounded: exploration, not proof. Deductive layer (counted separately, unbounded): ir.slice_rest, the helper "
                   "AssignBlock._set uses to widen an assignment to a sliced destination to the full register, is executed symbolically "
                   "(pyvc, z3) for every size, start <= stop: it raises ValueError iff the slice leaves the register, and otherwise "
                   "returns pieces that lie inside the register, outside the slice, are pairwise disjoint and whose lengths plus the "
                   "slice's add up to the register size (so the rebuilt source is as wide as the register).",
    "rule": "one case = one architecture / mode, one chunk of 250 byte strings and one group of failure classes (the classes of one known finding of that architecture, or every other class)",
    "trusted_base": ["CPython executes the real decoders and lifters; the sampling and the structural checks are written in "
                     "props/C14.py"],
    "assumptions": ["seeded family: 14 architectures / modes x 40 chunks x 250 strings quick (x 400 chunks thorough)",
                    "curated family: every vector of test/arch/{x86,arm,aarch64,mips32,ppc32,msp430}/arch.py (read with ast) and all its boundary variants (last 1 / 2 / 4 / 8 bytes replaced by limits of every narrower width)",
                    "an instruction the decoder refuses is not a case"],
}

ARCHS = [("x86_16", 16), ("x86_32", 32), ("x86_64", 64), ("arml", "l"), ("armb", "b"), ("armtl", "l"), ("aarch64l", "l"), ("aarch64b", "b"),
         ("mips32l", "l"), ("mips32b", "b"), ("ppc32b", "b"), ("msp430", None), ("mepl", "l"), ("mepb", "b")]
_M = {}


def machine(name):
    if name not in _M:
        from miasm.analysis.machine import Machine
        _M[name] = Machine(name)
    return _M[name]


CONDS = ("EQ", "NE", "CS", "CC", "MI", "PL", "VS", "VC", "HI", "LS", "GE", "LT", "GT", "LE")


def family(name):
    """class tags are per architecture (x86: per mode), not per endianness"""
    for f in ("aarch64", "armt", "arm", "mips32", "ppc32", "mep", "x86"):
        if name.startswith(f):
            return f
    return name


def base_mnemo(name, ins):
    """class tags name the mnemonic without its condition: ARM LDRDCC -> LDRD, STRCCB -> STRB (the condition is the one the
    decoder recorded), Thumb and PowerPC conditional branches -> Bcc, Thumb IT blocks -> IT"""
    u = ins.name.upper()
    if name.startswith("armt"):
        if u.startswith("IT") and set(u[2:]) <= set("TE"):
            return "IT"
        if u == "B" or (len(u) == 3 and u[0] == "B" and u[1:] in CONDS):
            return "Bcc"
        return u
    if name.startswith("arm"):
        cond = getattr(getattr(ins, "additional_info", None), "cond", None)
        if cond is not None and cond < len(CONDS) and len(u) > 2:
            k = u.rfind(CONDS[cond], 1)
            if k > 0:
                return u[:k] + u[k + 2:]
        return u
    if name.startswith("ppc32") and u.startswith("B") and not u.startswith("BC"):
        return "Bcc"
    return u


_REGS = {}


def arch_regs(name):
    """every identifier the architecture's regs module defines (all_regs_ids, the initial values, and the register banks)"""
    if name not in _REGS:
        from miasm.expression.expression import ExprId
        regs = machine(name).mn.regs
        out = set()
        for v in vars(regs).values():
            if isinstance(v, ExprId):
                out.add(v)
            elif isinstance(v, (list, tuple)):
                out.update(x for x in v if isinstance(x, ExprId))
            elif isinstance(getattr(v, "expr", None), (list, tuple)):
                out.update(x for x in v.expr if isinstance(x, ExprId))
        _REGS[name] = out
    return _REGS[name]


def check_one(name, attrib, data, addr):
    """-> None (not decodable) | '-' (reported as unsupported) | '' (well-formed IR) | violation text ending with a class tag [kind:family:mnemonic:what]"""
    from miasm.core.bin_stream import bin_stream_str
    from miasm.core.locationdb import LocationDB
    from miasm.expression.expression_helper import possible_values
    m = machine(name)
    mn = m.mn
    try:
        ins = mn.dis(bin_stream_str(data, base_address=addr), attrib, addr)
    except Exception:       # noqa
        return None
    if ins is None:
        return None
    loc_db = LocationDB()
    lifter = m.lifter(loc_db)
    ircfg = lifter.new_ircfg()
    mnemo = ins.name
    fam, base = family(name), base_mnemo(name, ins)
    what = "%s `%s` (%s) at %#x" % (name, ins, data[:ins.l].hex(), addr)
    try:
        lifter.add_instr_to_ircfg(ins, ircfg)
    except NotImplementedError:
        return "-"
    except KeyError as ex:
        if ex.args and isinstance(ex.args[0], str) and ex.args[0].lower().split(".")[0] in (mnemo.lower(), mnemo.lower().split(".")[0]) or (
                ex.args and isinstance(ex.args[0], str) and ex.args[0].lower() == mnemo.lower()):
            return "-"          # no semantics for this mnemonic: an unsupported report
        return "%s: the lifter raises KeyError(%r) [lift:%s:%s:KeyError]" % (what, ex.args[0] if ex.args else None, fam, base)
    except ValueError as ex:
        if str(ex).startswith("unknown mnemo"):
            return "-"
        return "%s: the lifter raises ValueError: %s [lift:%s:%s:ValueError]" % (what, str(ex)[:80], fam, base)
    except Exception as ex:     # noqa
        return "%s: the lifter raises %s: %s [lift:%s:%s:%s]" % (what, type(ex).__name__, str(ex)[:80], fam, base, type(ex).__name__)
    allregs = arch_regs(name)
    for lk, blk in ircfg.blocks.items():
        ndst = 0
        for ab in blk:
            for d, s in ab.items():
                if d.size != s.size:
                    return "%s: `%s = %s` has sides of %d and %d bits [ir:%s:%s:size]" % (what, d, str(s)[:80], d.size, s.size, fam, base)
                if not (d.is_id() or d.is_mem()):
                    return "%s: the destination %s is neither a register nor memory [ir:%s:%s:dst]" % (what, d, fam, base)
                if d == lifter.IRDst:
                    ndst += 1
                    if s.size != lifter.IRDst.size:
                        return "%s: IRDst is assigned %d bits [ir:%s:%s:irdst-size]" % (what, s.size, fam, base)
                for x in list(s.get_r(mem_read=True)) + (list(d.ptr.get_r(mem_read=True)) if d.is_mem() else [d]):
                    if x.is_id() and x not in allregs and x != lifter.IRDst:
                        return "%s: the identifier %s is not a register of the architecture [ir:%s:%s:foreign-id]" % (
                            what, x, fam, re.sub(r"^MM(8|9|1[0-5])$", "MM8-15", x.name))
        if ndst != 1:
            return "%s: block %s assigns IRDst %d times [ir:%s:%s:irdst-count]" % (what, loc_db.pretty_str(lk), ndst, fam, base)
        try:
            for pv in possible_values(blk.dst):
                v = pv.value
                if v.is_loc() and v.loc_key not in ircfg.successors(lk):
                    return "%s: block %s can go to %s but the graph has no such edge [ir:%s:%s:edge]" % (
                        what, loc_db.pretty_str(lk), loc_db.pretty_str(v.loc_key), fam, base)
        except Exception as ex:     # noqa
            return "%s: possible_values(IRDst) raises %s [ir:%s:%s:dst-values]" % (what, type(ex).__name__, fam, base)
    return ""


_GROUPS = {}


def known_groups(pid):
    """known findings of a property (known_findings.json): id -> (architecture family, set of class tags)"""
    if pid not in _GROUPS:
        import json
        import os
        d = json.load(open(os.path.join(os.path.dirname(os.path.abspath(__file__)), "..", "known_findings.json")))
        g = {}
        lim = {}
        for f in d["findings"]:
            if f.get("property") == pid and f.get("status", "known") == "known" and "tags" in f:
                g[f["id"]] = (f["family"], set(f["tags"]))
                lim.update(f.get("max_per_chunk", {}))
        g[""] = ("", set())
        _GROUPS[pid] = g
        _LIMITS[pid] = lim
    return _GROUPS[pid]


_LIMITS = {}


def split_failures(pid, fails, g):
    """the failures of one chunk that belong to the case of group g.  A class of a known finding is credited to that finding only
    up to twice the largest number of failures of the class recorded for one chunk (+3): a change that makes a listed mnemonic
    fail for many more inputs is reported by the '' case, as are the classes no finding lists."""
    import collections
    gs = known_groups(pid)
    lim = _LIMITS[pid]
    count = collections.Counter(t for t, _ in fails)
    excess = set(t for t, c in count.items() if t in lim and c > 2 * lim[t] + 3)
    if g:
        return [(t, w) for t, w in fails if t in gs[g][1] and t not in excess]
    known = set().union(*(ts for _, ts in gs.values()))
    out = [(t, w) for t, w in fails if t not in known]
    for t in sorted(excess):
        w = next(w for tt, w in fails if tt == t)
        out.append((t + ":frequency", "%d failures of the class %s in this chunk (the known finding records at most %d per chunk), e.g. %s" % (count[t], t, lim[t], w)))
    return out


def groups():
    return known_groups("C14")


_CHUNK = {}


def run_chunk(a, k):
    """-> (number of instructions lifted to IR, [(tag, text)]).  k = int: the 250 random byte strings of chunk k of architecture a;
    k = ('cur', j): the curated vectors 10j .. 10j+9 of test/arch/<arch>/arch.py and all their boundary variants (props/C15.py)"""
    if (a, k) not in _CHUNK:
        name, attrib = ARCHS[a]
        todo = []
        if isinstance(k, tuple):
            from props import C15
            for b in C15.curated(name)[C15.CUR_CHUNK * k[1]:C15.CUR_CHUNK * (k[1] + 1)]:
                data = b + bytes(16 - len(b)) if len(b) < 16 else b
                todo.append((data, 0x1000))
                todo += [(v, 0x1000) for v in C15.boundary_variants(data, len(b))]
        else:
            rng = random.Random(1400 + 1000 * a + k)
            for _ in range(250):
                data = bytes(rng.getrandbits(8) for _ in range(16))
                todo.append((data, rng.choice((0, 0x1000, 0x401000, 0x80001000))))
        fails = []
        n = 0
        for data, addr in todo:
            why = check_one(name, attrib, data, addr)
            if why is None or why == "-":
                continue
            n += 1
            if why:
                fails.append((why[why.rindex("[") + 1:-1], why[:why.rindex("[")].strip()))
        _CHUNK.clear()
        _CHUNK[(a, k)] = (n, fails)
    return _CHUNK[(a, k)]


class LiftCases(BoundedContract):
    BOUND = "seeded family of random byte strings and addresses, 14 architectures / modes (props/C14.py)"
    CASE_SECONDS = 300

    def funcs(self):
        from miasm.ir.ir import AssignBlock, IRBlock, Lifter
        return [Lifter.add_instr_to_ircfg, Lifter.instr2ir, AssignBlock._set, IRBlock.dst.fget]

    def cases(self):
        from props import C15
        n = 40 if self.tier == "quick" else 400
        out = []
        for a in range(len(ARCHS)):
            fam = family(ARCHS[a][0])
            gids = sorted(g for g, (f, _) in groups().items() if f == fam) + [""]
            ncur = (len(C15.curated(ARCHS[a][0])) + C15.CUR_CHUNK - 1) // C15.CUR_CHUNK
            ks = list(range(n)) + [("cur", j) for j in range(ncur)]
            out += [(a, k, g) for k in ks for g in gids]
        return out

    def show(self, case):
        return "%s %s%s" % (ARCHS[case[0]][0], "chunk %d" % case[1] if isinstance(case[1], int) else "curated vectors %d..%d and their boundary variants" % (
            10 * case[1][1], 10 * case[1][1] + 9), " (classes of %s)" % case[2] if case[2] else " (every other class)")

    def check(self, case):
        a, k, g = case
        n, fails = run_chunk(a, k)
        mine = split_failures("C14", fails, g)
        if not mine:
            return (True, "", n > 0)
        seen = {}
        for t, w in mine:
            seen.setdefault(t, w)
        return (False, "%d of the %d lifted instructions fail, in %d class(es): %s {tags: %s}" % (
            len(mine), n, len(seen), " ;; ".join(list(seen.values())[:4]), " ".join(sorted(seen))), n > 0)


class _Arg(object):
    def __init__(self, size):
        self.size = size

    def __repr__(self):
        return "<sliced expression>"


class _Slice(object):
    """stand-in for an ExprSlice destination: slice_rest reads .arg.size, .start and .stop only"""
    def __init__(self, size, start, stop):
        self.arg = _Arg(size)
        self.start = start
        self.stop = stop

    def __repr__(self):
        return "<slice>"


def _slice_rest_body(ctx):
    """deductive layer: AssignBlock._set keeps both sides of an assignment to a sliced destination as wide as the full register
    only if slice_rest returns exactly the complement of [start, stop) in [0, size) -- for every size, start and stop"""
    from miasm.ir import ir
    from vc.terms import And, Or
    size = ctx.int("size", 1, None, rnd_hi=128)
    start = ctx.int("start", 0, None, rnd_hi=140)
    stop = ctx.int("stop", 0, None, rnd_hi=140)
    ctx.assume(start <= stop)           # ExprSlice.__init__ asserts start < stop; the empty slice is handled by the function itself
    r = ctx.call(ir.slice_rest, _Slice(size, start, stop))
    if ctx.decide(And(start < size, stop <= size)):
        if r.raised:
            ctx.check("accepts-slice-inside-register", False, kind="no-raise")
            return
        ctx.cover("accepted")
        rest = list(r.value)
        total = stop - start
        for k, (lo, hi) in enumerate(rest):
            ctx.check("piece%d-inside-register" % k, And(lo >= 0, lo < hi, hi <= size))
            ctx.check("piece%d-outside-slice" % k, Or(start == stop, hi <= start, lo >= stop))
            for (lo2, hi2) in rest[k + 1:]:
                ctx.check("pieces-disjoint", Or(hi <= lo2, hi2 <= lo))
            total = total + (hi - lo)
        ctx.check("pieces-and-slice-cover-register", total == size)
    else:
        ctx.cover("rejected")
        ctx.check("rejects-slice-outside-register", r.raised and isinstance(r.exc, ValueError), kind="raises-post")


def proof_targets():
    from harness.core import Target
    from miasm.ir import ir
    t = Target("C14/slice_rest.complement", [ir.slice_rest], _slice_rest_body)
    t.expect_covers = ["accepted", "rejected"]
    return [t]


def targets(tier):
    return proof_targets() + chunked(LiftCases, "C14/lift", 16, tier)


