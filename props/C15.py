"""C15 -- every encoding proposed by the assembler decodes to the same instruction (core/cpu.py, arch/*/arch.py).

Quantifies over every decodable instruction of the table-driven decoders / encoders (metaclass-generated field tables): outside the
Python subset of pyvc.  Bounded stand-in, labelled: for every byte string of a seeded family (random bytes at random addresses, every
architecture and mode) that the real decoder accepts, the real assembler (cls_mn.asm) must propose at least one encoding, and every
proposed encoding must decode, with the length of the encoding, to an instruction with the same mnemonic, mode, operands and text."""
import random
import re

from harness.bounded import BoundedContract, chunked
from props.C14 import ARCHS, base_mnemo, family, known_groups, machine, split_failures

PROPERTY = {
    "id": "C15",
    "level": "exploration",
    "engine": "bounded-contract",
    "technique": "bounded stand-in: run-time contract check of the real decoders and assemblers of every architecture over a seeded family "
                 "of random byte strings and addresses; every proposed encoding is decoded again and compared",
    "explanation": "For every architecture and mode (x86 16/32/64, ARM l/b, Thumb, AArch64 l/b, MIPS32 l/b, PowerPC, MSP430, MeP l/b) and "
                   "every 16-byte random string the decoder accepts at a random address: mn.asm(instr) raises nothing and returns at "
                   "least one encoding; every returned encoding decodes (same mode, same address) to an instruction whose length is "
                   "the length of the encoding and whose mnemonic, mode, printed text and operand expressions equal those of the "
                   "original (the width of a constant operand or constant address is not compared: the address-size / operand-size alternates denote the same value). Failures are tagged with architecture, mnemonic and kind (exception type of asm, no encoding, "
                   "candidate undecodable / of another length / decoding to another instruction). Bounded: exploration, not proof. "
                   "Deductive layer (shape-bounded, labelled): cpu.sign_ext, with which the immediate encoders decide whether a value fits a "
                   "narrower field, is executed symbolically (pyvc, z3) for 14 (field width, operand width) shapes and every value: the "
                   "result keeps the low bits, copies the sign bit into the upper bits and fits the operand.",
    "rule": "one case = one architecture / mode, one chunk of 100 byte strings and one group of failure classes (the classes of one known finding of that architecture, or every other class)",
    "trusted_base": ["CPython executes the real decoders and assemblers; the sampling and the comparison are written in props/C15.py"],
    "assumptions": ["seeded family: 14 architectures / modes x 20 chunks quick (x 200 chunks thorough) x (100 random strings + the boundary variants of 5 of them: last 1 / 2 / 4 / 8 bytes replaced by 0, 1 and the signed / unsigned limits of every narrower width, both byte orders)",
                    "curated family: every vector of test/arch/{x86,arm,aarch64,mips32,ppc32,msp430}/arch.py (read with ast) and all its boundary variants",
                    "an instruction the decoder refuses is not a case"],
}


def canon(e):
    """structure of an operand with the width of every constant dropped (the address-size and operand-size alternates of x86
    print and denote the same constant address / target with different widths)"""
    if e.is_int():
        return ("int", int(e))
    if e.is_mem():
        return ("mem", e.size, canon(e.ptr))
    if e.is_op():
        return ("op", e.op) + tuple(canon(a) for a in e.args)
    return e


def same_operand(x, y):
    return x == y or canon(x) == canon(y)


def check_one(name, attrib, data, addr):
    """-> None (not decodable) | '' | violation text ending with a class tag [asm:family:mnemonic:kind]"""
    from miasm.core.bin_stream import bin_stream_str
    from miasm.core.locationdb import LocationDB
    mn = machine(name).mn
    try:
        ins = mn.dis(bin_stream_str(data, base_address=addr), attrib, addr)
    except Exception:       # noqa
        return None
    if ins is None:
        return None
    fam, base = family(name), base_mnemo(name, ins)
    what = "%s `%s` (%s) at %#x" % (name, ins, data[:ins.l].hex(), addr)
    try:
        cands = mn.asm(ins, LocationDB())
    except Exception as ex:     # noqa
        return "%s: asm raises %s: %s [asm:%s:%s:%s]" % (what, type(ex).__name__, str(ex)[:60], fam, base, type(ex).__name__)
    if not cands:
        return "%s: no encoding proposed [asm:%s:%s:none]" % (what, fam, base)
    for c in cands:
        try:
            i2 = mn.dis(bin_stream_str(c, base_address=addr), attrib, addr)
        except Exception as ex:     # noqa
            return "%s: the proposed encoding %s does not decode (%s) [asm:%s:%s:cand-undecodable]" % (what, c.hex(), type(ex).__name__, fam, base)
        if i2.l != len(c):
            return "%s: the proposed encoding %s decodes with length %d [asm:%s:%s:cand-length]" % (what, c.hex(), i2.l, fam, base)
        if i2.name != ins.name or i2.mode != ins.mode or str(i2) != str(ins) or len(i2.args) != len(ins.args) or any(
                not same_operand(x, y) for x, y in zip(i2.args, ins.args)):
            if fam == "x86" and re.search(r"\b[ABCD]H\b", str(ins)) and re.search(r"\b(SPL|BPL|SIL|DIL)\b", str(i2)):
                base = "high-byte-register"
            return "%s: the proposed encoding %s decodes to `%s`%s [asm:%s:%s:cand-differs]" % (
                what, c.hex(), i2, "" if str(i2) != str(ins) else " (same text, operands %s against %s)" % (
                    [repr(a) for a in i2.args], [repr(a) for a in ins.args]), fam, base)
    return ""


_CHUNK = {}


def boundary_variants(data, l, sizes=(1, 2, 4, 8)):
    """the instruction's bytes with its last 1 / 2 / 4 / 8 bytes (where an immediate or displacement usually sits) replaced by
    boundary values of every narrower width, in both byte orders"""
    out = []
    seen = set()
    for s in sizes:
        if s >= l:
            break
        vals = {0, 1}
        for w in (1, 2, 4, 8):
            if w <= s:
                vals |= {(1 << (8 * w - 1)) - 1, 1 << (8 * w - 1), (1 << (8 * w)) - 1}
        for v in sorted(vals):
            for order in ("little", "big"):
                b = data[:l - s] + v.to_bytes(s, order) + data[l:]
                if b not in seen and b[:l] != data[:l]:
                    seen.add(b)
                    out.append(b)
    return out


_CURATED = {}
CUR_FILES = {"x86": ("x86_16", "x86_32", "x86_64"), "arm": ("arml", "armtl"), "aarch64": ("aarch64l",), "mips32": ("mips32l", "mips32b"),
             "ppc32": ("ppc32b",), "msp430": ("msp430",)}


def curated(name):
    """the byte strings of the curated vectors of test/arch/<arch>/arch.py (read from the source with ast, not executed): for x86
    the vectors of the mode, elsewhere every vector of the architecture's file"""
    if not _CURATED:
        import ast
        import os
        import miasm
        root = os.path.join(os.path.dirname(os.path.dirname(os.path.abspath(miasm.__file__))), "test", "arch")
        for d, names in CUR_FILES.items():
            for n in names:
                _CURATED[n] = []
            try:
                tree = ast.parse(open(os.path.join(root, d, "arch.py")).read())
            except Exception:       # noqa
                continue
            for node in ast.walk(tree):
                if not isinstance(node, ast.Tuple) or len(node.elts) not in (2, 3):
                    continue
                last = node.elts[-1]
                if not (isinstance(last, ast.Constant) and isinstance(last.value, str) and re.fullmatch(r"([0-9a-fA-F]{2})+", last.value)):
                    continue
                if not (isinstance(node.elts[-2], ast.Constant) and isinstance(node.elts[-2].value, str)):
                    continue
                b = bytes.fromhex(last.value)
                if d == "x86":
                    if len(node.elts) == 3 and isinstance(node.elts[0], ast.Name) and node.elts[0].id in ("m16", "m32", "m64"):
                        _CURATED["x86_" + node.elts[0].id[1:]].append(b)
                else:
                    for n in names:
                        _CURATED[n].append(b)
    return _CURATED.get(name, [])


CUR_CHUNK = 10


def run_chunk(a, k):
    """-> (number of decoded instructions, [(tag, text)]).  k = int: 100 random strings, and for the first 5 decodable ones their
    boundary variants; k = ('cur', j): the curated vectors 10j .. 10j+9 of the architecture and all their boundary variants"""
    if (a, k) not in _CHUNK:
        from miasm.core.bin_stream import bin_stream_str
        name, attrib = ARCHS[a]
        mn = machine(name).mn
        fails = []
        n = 0
        todo = []
        if isinstance(k, tuple):
            for b in curated(name)[CUR_CHUNK * k[1]:CUR_CHUNK * (k[1] + 1)]:
                for addr in (0x1000,):
                    data = b + bytes(16 - len(b)) if len(b) < 16 else b
                    todo.append((data, addr))
                    todo += [(v, addr) for v in boundary_variants(data, len(b))]
        else:
            rng = random.Random(1500 + 1000 * a + k)
            nvar = 0
            for _ in range(100):
                data = bytes(rng.getrandbits(8) for _ in range(16))
                addr = rng.choice((0, 0x1000, 0x401000, 0x80001000))
                todo.append((data, addr))
                if nvar < 5:
                    try:
                        ins = mn.dis(bin_stream_str(data, base_address=addr), attrib, addr)
                        todo += [(v, addr) for v in boundary_variants(data, ins.l)]
                        nvar += 1
                    except Exception:       # noqa
                        pass
        for d, addr in todo:
            why = check_one(name, attrib, d, addr)
            if why is None:
                continue
            n += 1
            if why:
                fails.append((why[why.rindex("[") + 1:-1], why[:why.rindex("[")].strip()))
        _CHUNK.clear()
        _CHUNK[(a, k)] = (n, fails)
    return _CHUNK[(a, k)]


class AsmCases(BoundedContract):
    BOUND = "seeded family of random byte strings and addresses, 14 architectures / modes (props/C15.py)"
    CASE_SECONDS = 600

    def funcs(self):
        from miasm.core.cpu import cls_mn
        return [cls_mn.asm.__func__, cls_mn.dis.__func__, cls_mn.value, cls_mn.encodefields, cls_mn.filter_asm_candidates.__func__]

    def cases(self):
        n = 20 if self.tier == "quick" else 200
        out = []
        for a in range(len(ARCHS)):
            fam = family(ARCHS[a][0])
            gids = sorted(g for g, (f, _) in known_groups("C15").items() if f == fam) + [""]
            ncur = (len(curated(ARCHS[a][0])) + CUR_CHUNK - 1) // CUR_CHUNK
            ks = list(range(n)) + [("cur", j) for j in range(ncur)]
            out += [(a, k, g) for k in ks for g in gids]
        return out

    def show(self, case):
        return "%s %s%s" % (ARCHS[case[0]][0], "chunk %d" % case[1] if isinstance(case[1], int) else "curated vectors %d..%d and their boundary variants" % (
            CUR_CHUNK * case[1][1], CUR_CHUNK * case[1][1] + CUR_CHUNK - 1), " (classes of %s)" % case[2] if case[2] else " (every other class)")

    def check(self, case):
        a, k, g = case
        n, fails = run_chunk(a, k)
        mine = split_failures("C15", fails, g)
        if not mine:
            return (True, "", n > 0)
        seen = {}
        for t, w in mine:
            seen.setdefault(t, w)
        return (False, "%d of the %d decoded instructions fail, in %d class(es): %s {tags: %s}" % (
            len(mine), n, len(seen), " ;; ".join(list(seen.values())[:4]), " ".join(sorted(seen))), n > 0)


def _mk_sign_ext_target(s_in, s_out):
    def body(ctx):
        """deductive layer: cpu.sign_ext, which the immediate encoders use to decide whether a value fits a narrower field
        (v == sign_ext(v & mask, field, operand)): for the shape (s_in, s_out) and every v, the result is the two's complement
        sign extension of the low s_in bits of v to s_out bits"""
        from miasm.core import cpu
        from vc.terms import And, Or
        v = ctx.int("v", 0, (1 << (s_out + 8)) - 1)         # wider than the operand: the function masks its input
        r = ctx.call(cpu.sign_ext, v, s_in, s_out)
        if r.raised:
            ctx.check("no-raise", False, kind="no-raise")
            return
        ctx.cover("ret")
        low = v % (1 << s_in)
        ctx.check("fits-the-operand", And(r.value >= 0, r.value < (1 << s_out)))
        ctx.check("low-bits-kept", r.value % (1 << s_in) == low)
        ctx.check("upper-bits-copy-the-sign", Or(And(low < (1 << (s_in - 1)), r.value == low),
                                                 And(low >= (1 << (s_in - 1)), r.value == low + (1 << s_out) - (1 << s_in))))
    return body


def proof_targets():
    from harness.core import Target
    from miasm.core import cpu
    ts = []
    for s_in, s_out in ((8, 8), (8, 16), (8, 32), (8, 64), (16, 16), (16, 32), (16, 64), (32, 32), (32, 64), (64, 64), (1, 8), (5, 32), (21, 32), (26, 32)):
        t = Target("C15/sign_ext/%d-to-%d" % (s_in, s_out), [cpu.sign_ext], _mk_sign_ext_target(s_in, s_out),
                   kind="bounded", bound="14 (field width, operand width) shapes; the value is symbolic", params={"s_in": s_in, "s_out": s_out})
        t.expect_covers = ["ret"]
        ts.append(t)
    return ts


def targets(tier):
    return proof_targets() + chunked(AsmCases, "C15/asm", 16, tier)


