"""C16 -- instruction text parses back to the same instruction (core/cpu.py instruction.to_string / cls_mn.fromstring, arch/*/arch.py).

Quantifies over every decodable instruction and goes through pyparsing grammars and the metaclass-generated field tables: outside the
Python subset of pyvc and of both solvers' string theories.  Bounded stand-in, labelled: for every byte string of a seeded family (random
bytes at random addresses, every architecture and mode) that the real decoder accepts, the printed text is parsed by the real parser in the
same mode; the parsed instruction must print identically, and every encoding the real assembler proposes for it must decode to the
original instruction."""
import random
import re

from harness.bounded import BoundedContract, chunked
from props.C14 import ARCHS, base_mnemo, family, known_groups, machine, split_failures
from props.C15 import same_operand

PROPERTY = {
    "id": "C16",
    "level": "exploration",
    "engine": "bounded-contract",
    "technique": "bounded stand-in: run-time contract check of the real printers, parsers, assemblers and decoders of every architecture "
                 "over a seeded family of random byte strings and addresses",
    "explanation": "For every architecture and mode (x86 16/32/64, ARM l/b, Thumb, AArch64 l/b, MIPS32 l/b, PowerPC, MSP430, MeP l/b) and "
                   "every 16-byte random string the decoder accepts at a random address: mn.fromstring(str(instr), loc_db, mode) raises "
                   "nothing and returns an instruction whose text is str(instr); mn.asm of the parsed instruction (placed at the same "
                   "address) raises nothing, and every encoding it returns decodes to an instruction with the mnemonic, text and "
                   "operands of the original (constant widths not compared, as in C15). Failures are tagged with architecture, mnemonic "
                   "and kind. Bounded: exploration, not proof.",
    "rule": "one case = one architecture / mode, one chunk of 100 byte strings and one group of failure classes (the classes of one known finding of that architecture, or every other class)",
    "trusted_base": ["CPython executes the real printers, parsers, assemblers and decoders; the sampling and the comparison are written in props/C16.py"],
    "assumptions": ["seeded family: 14 architectures / modes x 10 chunks x 100 strings quick (x 200 chunks thorough)",
                    "curated family: every vector of test/arch/{x86,arm,aarch64,mips32,ppc32,msp430}/arch.py (read with ast)",
                    "an instruction the decoder refuses is not a case"],
}


def check_one(name, attrib, data, addr):
    """-> None (not decodable) | '' | violation text ending with a class tag [parse:family:mnemonic:kind]"""
    from miasm.core.bin_stream import bin_stream_str
    from miasm.core.locationdb import LocationDB
    mn = machine(name).mn
    try:
        ins = mn.dis(bin_stream_str(data, base_address=addr), attrib, addr)
    except Exception:       # noqa
        return None
    if ins is None:
        return None
    fam, base = family(name), base_mnemo(name, ins)
    text = str(ins)
    what = "%s `%s` (%s) at %#x" % (name, text, data[:ins.l].hex(), addr)
    loc_db = LocationDB()
    try:
        i2 = mn.fromstring(text, loc_db, attrib)
    except Exception as ex:     # noqa
        return "%s: fromstring raises %s: %s [parse:%s:%s:%s]" % (what, type(ex).__name__, str(ex)[:60], fam, base, type(ex).__name__)
    if str(i2) != text:
        return "%s: the parsed instruction prints `%s` [parse:%s:%s:text-differs]" % (what, i2, fam, base)
    i2.offset = addr
    try:
        cands = mn.asm(i2, loc_db)
    except Exception as ex:     # noqa
        return "%s: asm of the parsed instruction raises %s: %s [parse:%s:%s:asm-%s]" % (what, type(ex).__name__, str(ex)[:60], fam, base, type(ex).__name__)
    for c in cands:
        try:
            i3 = mn.dis(bin_stream_str(c, base_address=addr), attrib, addr)
        except Exception:       # noqa
            return "%s: the encoding %s of the parsed instruction does not decode [parse:%s:%s:cand-undecodable]" % (what, c.hex(), fam, base)
        if i3.name != ins.name or str(i3) != text or len(i3.args) != len(ins.args) or any(not same_operand(x, y) for x, y in zip(i3.args, ins.args)):
            if fam == "x86" and re.search(r"\b[ABCD]H\b", text) and re.search(r"\b(SPL|BPL|SIL|DIL)\b", str(i3)):
                base = "high-byte-register"
            elif fam == "x86" and re.search(r"\b[C-GS]S:\[", text) and not re.search(r"\b[C-GS]S:\[", str(i3)):
                base = "segment-prefix-dropped"
            return "%s: the encoding %s of the parsed instruction decodes to `%s` [parse:%s:%s:cand-differs]" % (what, c.hex(), i3, fam, base)
    return ""


_CHUNK = {}


def run_chunk(a, k):
    """-> (number of decoded instructions, [(tag, text)]).  k = int: 100 random strings; k = ('cur', j): the curated vectors
    10j .. 10j+9 of test/arch/<arch>/arch.py (props/C15.py: curated) with the boundary variants of their last byte"""
    if (a, k) not in _CHUNK:
        name, attrib = ARCHS[a]
        todo = []
        if isinstance(k, tuple):
            from props import C15
            for b in C15.curated(name)[C15.CUR_CHUNK * k[1]:C15.CUR_CHUNK * (k[1] + 1)]:
                data = b + bytes(16 - len(b)) if len(b) < 16 else b
                todo.append((data, 0x1000))
                todo += [(v, 0x1000) for v in C15.boundary_variants(data, len(b), sizes=(1,))]
        else:
            rng = random.Random(1600 + 1000 * a + k)
            for _ in range(100):
                data = bytes(rng.getrandbits(8) for _ in range(16))
                todo.append((data, rng.choice((0, 0x1000, 0x401000, 0x80001000))))
        fails = []
        n = 0
        for data, addr in todo:
            why = check_one(name, attrib, data, addr)
            if why is None:
                continue
            n += 1
            if why:
                fails.append((why[why.rindex("[") + 1:-1], why[:why.rindex("[")].strip()))
        _CHUNK.clear()
        _CHUNK[(a, k)] = (n, fails)
    return _CHUNK[(a, k)]


class ParseCases(BoundedContract):
    BOUND = "seeded family of random byte strings and addresses, 14 architectures / modes (props/C16.py)"
    CASE_SECONDS = 900

    def funcs(self):
        from miasm.core.cpu import cls_mn, instruction
        return [cls_mn.fromstring.__func__, instruction.to_string, cls_mn.asm.__func__, cls_mn.dis.__func__]

    def cases(self):
        from props import C15
        n = 10 if self.tier == "quick" else 200
        out = []
        for a in range(len(ARCHS)):
            fam = family(ARCHS[a][0])
            gids = sorted(g for g, (f, _) in known_groups("C16").items() if f == fam) + [""]
            ncur = (len(C15.curated(ARCHS[a][0])) + C15.CUR_CHUNK - 1) // C15.CUR_CHUNK
            ks = list(range(n)) + [("cur", j) for j in range(ncur)]
            out += [(a, k, g) for k in ks for g in gids]
        return out

    def show(self, case):
        return "%s %s%s" % (ARCHS[case[0]][0], "chunk %d" % case[1] if isinstance(case[1], int) else "curated vectors %d..%d" % (
            10 * case[1][1], 10 * case[1][1] + 9), " (classes of %s)" % case[2] if case[2] else " (every other class)")

    def check(self, case):
        import logging
        logging.disable(logging.CRITICAL)
        a, k, g = case
        n, fails = run_chunk(a, k)
        mine = split_failures("C16", fails, g)
        if not mine:
            return (True, "", n > 0)
        seen = {}
        for t, w in mine:
            seen.setdefault(t, w)
        return (False, "%d of the %d decoded instructions fail, in %d class(es): %s {tags: %s}" % (
            len(mine), n, len(seen), " ;; ".join(list(seen.values())[:4]), " ".join(sorted(seen))), n > 0)


def targets(tier):
    return chunked(ParseCases, "C16/parse", 16, tier)


