"""C17 -- decoded instruction lengths agree with a reference disassembler (core/cpu.py cls_mn.dis, arch/*/arch.py).

A differential property against tools outside the code base: no contract of miasm's own functions can state it.  Bounded stand-in,
labelled: for every byte string of a seeded family that the real decoder accepts, the reference disassemblers installed in the sandbox
(GNU objdump 2.40 for x86 16 / 32 / 64, llvm-mc 14 for ARM, Thumb, AArch64, MIPS32 and PowerPC) must decode a valid instruction of the
same length at the same position.  The conventions of the references are normalised in the check and listed below."""
import os
import random
import re
import subprocess
import tempfile

from harness.bounded import BoundedContract, chunked
from props.C14 import base_mnemo, family, known_groups, machine, split_failures

PROPERTY = {
    "id": "C17",
    "level": "exploration",
    "engine": "bounded-contract",
    "technique": "bounded stand-in: differential run of the real decoders against GNU objdump (x86) and llvm-mc (ARM, Thumb, AArch64, MIPS32, "
                 "PowerPC) over a seeded family of random byte strings; reference conventions normalised in the check",
    "explanation": "For x86 16/32/64, ARM l/b, Thumb, AArch64 l/b, MIPS32 l/b and PowerPC and every random 16-byte string the decoder accepts: "
                   "the reference decodes a valid instruction at offset 0 with the same length. Normalised conventions: (x86) objdump lists a "
                   "redundant prefix (a REX followed by another prefix or REX, repeated segment / size / lock / rep prefixes) as a line of "
                   "its own: the reference length is the sum of the leading prefix-only lines and the first instruction; objdump marks "
                   "the undocumented SETALC (d6) and the x87 alias opcodes (dc d0..df, de d0..d7, dd c8..cf, d9 d8..df, df c8..df) as bad "
                   "although processors execute them: not cases; objdump fuses FWAIT (9b) with a following x87 instruction: not a case; (ARM / AArch64 big endian) llvm-mc reads instruction words little endian in "
                   "its big-endian triples: the reference is given the byte-reversed word under the little-endian triple; (ARM) an "
                   "instruction counts as valid for the reference if the ARMv7-A or the ARMv8-A configuration accepts it (coprocessor "
                   "instructions were removed in v8); an encoding llvm-mc decodes with the warning 'potentially undefined instruction encoding' (UNPREDICTABLE forms) counts as decoded; all optional extensions of llvm-mc 14 are enabled. Failures are tagged with "
                   "architecture, mnemonic and kind (reference says invalid / another length). Bounded: exploration, not proof.",
    "rule": "one case = one architecture / mode, one chunk of 100 byte strings and one group of failure classes (the classes of one known finding of that architecture, or every other class)",
    "trusted_base": ["GNU objdump 2.40 and llvm-mc 14 as references (x86, Thumb: one process per instruction; fixed-width architectures: one process per chunk and configuration, one word per line, every word accounted for); CPython executes the real decoders; the "
                     "sampling, the normalisation of the reference output and the comparison are written in props/C17.py"],
    "assumptions": ["seeded family: 12 architectures / modes x 4 chunks x 100 strings quick (x 100 chunks thorough)",
                    "x86 curated family: every vector of test/arch/x86/arch.py alone and behind the prefixes 67, 2e, 64, 67 64 (address-size and segment prefixes: they do not interact with mandatory SSE prefixes; padded with a fixed byte pattern); quick: every fourth group of 10 vectors",
                    "a string the decoder refuses is not a case; reference gaps listed in the explanation are not cases"],
}

ARM_ATTR = "+vfp4,+neon,+crc,+crypto,+dsp,+mp,+virtualization,+trustzone,+hwdiv,+hwdiv-arm,+fp16"
A64_ATTR = "+v8.5a,+neon,+fp-armv8,+crc,+crypto,+sve,+fullfp16,+lse,+rdm,+ras"
ARCHS = [("x86_16", 16, ("objdump", "i8086")), ("x86_32", 32, ("objdump", "i386")), ("x86_64", 64, ("objdump", "i386:x86-64")),
         ("arml", "l", ("llvm", [("armv7a", ARM_ATTR), ("armv8a", "+v8.5a,+dotprod," + ARM_ATTR)], False)),
         ("armb", "b", ("llvm", [("armv7a", ARM_ATTR), ("armv8a", "+v8.5a,+dotprod," + ARM_ATTR)], True)),
         ("armtl", "l", ("llvm", [("thumbv7a", "+thumb2," + ARM_ATTR), ("thumbv8a", "+v8.5a,+thumb2," + ARM_ATTR)], False)),
         ("aarch64l", "l", ("llvm", [("aarch64", A64_ATTR)], False)), ("aarch64b", "b", ("llvm", [("aarch64", A64_ATTR)], True)),
         ("mips32l", "l", ("llvm", [("mipsel", "+mips32r2,+dsp,+dspr2,+msa"), ("mipsel", "+mips32r6")], False)),
         ("mips32b", "b", ("llvm", [("mips", "+mips32r2,+dsp,+dspr2,+msa"), ("mips", "+mips32r6")], False)),
         ("ppc32b", "b", ("llvm", [("ppc32", "+altivec,+vsx"), ("ppc32", "+spe")], False))]
X86_PREFIX = re.compile(r"^(rex(\.[WRXB]+)?|data16|addr16|addr32|lock|repz|repnz|[c-gs]s|notrack|bnd|xacquire|xrelease)$")
X87_ALIAS = re.compile(r"^(dc d[0-9a-f]|de d[0-7]|dd c[89a-f]|d9 d[89a-f]|df (c[89a-f]|d[0-9a-f]))")
_TMP = []


def llvm_mc():
    for n in ("llvm-mc-14", "llvm-mc"):
        for d in os.environ.get("PATH", "/usr/bin").split(":"):
            if os.path.exists(os.path.join(d, n)):
                return os.path.join(d, n)
    return "llvm-mc"


def ref_x86(data, machine_name):
    """-> (length | None, text) from objdump -D -b binary"""
    if not _TMP:
        _TMP.append(tempfile.mkstemp(prefix="c17_")[1])
    open(_TMP[0], "wb").write(data + b"\x90" * 16)
    out = subprocess.run(["objdump", "-D", "-b", "binary", "-m", machine_name, "-w", _TMP[0]], stdout=subprocess.PIPE, stderr=subprocess.PIPE).stdout.decode()
    total = 0
    for l in out.splitlines():
        if not re.match(r"\s*[0-9a-f]+:\t", l):
            continue
        f = l.split("\t")
        nb = len(f[1].split())
        txt = f[2].strip() if len(f) > 2 else ""
        if "(bad)" in txt:
            return None, txt
        total += nb
        if not all(X86_PREFIX.match(w) for w in txt.split()) or not txt:
            return total, txt
    return None, "no instruction"


def ref_llvm(data, configs, swap):
    """-> (length | None, text): valid if one of the configurations decodes the word"""
    word = data[:4]
    msg = ""
    for triple, attr in configs:
        for size in ((2, 4) if triple.startswith("thumb") else (4,)):
            b = word[:size]
            if swap:
                b = b[::-1]
            p = subprocess.run([llvm_mc(), "--disassemble", "-triple=" + triple, "-mattr=" + attr, "--show-encoding"],
                               input=" ".join("0x%02x" % x for x in b).encode(), stdout=subprocess.PIPE, stderr=subprocess.PIPE)
            err = p.stderr.decode()
            ins = [l for l in p.stdout.decode().splitlines() if l.startswith("\t") and not l.strip().startswith(".")]
            if ins and "invalid instruction encoding" not in err:
                m = re.search(r"encoding: \[([^\]]*)\]", ins[0])
                n = len(m.group(1).split(",")) if m else size
                if n == size:
                    return n, ins[0].strip()
            msg = (err.splitlines() or [""])[0][-70:]
    return None, msg


def check_one(a, data):
    """-> None (not a case) | '' | violation text ending with a class tag [ref:family:mnemonic:kind]"""
    from miasm.core.bin_stream import bin_stream_str
    name, attrib, ref = ARCHS[a]
    mn = machine(name).mn
    try:
        ins = mn.dis(bin_stream_str(data), attrib, 0)
    except Exception:       # noqa
        return None
    if ins is None:
        return None
    raw = data[:ins.l]
    if ref[0] == "objdump":
        hexs = " ".join("%02x" % x for x in raw)
        rl, txt = ref_x86(data, ref[1])
        if rl is None and (ins.name == "SETALC" or X87_ALIAS.search(hexs)):
            return None
        if ins.name == "FWAIT" and rl is not None and rl > 1:
            return None         # objdump fuses 9b with the x87 instruction that follows
    else:
        rl, txt = ref_llvm(data, ref[1], ref[2])
    fam, base = family(name), base_mnemo(name, ins)
    if fam == "x86" and base == "MOV" and re.search(r"\b[CD]R\d", str(ins)):
        base = "MOV-CR"         # moves to / from control and debug registers are a class of their own
    what = "%s `%s` (%s)" % (name, ins, raw.hex())
    if rl is None:
        return "%s: the reference decodes no valid instruction here (%s) [ref:%s:%s:ref-invalid]" % (what, txt[:60], fam, base)
    if rl != ins.l:
        return "%s: miasm decodes %d bytes, the reference %d (`%s`) [ref:%s:%s:length-differs]" % (what, ins.l, rl, txt[:50], fam, base)
    return ""


_CHUNK = {}


def ref_llvm_batch(words, configs, swap):
    """-> set of indices of the 4-byte words no configuration decodes (one llvm-mc process per configuration, one word per line)"""
    bad = None
    for triple, attr in configs:
        text = "\n".join(" ".join("0x%02x" % x for x in (w[::-1] if swap else w)) for w in words) + "\n"
        p = subprocess.run([llvm_mc(), "--disassemble", "-triple=" + triple, "-mattr=" + attr], input=text.encode(), stdout=subprocess.PIPE, stderr=subprocess.PIPE)
        inv = set(int(m.group(1)) - 1 for m in re.finditer(r"<stdin>:(\d+):\d+: warning: invalid instruction encoding", p.stderr.decode()))
        nout = len([l for l in p.stdout.decode().splitlines() if l.startswith("\t") and not l.strip().startswith(".")])
        if nout + len(inv) != len(words):
            raise RuntimeError("llvm-mc output does not account for every word (%d printed, %d invalid, %d given)" % (nout, len(inv), len(words)))
        bad = inv if bad is None else (bad & inv)
    return bad or set()


def run_chunk(a, k):
    if (a, k) not in _CHUNK:
        from miasm.core.bin_stream import bin_stream_str
        rng = random.Random(1700 + 1000 * a + (k if isinstance(k, int) else 0))
        name, attrib, ref = ARCHS[a]
        fails = []
        n = 0
        if isinstance(k, tuple):
            # curated x86 vectors of test/arch/x86/arch.py (props/C15.py: curated) alone and behind address-size / segment prefixes
            from props import C15
            datas = []
            pad = bytes((0x11 * (i + 1)) & 0xFF for i in range(16))
            for b in C15.curated(name)[C15.CUR_CHUNK * k[1]:C15.CUR_CHUNK * (k[1] + 1)]:
                for pre in (b"", b"\x67", b"\x2e", b"\x64", b"\x67\x64"):
                    datas.append((pre + b + pad)[:16] if len(pre + b) < 16 else pre + b)
        else:
            datas = [bytes(rng.getrandbits(8) for _ in range(16)) for _ in range(100)]
        if ref[0] == "llvm" and not name.startswith("armt"):
            # fixed-width architectures: one reference process per configuration for the whole chunk
            mn = machine(name).mn
            decoded = []
            for data in datas:
                try:
                    ins = mn.dis(bin_stream_str(data), attrib, 0)
                except Exception:       # noqa
                    continue
                if ins is not None:
                    decoded.append((data, ins))
            n = len(decoded)
            bad = ref_llvm_batch([d[:4] for d, _ in decoded], ref[1], ref[2]) if decoded else set()
            for j, (data, ins) in enumerate(decoded):
                fam, base = family(name), base_mnemo(name, ins)
                what = "%s `%s` (%s)" % (name, ins, data[:ins.l].hex())
                if j in bad:
                    fails.append(("ref:%s:%s:ref-invalid" % (fam, base), "%s: the reference decodes no valid instruction here (invalid instruction encoding)" % what))
                elif ins.l != 4:
                    fails.append(("ref:%s:%s:length-differs" % (fam, base), "%s: miasm decodes %d bytes, the reference 4" % (what, ins.l)))
        else:
            for data in datas:
                why = check_one(a, data)
                if why is None:
                    continue
                n += 1
                if why:
                    fails.append((why[why.rindex("[") + 1:-1], why[:why.rindex("[")].strip()))
        _CHUNK.clear()
        _CHUNK[(a, k)] = (n, fails)
    return _CHUNK[(a, k)]


class RefCases(BoundedContract):
    BOUND = "seeded family of random byte strings, 11 architectures / modes (props/C17.py)"
    CASE_SECONDS = 900

    def funcs(self):
        from miasm.core.cpu import cls_mn
        from miasm.arch.x86.arch import mn_x86
        return [cls_mn.dis.__func__, mn_x86.pre_dis.__func__]

    def cases(self):
        from props import C15
        n = 4 if self.tier == "quick" else 100
        out = []
        for a in range(len(ARCHS)):
            fam = family(ARCHS[a][0])
            gids = sorted(g for g, (f, _) in known_groups("C17").items() if f == fam) + [""]
            ncur = (len(C15.curated(ARCHS[a][0])) + C15.CUR_CHUNK - 1) // C15.CUR_CHUNK if fam == "x86" else 0
            ks = list(range(n)) + [("cur", j) for j in range(ncur) if self.tier != "quick" or j % 4 == 0]
            out += [(a, k, g) for k in ks for g in gids]
        return out

    def show(self, case):
        return "%s %s%s" % (ARCHS[case[0]][0], "chunk %d" % case[1] if isinstance(case[1], int) else "curated vectors %d..%d alone and behind address-size / segment prefixes" % (
            10 * case[1][1], 10 * case[1][1] + 9), " (classes of %s)" % case[2] if case[2] else " (every other class)")

    def check(self, case):
        a, k, g = case
        n, fails = run_chunk(a, k)
        mine = split_failures("C17", fails, g)
        if not mine:
            return (True, "", n > 0)
        seen = {}
        for t, w in mine:
            seen.setdefault(t, w)
        return (False, "%d of the %d decoded instructions fail, in %d class(es): %s {tags: %s}" % (
            len(mine), n, len(seen), " ;; ".join(list(seen.values())[:4]), " ".join(sorted(seen))), n > 0)


def targets(tier):
    return chunked(RefCases, "C17/reference", 16, tier)


