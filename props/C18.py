"""C18 -- x86 instruction semantics match the host processor (arch/x86/sem.py, arch.py, regs.py, jitter back ends).

The oracle is the processor the sandbox runs on.  Bounded stand-in, labelled: every instruction instance of a seeded family (integer
arithmetic and logic, shifts / rotations, bit operations, multiplications / divisions, string moves, conditional moves / sets, sign
/ zero extensions, flag manipulation, SSE2 integer operations; 8 / 16 / 32 / 64-bit operand sizes; register, immediate and memory
operands; random and boundary operand values) is (a) assembled by the GNU assembler into a native test function and EXECUTED on the
host CPU in 64-bit mode from a concrete register / flag / memory state, and (b) the same bytes are emulated by the real jitter
(Python and GCC back ends, extensions compiled from the tree) from the same state; general-purpose registers, XMM registers, every
flag the processor defines for that instruction, and the memory must agree, and a division that faults natively must fault in
emulation."""
import ctypes
import mmap
import os
import random
import subprocess

from harness.bounded import BoundedContract, chunked
from props import jitrun

PROPERTY = {
    "id": "C18",
    "level": "exploration",
    "engine": "bounded-contract",
    "technique": "bounded stand-in: differential run-time check of the real x86 lifter + jitter (Python and GCC back ends, extensions "
                 "compiled from the tree) against NATIVE execution of the same bytes on the host processor (64-bit mode), over a "
                 "seeded family of instruction instances and operand values",
    "explanation": "Every case assembles a batch of 40 test functions with the GNU assembler (prologue loading RAX RBX RCX RDX RSI RDI "
                   "RBP R8 R9, XMM0 XMM1 and RFLAGS from a state record, the instruction under test, epilogue storing them back), "
                   "loads it with ctypes and runs every function natively on 3 states (random and boundary values; RBP / RSI / RDI "
                   "point into a data page), under a SIGFPE guard. The same instruction bytes, read back from the loaded code, are "
                   "emulated by the x86-64 jitter with the data page mapped at the same address. Compared: RAX..R9 (RSP excluded), "
                   "XMM0 / XMM1, the data page, and the flags CF PF AF ZF SF DF OF except those the processor leaves undefined for "
                   "that instruction and operand (table in props/C18.py from the Intel SDM); a native #DE must give a non-zero cpu "
                   "exception in emulation and vice versa. Bounded: exploration, not proof; 32-bit MODE cannot be executed natively "
                   "from a 64-bit process (32-bit operand sizes are covered in 64-bit mode).",
    "rule": "one case = one batch of 40 instruction instances x 3 states x 2 back ends",
    "trusted_base": ["the host processor, the GNU assembler and gcc (test functions, SIGFPE guard); the table of undefined flags is "
                     "transcribed from the Intel SDM in props/C18.py; comparisons are written in props/C18.py"],
    "assumptions": ["64-bit mode only; user-mode integer and SSE2 integer subset of props/C18.py (no x87, no scalar floating point, no "
                    "AVX)", "seeded family: 16 quick / 200 thorough batches"],
}

GPR = ["RAX", "RBX", "RCX", "RDX", "RSI", "RDI", "RBP", "R8", "R9"]
FLAGBITS = {"cf": 0, "pf": 2, "af": 4, "zf": 6, "nf": 7, "df": 10, "of": 11}
ALLF = set(FLAGBITS)
R64 = ["RAX", "RBX", "RCX", "RDX", "R8", "R9"]
R32 = ["EAX", "EBX", "ECX", "EDX", "R8D", "R9D"]
R16 = ["AX", "BX", "CX", "DX", "R8W"]
R8 = ["AL", "BL", "CL", "DL", "AH", "BH", "R8B"]
R8_NOHI = ["AL", "BL", "CL", "DL", "R8B"]


def regs_of(size, rng, nohi=False):
    return {64: R64, 32: R32, 16: R16, 8: R8_NOHI if nohi else R8}[size]


def ptr(size):
    return {64: "QWORD PTR", 32: "DWORD PTR", 16: "WORD PTR", 8: "BYTE PTR"}[size]


def gen_instr(rng):
    """-> (text in GNU intel syntax, set of flags left undefined, kind)"""
    size = rng.choice((8, 16, 32, 32, 64, 64))
    rs = regs_of(size, rng)
    a, b = rng.choice(rs), rng.choice(rs)
    if size == 8 and ((a in ("AH", "BH")) != (b in ("AH", "BH"))) and ("R8B" in (a, b)):
        b = a                                   # AH / BH cannot be encoded with a REX register
    if size == 8 and "R8B" in (a, b) and (a in ("AH", "BH") or b in ("AH", "BH")):
        a = b = "AL"
    mem = "%s [RBP + %d]" % (ptr(size), 8 * rng.randrange(16))
    imm = rng.choice((0, 1, 0x7F, 0x80, 0xFF, rng.getrandbits(7), rng.getrandbits(min(size, 31))))
    imm &= (1 << min(size, 31)) - 1
    if size > 8 and imm >= 0x80 and rng.random() < 0.5:
        imm = imm & 0x7F
    k = rng.random()
    if k < 0.22:
        op = rng.choice(("ADD", "ADC", "SUB", "SBB", "AND", "OR", "XOR", "CMP", "TEST"))
        und = {"af"} if op in ("AND", "OR", "XOR", "TEST") else set()
        form = rng.random()
        if form < 0.4:
            return "%s %s, %s" % (op, a, b), und, "alu"
        if form < 0.6:
            return "%s %s, %d" % (op, a, imm if size > 8 else imm & 0x7F), und, "alu"
        if form < 0.8 or op == "TEST":
            return "%s %s, %s" % (op, mem, a), und, "alu"
        return "%s %s, %s" % (op, a, mem), und, "alu"
    if k < 0.30:
        op = rng.choice(("INC", "DEC", "NEG", "NOT"))
        return "%s %s" % (op, rng.choice((a, mem))), set(), "unary"
    if k < 0.45:
        op = rng.choice(("SHL", "SHR", "SAR", "ROL", "ROR", "RCL", "RCR"))
        cnt = rng.choice((0, 1, 1, 2, 3, 7, 8, 15, 16, 31, 32, 33, 63))
        und = set()
        masked = cnt & (63 if size == 64 else 31)
        if op in ("SHL", "SHR", "SAR"):
            if masked == 0:
                und = set()
            else:
                und = {"af"} | ({"of"} if masked != 1 else set())
                if masked >= size:
                    und |= {"cf"} if op != "SAR" else set()
        else:
            # OF is defined for the 1-bit rotates: taken here as an immediate count of exactly 1 (a count of 33 that masks to 1
            # is not claimed either way)
            und = {"of"} if cnt != 1 else set()
            if masked == 0:
                und = set() if cnt == 0 else {"of"}
        if rng.random() < 0.3:
            # count in CL: the flags depend on the run-time count -> compare none of the sometimes-undefined ones
            return "%s %s, CL" % (op, a if a not in ("CL", "RCX", "ECX", "CX") else b if b not in ("CL", "RCX", "ECX", "CX") else rs[0]), {"af", "of", "cf"}, "shift"
        return "%s %s, %d" % (op, a, cnt), und, "shift"
    if k < 0.50 and size > 8:
        op = rng.choice(("SHLD", "SHRD"))
        cnt = rng.choice((0, 1, 3, 7, 15, 31))
        if cnt >= size:
            cnt = 1
        und = set() if cnt == 0 else {"af"} | ({"of"} if cnt != 1 else set())
        return "%s %s, %s, %d" % (op, a, b, cnt), und, "shift"
    if k < 0.58:
        und = {"nf", "zf", "af", "pf"}
        form = rng.random()
        if form < 0.3 and size > 8:
            return "IMUL %s, %s" % (a, b), und, "mul"
        if form < 0.5 and size > 8:
            return "IMUL %s, %s, %d" % (a, b, imm & 0x7F), und, "mul"
        return "%s %s" % (rng.choice(("MUL", "IMUL")), rng.choice((b, mem))), und, "mul"
    if k < 0.64:
        # divisions: the operand values decide whether it faults
        div = rng.choice([r for r in rs if r not in ("AL", "AH", "AX", "EAX", "RAX", "DL", "DX", "EDX", "RDX")] or ["BL"])
        return "%s %s" % (rng.choice(("DIV", "IDIV")), div), set(ALLF) - {"df"}, "div"
    if k < 0.72 and size > 8:
        op = rng.choice(("BT", "BTS", "BTR", "BTC"))
        und = {"of", "nf", "af", "pf"}
        if rng.random() < 0.5:
            return "%s %s, %d" % (op, a, imm & (size - 1)), und, "bit"
        return "%s %s, %s" % (op, a, b), und, "bit"
    if k < 0.76 and size > 8:
        op = rng.choice(("BSF", "BSR"))
        # destination undefined when the source is zero: source forced non-zero by the set-up line
        return "OR %s, 1\n    %s %s, %s" % (b, op, a, b), {"cf", "of", "nf", "af", "pf"}, "bit"
    if k < 0.82 and size > 8:
        cc = rng.choice(("Z", "NZ", "B", "AE", "BE", "A", "S", "NS", "L", "GE", "LE", "G", "O", "NO", "P", "NP"))
        return "CMOV%s %s, %s" % (cc, a, rng.choice((b, mem))), set(), "cmov"
    if k < 0.86:
        cc = rng.choice(("Z", "NZ", "B", "AE", "BE", "A", "S", "NS", "L", "GE", "LE", "G", "O", "NO", "P", "NP"))
        return "SET%s %s" % (cc, rng.choice(R8_NOHI + ["BYTE PTR [RBP + %d]" % rng.randrange(64)])), set(), "setcc"
    if k < 0.90:
        s2 = rng.choice((8, 16))
        d = rng.choice(R32 + R64)
        return "%s %s, %s" % (rng.choice(("MOVZX", "MOVSX")), d, rng.choice(regs_of(s2, rng, nohi=True) + ["%s [RBP + %d]" % (ptr(s2), rng.randrange(64))])), set(), "ext"
    if k < 0.93:
        return rng.choice(("CDQ", "CQO", "CWDE", "CDQE", "CBW", "CWD", "STC", "CLC", "CMC", "LAHF", "SAHF", "BSWAP %s" % rng.choice(R32 + R64),
                           "XCHG %s, %s" % (a, b), "XADD %s, %s" % (a, b), "MOVSXD RAX, EBX", "LEA %s, [RBX + RCX*4 + 16]" % rng.choice(R32 + R64))), set(), "misc"
    if k < 0.96:
        rep = rng.choice(("", "REP "))
        op = rng.choice(("MOVSB", "MOVSD", "STOSB", "STOSQ", "LODSW", "SCASB", "CMPSB"))
        if op in ("SCASB", "CMPSB"):
            rep = rng.choice(("", "REPE ", "REPNE "))
        if op.startswith("LODS"):
            rep = ""
        return "MOV ECX, %d\n    %s%s" % (rng.randrange(0, 8), rep, op), set(), "string"
    x, y = rng.choice(("XMM0", "XMM1")), rng.choice(("XMM0", "XMM1"))
    op = rng.choice(("PADDB", "PADDW", "PADDD", "PADDQ", "PSUBB", "PSUBD", "PXOR", "PAND", "POR", "PANDN", "PCMPEQB", "PCMPEQD", "PCMPGTB", "PUNPCKLBW",
                     "PUNPCKHDQ", "PMULUDQ", "PMULLW", "PSHUFD", "PSLLD", "PSRLQ", "PSRAW", "MOVDQA", "MOVD", "MOVQ", "PMOVMSKB", "PADDUSB", "PSUBSW",
                     "PMINUB", "PMAXSW", "PAVGB"))
    if op == "PSHUFD":
        return "PSHUFD %s, %s, %d" % (x, y, rng.getrandbits(8)), set(), "sse"
    if op in ("PSLLD", "PSRLQ", "PSRAW"):
        return "%s %s, %d" % (op, x, rng.choice((0, 1, 7, 15, 16, 31, 32, 63, 64))), set(), "sse"
    if op == "MOVD":
        return rng.choice(("MOVD %s, EAX" % x, "MOVD EBX, %s" % x)), set(), "sse"
    if op == "MOVQ":
        return rng.choice(("MOVQ %s, RAX" % x, "MOVQ RBX, %s" % x, "MOVQ %s, %s" % (x, y))), set(), "sse"
    if op == "PMOVMSKB":
        return "PMOVMSKB EAX, %s" % x, set(), "sse"
    return "%s %s, %s" % (op, x, rng.choice((y, "XMMWORD PTR [RBP + %d]" % (16 * rng.randrange(4))))), set(), "sse"


PROLOGUE = """
    push rbx
    push rbp
    push r12
    push r13
    push r14
    push r15
    mov r15, rdi
    movdqu xmm0, [r15 + 128]
    movdqu xmm1, [r15 + 144]
    mov rax, [r15 + 0]
    mov rbx, [r15 + 8]
    mov rcx, [r15 + 16]
    mov rdx, [r15 + 24]
    mov rsi, [r15 + 32]
    mov rdi, [r15 + 40]
    mov rbp, [r15 + 48]
    mov r8, [r15 + 56]
    mov r9, [r15 + 64]
    push qword ptr [r15 + 72]
    popfq
"""
EPILOGUE = """
    pushfq
    pop qword ptr [r15 + 72]
    mov [r15 + 0], rax
    mov [r15 + 8], rbx
    mov [r15 + 16], rcx
    mov [r15 + 24], rdx
    mov [r15 + 32], rsi
    mov [r15 + 40], rdi
    mov [r15 + 48], rbp
    mov [r15 + 56], r8
    mov [r15 + 64], r9
    movdqu [r15 + 128], xmm0
    movdqu [r15 + 144], xmm1
    cld
    pop r15
    pop r14
    pop r13
    pop r12
    pop rbp
    pop rbx
    ret
"""
GUARD_C = r"""
#include <signal.h>
#include <setjmp.h>
#include <string.h>
static sigjmp_buf env;
static void on_fpe(int sig) { siglongjmp(env, 1); }
int guarded_run(void (*f)(void *), void *state) {
    struct sigaction sa, old;
    int faulted = 0;
    memset(&sa, 0, sizeof sa);
    sa.sa_handler = on_fpe;
    sigaction(SIGFPE, &sa, &old);
    if (sigsetjmp(env, 1) == 0)
        f(state);
    else
        faulted = 1;
    sigaction(SIGFPE, &old, 0);
    return faulted;
}
"""


def build_batch(texts, tag):
    d = jitrun.build_exts()["dir"]
    s_path, c_path, so = (os.path.join(d, "c18_%s.%s" % (tag, e)) for e in ("S", "c", "so"))
    with open(s_path, "w") as f:
        f.write(".intel_syntax noprefix\n.text\n")
        for i, t in enumerate(texts):
            f.write(".globl run_%d\nrun_%d:\n%s\n.globl snip_%d_start\nsnip_%d_start:\n    %s\n.globl snip_%d_end\nsnip_%d_end:\n%s\n" % (
                i, i, PROLOGUE, i, i, t, i, i, EPILOGUE))
        f.write('.section .note.GNU-stack,"",@progbits\n')
    with open(c_path, "w") as f:
        f.write(GUARD_C)
    p = subprocess.run(["gcc", "-shared", "-fPIC", "-O1", "-o", so, s_path, c_path], stdout=subprocess.PIPE, stderr=subprocess.PIPE)
    if p.returncode:
        return None, p.stderr.decode(errors="replace")
    return ctypes.CDLL(so), None


def make_state(rng, data_addr):
    vals = {}
    for r in GPR:
        vals[r] = rng.choice((0, 1, 0xFF, 0x7F, 0x80, 0xFFFF, 0x7FFFFFFF, 0x80000000, 0xFFFFFFFF, 0x7FFFFFFFFFFFFFFF, 0x8000000000000000,
                              0xFFFFFFFFFFFFFFFF, rng.getrandbits(64), rng.getrandbits(32), rng.getrandbits(8), rng.getrandbits(64)))
    vals["RBP"] = data_addr + 0x100
    vals["RSI"] = data_addr + 0x400 + rng.randrange(0, 64)
    vals["RDI"] = data_addr + 0x800 + rng.randrange(0, 64)
    flags = 0x202
    for f, bit in FLAGBITS.items():
        if f != "df" and rng.random() < 0.5:
            flags |= 1 << bit
    xmm = [rng.getrandbits(128) if rng.random() < 0.7 else rng.choice((0, (1 << 128) - 1, 0x80 * int("01" * 16, 16))) for _ in range(2)]
    data = bytes(rng.getrandbits(8) for _ in range(0x1000))
    return vals, flags, xmm, data


class NativeCases(BoundedContract):
    BOUND = "seeded family of x86-64 instruction instances and operand values, native execution on the host CPU as the reference"
    CASE_SECONDS = 600

    def funcs(self):
        jitrun.build_exts()
        from miasm.arch.x86 import sem
        from miasm.arch.x86.sem import Lifter_X86_64
        names = ["arith_flag", "update_flag_arith_add_co", "update_flag_arith_sub_co", "update_flag_add_of", "update_flag_sub_of", "get_shift", "l_rol", "l_ror",
                 "rcl", "rcr", "shl", "shr", "sar", "mul", "imul", "div", "idiv", "bt", "bsf", "bsr", "movs", "stos", "cmps", "scas", "movsx", "shld", "shrd"]
        return [Lifter_X86_64.get_ir] + [getattr(sem, n) for n in names if hasattr(sem, n)]

    def cases(self):
        return list(range(16 if self.tier == "quick" else 200))

    def show(self, case):
        rng = random.Random(1800 + case)
        return "batch #%d: %s" % (case, " ; ".join(gen_instr(rng)[0].replace("\n    ", " / ") for _ in range(40))[:900])

    def check(self, case):
        from miasm.analysis.machine import Machine
        from miasm.core.locationdb import LocationDB
        from miasm.jitter.csts import PAGE_READ, PAGE_WRITE
        rng = random.Random(1800 + case)
        instrs = [gen_instr(rng) for _ in range(40)]
        lib, err = build_batch([t for t, _, _ in instrs], "%d_%d" % (os.getpid(), case))
        if lib is None:
            return (False, "harness: the GNU assembler refuses the batch: %s" % err[:300], True)
        buf = mmap.mmap(-1, 0x1000)
        data_addr = ctypes.addressof(ctypes.c_char.from_buffer(buf))
        lib.guarded_run.restype = ctypes.c_int
        lib.guarded_run.argtypes = [ctypes.c_void_p, ctypes.c_void_p]
        CODE = 0x40000000
        try:
            for i, (text, undefined, kind) in enumerate(instrs):
                start = ctypes.cast(getattr(lib, "snip_%d_start" % i), ctypes.c_void_p).value
                end = ctypes.cast(getattr(lib, "snip_%d_end" % i), ctypes.c_void_p).value
                code = ctypes.string_at(start, end - start)
                fn = ctypes.cast(getattr(lib, "run_%d" % i), ctypes.c_void_p).value
                for s in range(3):
                    vals, flags, xmm, data = make_state(rng, data_addr)
                    if kind == "div" and rng.random() < 0.6:
                        # mostly quotients that fit: a small high half
                        vals["RDX"] = rng.choice((0, 0, 1, 0xFFFFFFFFFFFFFFFF))
                        if "AH" in text or "AL" in text or text.split()[1] in R8:
                            vals["RAX"] &= 0xFFFFFFFFFFFF00FF | (rng.getrandbits(2) << 8)
                    rec = (ctypes.c_uint64 * 20)()
                    for k, r in enumerate(GPR):
                        rec[k] = vals[r]
                    rec[9] = flags
                    rec[16], rec[17] = xmm[0] & (2 ** 64 - 1), xmm[0] >> 64
                    rec[18], rec[19] = xmm[1] & (2 ** 64 - 1), xmm[1] >> 64
                    buf.seek(0)
                    buf.write(data)
                    nfault = lib.guarded_run(fn, ctypes.addressof(rec))
                    native = {"regs": dict((r, rec[k]) for k, r in enumerate(GPR)), "flags": rec[9], "xmm": [rec[16] | (rec[17] << 64), rec[18] | (rec[19] << 64)],
                              "data": bytes(buf[:])}
                    for backend in ("python", "gcc"):
                        jitrun.build_exts()
                        j = Machine("x86_64").jitter(LocationDB(), backend)
                        if backend == "gcc":
                            j.jit.libs = list(jitrun.build_exts()["libs"])
                            j.jit.tempdir = jitrun.build_exts()["cache"]
                        j.vm.add_memory_page(CODE, PAGE_READ | PAGE_WRITE, code + b"\xcc" * 16, "code")
                        j.vm.add_memory_page(data_addr, PAGE_READ | PAGE_WRITE, data, "data")
                        j.init_stack()
                        for r in GPR:
                            setattr(j.cpu, r, vals[r])
                        for f, bit in FLAGBITS.items():
                            setattr(j.cpu, f, (flags >> bit) & 1)
                        j.cpu.XMM0, j.cpu.XMM1 = xmm[0], xmm[1]
                        j.add_breakpoint(CODE + len(code), lambda jj: False)
                        steps = [0]

                        def cb(jj):
                            steps[0] += 1
                            return steps[0] < 400
                        j.exec_cb = cb
                        what = "`%s` (%s) from RAX=%#x RBX=%#x RCX=%#x RDX=%#x R8=%#x flags=%#x XMM0=%#x XMM1=%#x, %s back end" % (
                            text.replace("\n    ", " ; "), code.hex(), vals["RAX"], vals["RBX"], vals["RCX"], vals["RDX"], vals["R8"], flags, xmm[0], xmm[1], backend)
                        try:
                            j.init_run(CODE)
                            j.continue_run()
                            efault = j.cpu.get_exception() != 0 or j.vm.get_exception() != 0
                        except Exception as ex:     # noqa
                            if nfault and "DIV" in str(ex).upper():
                                continue
                            efault = True
                            if not nfault:
                                return (False, "%s: emulation raises %s: %s; the processor executes it" % (what, type(ex).__name__, str(ex)[:120]), True)
                        if bool(nfault) != bool(efault):
                            return (False, "%s: the processor %s, the emulation %s (cpu exception %#x, vm exception %#x)" % (
                                what, "faults (#DE)" if nfault else "does not fault", "faults" if efault else "does not fault",
                                j.cpu.get_exception(), j.vm.get_exception()), True)
                        if nfault:
                            continue
                        for r in GPR:
                            if getattr(j.cpu, r) != native["regs"][r]:
                                return (False, "%s: %s = %#x in emulation, %#x on the processor" % (what, r, getattr(j.cpu, r), native["regs"][r]), True)
                        for f, bit in FLAGBITS.items():
                            if f in undefined:
                                continue
                            if getattr(j.cpu, f) != (native["flags"] >> bit) & 1:
                                return (False, "%s: flag %s = %d in emulation, %d on the processor" % (what, f, getattr(j.cpu, f), (native["flags"] >> bit) & 1), True)
                        if [j.cpu.XMM0, j.cpu.XMM1] != native["xmm"]:
                            return (False, "%s: XMM0 / XMM1 = %#x / %#x in emulation, %#x / %#x on the processor" % (
                                what, j.cpu.XMM0, j.cpu.XMM1, native["xmm"][0], native["xmm"][1]), True)
                        got = j.vm.get_mem(data_addr, 0x1000)
                        if got != native["data"]:
                            o = next(o for o in range(0x1000) if got[o] != native["data"][o])
                            return (False, "%s: data byte +%#x = %#04x in emulation, %#04x on the processor" % (what, o, got[o], native["data"][o]), True)
        finally:
            pass
        return (True, "", True)


def targets(tier):
    return chunked(NativeCases, "C18/native-x86", 16, tier)

