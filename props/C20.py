"""C20 -- all jitter back ends produce the same execution (jitload.py, jitcore_python.py, jitcore_gcc.py, codegen.py,
emulatedsymbexec.py, JitCore.c, vm_mngr.c, arch/JitCore_x86.c).

Agreement of independently written back ends through generated C, C extensions and CPython: decided on the real system.  Bounded
stand-in, labelled: for every program of a seeded family of x86-32 programs built from a wide pool of instructions (arithmetic,
logic, shifts and rotates with register and immediate counts, multiplications and divisions, bit tests, conditional moves and sets,
sign / zero extensions, string instructions with REP, stack, flags manipulation, 8 / 16-bit forms) -- with and without a faulting
access to unmapped or read-only memory -- the Python and the GCC back ends, run from the same initial registers and memory, end with
the same registers, flags, memory, exception flags and breakpoint hits.  The LLVM back end cannot run in the sandbox (no llvmlite):
it is not covered, and the claim is limited accordingly."""
import random
import sys

from harness.bounded import BoundedContract, chunked
from props import jitrun

PROPERTY = {
    "id": "C20",
    "level": "exploration",
    "engine": "bounded-contract",
    "technique": "bounded stand-in: differential run-time check of the real Python and GCC jitter back ends (extensions compiled from the "
                 "tree on every run) over a seeded family of x86-32 programs from a wide instruction pool, with and without memory faults",
    "explanation": "For every generated program (straight-line groups of 4..14 instructions from a pool of ~90 x86-32 forms over "
                   "registers, immediates and memory in the data page, separated by conditional branches on the flags they produce; "
                   "division operands are kept non-zero and in range by construction) and initial state, optionally with one access to "
                   "unmapped or read-only memory: the Python back end and the GCC back end (jit_maxline 50 and a second, random "
                   "partitioning) stop at the same pc with the same registers EAX..EBP, ESP, flags zf nf pf of cf af df, data page, "
                   "stack, exception flags of the vm and of the cpu, and the same hits of 0..2 breakpoints. Instructions whose flags "
                   "are architecturally undefined leave those flags out of the comparison through a following flag-setting "
                   "instruction. Bounded: exploration, not proof; LLVM back end not available in the sandbox.",
    "rule": "one case = one program and initial state: python vs gcc (two partitionings)",
    "trusted_base": ["CPython, gcc; neither back end is taken as the reference: a difference is a violation whichever side is wrong "
                     "(a defect shared by both -- e.g. in the lifter -- is not seen here); generator and comparison are written in "
                     "props/jitrun.py / props/C20.py"],
    "assumptions": ["x86-32, ARM, AArch64 and MIPS32 (little endian) guests (the other architectures' JitCore extensions are not built by the "
                    "harness); the ARM / AArch64 / MIPS32 families have ~40 / ~50 / ~45 instruction forms (MIPS32: branches with filled "
                    "delay slots), no faults", "LLVM back end "
                    "not available (no llvmlite)", "seeded family: x86-32 32 quick / 600 thorough programs, ARM / AArch64 / MIPS32 16 quick / 400 thorough each"],
}

R32 = ["EAX", "EBX", "ECX", "EDX", "ESI"]
R16 = ["AX", "BX", "CX", "DX", "SI"]
R8 = ["AL", "BL", "CL", "DL", "AH", "BH"]
M32 = "DWORD PTR [EBP + 0x%x]"
M16 = "WORD PTR [EBP + 0x%x]"
M8 = "BYTE PTR [EBP + 0x%x]"


def pool(rng):
    r, r2 = rng.choice(R32), rng.choice(R32)
    w, w2 = rng.choice(R16), rng.choice(R16)
    b, b2 = rng.choice(R8), rng.choice(R8)
    m32, m16, m8 = M32 % (4 * rng.randrange(8)), M16 % (2 * rng.randrange(16)), M8 % rng.randrange(32)
    imm32, imm8, cnt = "0x%x" % rng.getrandbits(32), "0x%x" % rng.getrandbits(7), "0x%x" % rng.choice((0, 1, 3, 7, 8, 15, 16, 31))
    forms = [
        "ADD %s, %s" % (r, r2), "ADC %s, %s" % (r, imm32), "SUB %s, %s" % (r, m32), "SBB %s, %s" % (r, r2), "AND %s, %s" % (m32, r), "OR %s, %s" % (r, imm8),
        "XOR %s, %s" % (r, r2), "CMP %s, %s" % (r, imm32), "TEST %s, %s" % (r, r2), "NEG %s" % r, "NOT %s" % r, "INC %s" % r, "DEC %s" % m32,
        "ADD %s, %s" % (w, w2), "SUB %s, %s" % (b, b2), "XOR %s, %s" % (m16, w), "AND %s, %s" % (b, m8), "ADC %s, %s" % (b, imm8), "CMP %s, %s" % (w, w2),
        "SHL %s, %s" % (r, cnt), "SHR %s, %s" % (r, cnt), "SAR %s, %s" % (r, cnt), "ROL %s, %s" % (r, cnt), "ROR %s, %s" % (r, cnt),
        "RCL %s, 0x1" % r, "RCR %s, 0x1" % r, "SHL %s, CL" % r, "SHR %s, CL" % r2, "SAR %s, CL" % r, "ROL %s, CL" % r, "ROR %s, CL" % w,
        "SHL %s, %s" % (b, cnt), "SHR %s, %s" % (w, cnt), "SHLD %s, %s, %s" % (r, r2, cnt), "SHRD %s, %s, %s" % (r, r2, cnt),
        "IMUL %s, %s" % (r, r2), "IMUL %s, %s, %s" % (r, r2, imm8), "IMUL %s" % r, "MUL %s" % r2, "MUL %s" % b, "IMUL %s, %s" % (w, w2),
        "BT %s, %s" % (r, r2), "BTS %s, %s" % (r, imm8), "BTR %s, %s" % (r, r2), "BTC %s, %s" % (r, imm8), "BSF %s, %s" % (r, r2), "BSR %s, %s" % (r, r2),
        "CMOVZ %s, %s" % (r, r2), "CMOVB %s, %s" % (r, m32), "CMOVL %s, %s" % (r, r2), "CMOVNS %s, %s" % (r, r2), "SETZ %s" % b, "SETB %s" % b,
        "SETL %s" % b, "SETG %s" % m8, "MOVZX %s, %s" % (r, b), "MOVSX %s, %s" % (r, w), "MOVZX %s, %s" % (r, m16), "MOVSX %s, %s" % (r, m8),
        "CDQ", "CWDE", "CBW", "CWD", "XCHG %s, %s" % (r, r2), "XCHG %s, %s" % (m32, r), "XADD %s, %s" % (r, r2), "BSWAP %s" % r,
        "LEA %s, DWORD PTR [%s + %s * 0x4 + 0x10]" % (r, r2, rng.choice(R32)), "MOV %s, %s" % (r, m32), "MOV %s, %s" % (m32, r), "MOV %s, %s" % (m16, w),
        "MOV %s, %s" % (b, m8), "MOV %s, %s" % (r, imm32), "PUSH %s\n    POP %s" % (r, r2), "PUSHFD\n    POP %s" % r, "PUSH %s\n    POPFD" % "0x%x" % rng.choice((0x202, 0x203, 0xAD7, 0x246, 0x202 | 0x400)),
        "STC", "CLC", "CMC", "STD\n    CLD", "LAHF", "SAHF", "CMPXCHG %s, %s" % (m32, r), "CMPXCHG %s, %s" % (r, r2),
        "MOV EDI, 0x%x\n    PUSH ESI\n    MOV ESI, 0x%x\n    MOV ECX, 0x%x\n    REP MOVSB\n    POP ESI" % (jitrun.DATA + 0x400, jitrun.DATA + 0x100, rng.randrange(0, 9)),
        "MOV EDI, 0x%x\n    MOV ECX, 0x%x\n    REP STOSD" % (jitrun.DATA + 0x440, rng.randrange(0, 5)),
        "MOV EDI, 0x%x\n    MOV ECX, 0x%x\n    REPNE SCASB" % (jitrun.DATA + 0x100, rng.randrange(0, 20)),
        "PUSH ESI\n    MOV ESI, 0x%x\n    LODSW\n    POP ESI" % (jitrun.DATA + 0x100 + rng.randrange(16)),
        # divisions: a non-zero divisor and a dividend whose quotient fits
        "MOV EDX, 0x0\n    OR %s, 0x1\n    DIV %s" % (rng.choice(["EBX", "ECX", "ESI"]),) * 1 if False else "XOR EDX, EDX\n    OR EBX, 0x1\n    DIV EBX",
        "CDQ\n    OR ECX, 0x10001\n    IDIV ECX", "XOR EDX, EDX\n    OR ESI, 0x100\n    DIV ESI", "MOV AH, 0x0\n    OR BL, 0x1\n    DIV BL",
    ]
    return rng.choice(forms)


def gen_program(rng, fault):
    lines = ["main:", "    MOV EBP, 0x%x" % (jitrun.DATA + 0x100)]
    n = rng.randint(2, 5)
    fb = rng.randrange(n)
    for i in range(n):
        lines.append("g%d:" % i)
        body = ["    " + pool(rng) for _ in range(rng.randint(4, 14))]
        if fault and i == fb:
            body.insert(rng.randrange(len(body) + 1), "    " + fault)
        lines += body
        if i + 1 < n and rng.random() < 0.7:
            # a forward branch on whatever flags the group produced (both back ends must agree on them)
            lines.append("    CMP %s, %s" % (rng.choice(R32), rng.choice(R32)))
            lines.append("    %s g%d" % (rng.choice(("JZ", "JNZ", "JB", "JA", "JS", "JO", "JL", "JGE", "JPE")), rng.randrange(i + 1, n)))
    # every flag is set to a defined value before the end (instructions with undefined flags precede)
    lines += ["    CMP EAX, EBX", "    RET"]
    return "\n".join(lines) + "\n"


class BackendCases(BoundedContract):
    BOUND = "seeded family of x86-32 programs from a wide instruction pool, with and without memory faults (props/C20.py)"
    CASE_SECONDS = 300

    def funcs(self):
        jitrun.build_exts()
        from miasm.jitter.codegen import CGen
        from miasm.jitter.jitcore_python import JitCore_Python
        from miasm.jitter.jitcore_cc_base import JitCore_Cc_Base
        from miasm.jitter.emulatedsymbexec import EmulatedSymbExec
        return [CGen.gen_c, CGen.gen_c_assignments, CGen.gen_check_memory_exception, JitCore_Python.add_block, JitCore_Cc_Base.add_block,
                EmulatedSymbExec.mem_read, EmulatedSymbExec.mem_write, EmulatedSymbExec.update_cpu_from_engine]

    def cases(self):
        return list(range(32 if self.tier == "quick" else 600))

    def gen(self, case):
        rng = random.Random(2000 + case)
        fault = None
        if rng.random() < 0.3:
            fault = rng.choice(("MOV EAX, DWORD PTR [0x%x]" % jitrun.HOLE, "MOV DWORD PTR [0x%x], EBX" % (jitrun.RO + 8), "ADD DWORD PTR [0x%x], ECX" % (jitrun.DATA + 0xFFE),
                                "PUSH DWORD PTR [0x%x]" % (jitrun.HOLE + 4), "XCHG DWORD PTR [0x%x], EDX" % jitrun.HOLE))
        text = gen_program(rng, fault)
        st = jitrun.init_state(rng)
        return rng, text, st

    def show(self, case):
        rng, text, st = self.gen(case)
        return "program #%d: %s ; initial %s" % (case, jitrun.show_program(text), dict((k, hex(v)) for k, v in st.items() if isinstance(v, int)))

    def check(self, case):
        rng, text, st = self.gen(case)
        try:
            code, labels, instrs = jitrun.assemble(text)
        except Exception as ex:     # noqa
            return (False, "harness: the program does not assemble (%s: %s)" % (type(ex).__name__, str(ex)[:120]), True)
        bps = sorted(rng.sample(instrs, min(len(instrs), rng.choice((0, 1, 2)))))
        results = []
        for backend, maxline in (("python", 50), ("gcc", 50), ("gcc", rng.choice((1, 2, 3, 7)))):
            r = jitrun.Run(backend, code, st, maxline=maxline)
            r.limit_steps()
            for a in bps:
                r.j.add_breakpoint(a, lambda j, a=a, r=r: r.hits.append(a) or True)
            try:
                res = r.go()
            except Exception as ex:     # noqa
                return (False, "%s back end (jit_maxline %d): the run raises %s: %s" % (backend, maxline, type(ex).__name__, str(ex)[:200]), True)
            results.append((backend, maxline, r, res, r.state()))
        b0, m0, r0, res0, s0 = results[0]
        for b1, m1, r1, res1, s1 in results[1:]:
            if res0 != res1 or (r0.fault is None) != (r1.fault is None):
                return (False, "the %s run ends with result %r / fault %r, the %s (jit_maxline %d) run with %r / %r" % (
                    b0, res0, r0.fault, b1, m1, res1, r1.fault), True)
            d = jitrun.diff_state(s1, s0, "the %s back end (jit_maxline %d)" % (b1, m1), "the %s back end" % b0)
            if d:
                return (False, d, True)
            if r0.hits != r1.hits:
                return (False, "breakpoint hits: %s under %s, %s under %s (jit_maxline %d)" % ([hex(x) for x in r0.hits], b0, [hex(x) for x in r1.hits], b1, m1), True)
        return (True, "", True)


# ARM (little endian) ---------------------------------------------------------------------------------------------------------------

ARM_POOL = ["ADDS R%d, R%d, R%d", "SUBS R%d, R%d, 0x10", "ANDS R%d, R%d, R%d", "ORRS R%d, R%d, 0xFF", "EORS R%d, R%d, R%d", "MOVS R%d, R%d",
            "CMP R%d, R%d", "TST R%d, 0x1", "MUL R%d, R%d, R%d", "MULS R%d, R%d, R%d", "MOV R%d, R%d LSL 0x3", "MOV R%d, R%d LSR R%d",
            "MOVS R%d, R%d ASR 0x1F", "ADD R%d, R%d, R%d LSL 0x2", "RSBS R%d, R%d, 0x0", "ADCS R%d, R%d, R%d", "SBCS R%d, R%d, R%d", "MVN R%d, R%d",
            "BIC R%d, R%d, 0xF0", "ADDEQ R%d, R%d, 0x1", "MOVNE R%d, 0x5", "SUBGT R%d, R%d, R%d", "CLZ R%d, R%d", "UMULL R%d, R%d, R%d, R%d",
            "SMULL R%d, R%d, R%d, R%d", "MLA R%d, R%d, R%d, R%d", "REV R%d, R%d", "UBFX R%d, R%d, 0x4, 0x8", "BFC R%d, 0x4, 0x4",
            "RSC R%d, R%d, R%d", "TEQ R%d, R%d", "CMN R%d, 0x1", "MOVS R%d, R%d LSL R%d", "ADDS R%d, R%d, R%d ROR 0x7", "MOVS R%d, R%d RRX"]
ARM_MEM = ["LDR R%d, [R11, 0x%x]", "STR R%d, [R11, 0x%x]", "LDRB R%d, [R11, 0x%x]", "STRB R%d, [R11, 0x%x]", "LDRH R%d, [R11, 0x%x]", "STRH R%d, [R11, 0x%x]",
           "LDRSB R%d, [R11, 0x%x]"]


def arm_instr(rng):
    if rng.random() < 0.25:
        t = rng.choice(ARM_MEM)
        off = rng.randrange(0, 32)
        if "H" in t.split()[0]:
            off &= ~1
        elif t.split()[0] in ("LDR", "STR"):
            off &= ~3
        return t % (rng.randrange(0, 9), off)
    t = rng.choice(ARM_POOL)
    n = t.count("%d")
    regs = [rng.randrange(0, 9) for _ in range(n)]
    if t.startswith(("UMULL", "SMULL")) and regs[0] == regs[1]:
        regs[1] = (regs[0] + 1) % 9
    if t.startswith(("MUL", "MLA", "UMULL", "SMULL")) and regs[0] == regs[-2 if t.startswith("MLA") else 1 if t.startswith("MUL") else 2]:
        pass
    return t % tuple(regs)


def arm_program(rng):
    lines = ["main:", "    MOV R12, LR"]
    n = rng.randint(2, 5)
    for i in range(n):
        lines.append("g%d:" % i)
        lines += ["    " + arm_instr(rng) for _ in range(rng.randint(4, 12))]
        if rng.random() < 0.3:
            lines.append("    BL sub")
        if i + 1 < n and rng.random() < 0.7:
            lines.append("    CMP R%d, R%d" % (rng.randrange(9), rng.randrange(9)))
            lines.append("    B%s g%d" % (rng.choice(("EQ", "NE", "CS", "CC", "MI", "VS", "HI", "GE", "LT", "GT", "LE")), rng.randrange(i + 1, n)))
    lines += ["    CMP R0, R1", "    BX R12", "sub:", "    ADD R9, R9, 0x3", "    EORS R10, R10, R9", "    BX LR"]
    return "\n".join(lines) + "\n"


class BackendCasesArm(BoundedContract):
    BOUND = "seeded family of ARM (little endian) programs from a pool of ~40 instruction forms (props/C20.py)"
    CASE_SECONDS = 300

    def funcs(self):
        jitrun.build_exts()
        from miasm.arch.arm.jit import arm_CGen
        from miasm.jitter.jitcore_python import JitCore_Python
        return [arm_CGen.block2assignblks, JitCore_Python.add_block]

    def cases(self):
        return list(range(16 if self.tier == "quick" else 400))

    def gen(self, case):
        rng = random.Random(20200 + case)
        return rng, arm_program(rng)

    def show(self, case):
        return "ARM program #%d: %s" % (case, jitrun.show_program(self.gen(case)[1]))

    def check(self, case):
        b = jitrun.build_exts()
        from miasm.analysis.machine import Machine
        from miasm.arch.arm.arch import mn_arm
        from miasm.core import asmblock, parse_asm
        from miasm.core.interval import interval
        from miasm.core.locationdb import LocationDB
        from miasm.jitter.csts import PAGE_READ, PAGE_WRITE
        rng, text = self.gen(case)
        loc_db = LocationDB()
        try:
            asmcfg = parse_asm.parse_txt(mn_arm, "l", text, loc_db)
            loc_db.set_location_offset(loc_db.get_name_location("main"), jitrun.CODE)
            patches = asmblock.asm_resolve_final(mn_arm, asmcfg, interval([(jitrun.CODE, jitrun.CODE + 0xF00)]))
        except Exception as ex:     # noqa
            return (False, "harness: the ARM program does not assemble (%s: %s)" % (type(ex).__name__, str(ex)[:120]), True)
        code = bytearray(0x1000)
        for o, d in patches.items():
            code[o - jitrun.CODE:o - jitrun.CODE + len(d)] = d
        regs = dict(("R%d" % i, rng.choice((0, 1, 0xFFFFFFFF, 0x80000000, 0x7FFFFFFF, rng.getrandbits(32), rng.getrandbits(8)))) for i in range(11))
        flags = dict((f, rng.getrandbits(1)) for f in ("zf", "nf", "of", "cf"))
        data = bytes(rng.getrandbits(8) for _ in range(0x40))
        results = []
        for backend, maxline in (("python", 50), ("gcc", 50), ("gcc", rng.choice((1, 2, 3)))):
            j = Machine("arml").jitter(LocationDB(), backend)
            if type(j.cpu).__module__ != "JitCore_arm" or not sys.modules["miasm.jitter.arch.JitCore_arm"].__file__.startswith(b["dir"]):
                return (False, "harness: the ARM jitter does not use the extension compiled from the tree", True)
            if backend == "gcc":
                j.jit.libs = list(b["libs_arm"])
                j.jit.tempdir = b["cache"]
            j.jit.set_options(jit_maxline=maxline)
            j.vm.add_memory_page(jitrun.CODE, PAGE_READ | PAGE_WRITE, bytes(code), "code")
            j.vm.add_memory_page(jitrun.DATA, PAGE_READ | PAGE_WRITE, b"\x00" * 0x100 + data + b"\x00" * (0x1000 - 0x100 - len(data)), "data")
            j.init_stack()
            for r, v in regs.items():
                setattr(j.cpu, r, v)
            for f, v in flags.items():
                setattr(j.cpu, f, v)
            j.cpu.R11 = jitrun.DATA + 0x100
            j.cpu.LR = jitrun.END
            j.add_breakpoint(jitrun.END, lambda jj: False)
            steps = [0]

            def cb(jj):
                steps[0] += 1
                return steps[0] < 2000
            j.exec_cb = cb
            try:
                j.init_run(jitrun.CODE)
                res = j.continue_run()
            except Exception as ex:     # noqa
                return (False, "%s back end (jit_maxline %d): the run raises %s: %s" % (backend, maxline, type(ex).__name__, str(ex)[:200]), True)
            st = {"pc": j.pc, "res": res, "exc": (j.vm.get_exception(), j.cpu.get_exception()), "data": j.vm.get_mem(jitrun.DATA, 0x1000)}
            for r in ["R%d" % i for i in range(13)] + ["SP", "LR", "zf", "nf", "of", "cf"]:
                st[r] = getattr(j.cpu, r)
            results.append((backend, maxline, st))
        b0, m0, s0 = results[0]
        for b1, m1, s1 in results[1:]:
            for k in s0:
                if s0[k] != s1[k]:
                    if k == "data":
                        o = next(o for o in range(0x1000) if s0[k][o] != s1[k][o])
                        return (False, "data byte %#x = %#04x under %s (jit_maxline %d), %#04x under %s" % (jitrun.DATA + o, s1[k][o], b1, m1, s0[k][o], b0), True)
                    return (False, "%s = %r under %s (jit_maxline %d), %r under %s" % (k, s1[k] if not isinstance(s1[k], int) else hex(s1[k]), b1, m1,
                                                                                       s0[k] if not isinstance(s0[k], int) else hex(s0[k]), b0), True)
        return (True, "", True)


# AArch64 (little endian) -----------------------------------------------------------------------------------------------------------

A64_POOL = ["ADD X%d, X%d, X%d", "ADDS X%d, X%d, X%d", "SUB X%d, X%d, 0x10", "SUBS W%d, W%d, 0x10", "AND X%d, X%d, X%d", "ANDS W%d, W%d, W%d",
            "ORR X%d, X%d, 0xFF", "EOR X%d, X%d, X%d", "MOV X%d, X%d", "CMP X%d, X%d", "CMP W%d, 0x5", "TST X%d, 0x1", "MADD X%d, X%d, X%d, X%d",
            "MSUB W%d, W%d, W%d, W%d", "LSL X%d, X%d, X%d", "ADD X%d, X%d, X%d LSL 0x2", "SUB W%d, W%d, W%d ASR 0x3", "ADC X%d, X%d, X%d",
            "ADCS W%d, W%d, W%d", "SBC X%d, X%d, X%d", "SBCS X%d, X%d, X%d", "NEG X%d, X%d", "MVN X%d, X%d", "BIC X%d, X%d, X%d",
            "ORN W%d, W%d, W%d", "EON X%d, X%d, X%d", "CSEL X%d, X%d, X%d, EQ", "CSINC W%d, W%d, W%d, NE", "CSET W%d, LT", "CSNEG X%d, X%d, X%d, GE",
            "CSEL X%d, X%d, X%d, VS", "CLZ X%d, X%d", "REV16 W%d, W%d", "EXTR X%d, X%d, X%d, 0x7", "UMULH X%d, X%d, X%d",
            "SMULH X%d, X%d, X%d", "UMADDL X%d, W%d, W%d, X%d", "CCMP X%d, X%d, 0x4, EQ", "MOVZ W%d, 0x1234", "MOVN X%d, 0x12",
            "ORR X%d, X%d, 0x1\n    UDIV X%d, X%d, X%d", "ORR W%d, W%d, 0x1\n    SDIV W%d, W%d, W%d"]
A64_MEM = ["LDR X%d, [X11, 0x%x]", "STR X%d, [X11, 0x%x]", "LDR W%d, [X11, 0x%x]", "STR W%d, [X11, 0x%x]", "LDRB W%d, [X11, 0x%x]", "STRB W%d, [X11, 0x%x]",
           "LDRH W%d, [X11, 0x%x]", "STRH W%d, [X11, 0x%x]", "LDRSB X%d, [X11, 0x%x]", "LDRSW X%d, [X11, 0x%x]"]


def a64_instr(rng):
    if rng.random() < 0.25:
        t = rng.choice(A64_MEM)
        off = rng.randrange(0, 48)
        m = t.split()[0]
        if m in ("LDR", "STR"):
            off &= ~7 if " X%d" in t[:8] else ~3
        elif "H" in m:
            off &= ~1
        elif m == "LDRSW":
            off &= ~3
        return t % (rng.randrange(0, 9), off)
    t = rng.choice(A64_POOL)
    if "DIV" in t:
        d = rng.randrange(0, 9)
        return t % (d, d, rng.randrange(0, 9), rng.randrange(0, 9), d)
    return t % tuple(rng.randrange(0, 9) for _ in range(t.count("%d")))


def a64_program(rng):
    lines = ["main:", "    MOV X12, LR"]
    n = rng.randint(2, 5)
    for i in range(n):
        lines.append("g%d:" % i)
        lines += ["    " + a64_instr(rng) for _ in range(rng.randint(4, 12))]
        if rng.random() < 0.3:
            lines.append("    BL sub")
        if i + 1 < n and rng.random() < 0.7:
            k = rng.random()
            if k < 0.6:
                lines.append("    CMP X%d, X%d" % (rng.randrange(9), rng.randrange(9)))
                lines.append("    B.%s g%d" % (rng.choice(("EQ", "NE", "CS", "CC", "MI", "HI", "GE", "LT", "GT", "LE")), rng.randrange(i + 1, n)))
            elif k < 0.8:
                lines.append("    CBZ X%d, g%d" % (rng.randrange(9), rng.randrange(i + 1, n)))
            else:
                lines.append("    CBNZ W%d, g%d" % (rng.randrange(9), rng.randrange(i + 1, n)))
    lines += ["    CMP X0, X1", "    RET X12", "sub:", "    ADD X9, X9, 0x3", "    EOR X10, X10, X9", "    RET LR"]
    return "\n".join(lines) + "\n"


class BackendCasesA64(BoundedContract):
    BOUND = "seeded family of AArch64 (little endian) programs from a pool of ~55 instruction forms (props/C20.py)"
    CASE_SECONDS = 300

    def funcs(self):
        jitrun.build_exts()
        from miasm.arch.aarch64.sem import Lifter_Aarch64l
        from miasm.jitter.jitcore_python import JitCore_Python
        return [Lifter_Aarch64l.get_ir, JitCore_Python.add_block]

    def cases(self):
        return list(range(16 if self.tier == "quick" else 400))

    def gen(self, case):
        rng = random.Random(20640 + case)
        return rng, a64_program(rng)

    def show(self, case):
        return "AArch64 program #%d: %s" % (case, jitrun.show_program(self.gen(case)[1]))

    def check(self, case):
        b = jitrun.build_exts()
        from miasm.analysis.machine import Machine
        from miasm.arch.aarch64.arch import mn_aarch64
        from miasm.core import asmblock, parse_asm
        from miasm.core.interval import interval
        from miasm.core.locationdb import LocationDB
        from miasm.jitter.csts import PAGE_READ, PAGE_WRITE
        rng, text = self.gen(case)
        loc_db = LocationDB()
        try:
            asmcfg = parse_asm.parse_txt(mn_aarch64, "l", text, loc_db)
            loc_db.set_location_offset(loc_db.get_name_location("main"), jitrun.CODE)
            patches = asmblock.asm_resolve_final(mn_aarch64, asmcfg, interval([(jitrun.CODE, jitrun.CODE + 0xF00)]))
        except Exception as ex:     # noqa
            return (False, "harness: the AArch64 program does not assemble (%s: %s)" % (type(ex).__name__, str(ex)[:120]), True)
        code = bytearray(0x1000)
        for o, d in patches.items():
            code[o - jitrun.CODE:o - jitrun.CODE + len(d)] = d
        regs = dict(("X%d" % i, rng.choice((0, 1, 0xFFFFFFFF, 0x80000000, 0xFFFFFFFFFFFFFFFF, 0x8000000000000000, 0x7FFFFFFFFFFFFFFF,
                                             rng.getrandbits(64), rng.getrandbits(32), rng.getrandbits(8)))) for i in range(11))
        flags = dict((f, rng.getrandbits(1)) for f in ("zf", "nf", "of", "cf"))
        data = bytes(rng.getrandbits(8) for _ in range(0x40))
        results = []
        for backend, maxline in (("python", 50), ("gcc", 50), ("gcc", rng.choice((1, 2, 3)))):
            j = Machine("aarch64l").jitter(LocationDB(), backend)
            if not sys.modules["miasm.jitter.arch.JitCore_aarch64"].__file__.startswith(b["dir"]):
                return (False, "harness: the AArch64 jitter does not use the extension compiled from the tree", True)
            if backend == "gcc":
                j.jit.libs = list(b["libs_aarch64"])
                j.jit.tempdir = b["cache"]
            j.jit.set_options(jit_maxline=maxline)
            j.vm.add_memory_page(jitrun.CODE, PAGE_READ | PAGE_WRITE, bytes(code), "code")
            j.vm.add_memory_page(jitrun.DATA, PAGE_READ | PAGE_WRITE, b"\x00" * 0x100 + data + b"\x00" * (0x1000 - 0x100 - len(data)), "data")
            j.init_stack()
            for r, v in regs.items():
                setattr(j.cpu, r, v)
            for f, v in flags.items():
                setattr(j.cpu, f, v)
            j.cpu.X11 = jitrun.DATA + 0x100
            j.cpu.LR = jitrun.END
            j.add_breakpoint(jitrun.END, lambda jj: False)
            steps = [0]

            def cb(jj):
                steps[0] += 1
                return steps[0] < 2000
            j.exec_cb = cb
            try:
                j.init_run(jitrun.CODE)
                res = j.continue_run()
            except Exception as ex:     # noqa
                import traceback
                tb = traceback.extract_tb(ex.__traceback__)[-1]
                return (False, "%s back end (jit_maxline %d): the run raises %s: %s (%s:%d)" % (backend, maxline, type(ex).__name__, str(ex)[:160],
                                                                                            tb.filename.split("/")[-1], tb.lineno), True)
            st = {"pc": j.pc, "res": res, "exc": (j.vm.get_exception(), j.cpu.get_exception()), "data": j.vm.get_mem(jitrun.DATA, 0x1000)}
            for r in ["X%d" % i for i in range(30)] + ["LR", "SP", "zf", "nf", "of", "cf"]:
                st[r] = getattr(j.cpu, r)
            results.append((backend, maxline, st))
        b0, m0, s0 = results[0]
        for b1, m1, s1 in results[1:]:
            for k in s0:
                if s0[k] != s1[k]:
                    if k == "data":
                        o = next(o for o in range(0x1000) if s0[k][o] != s1[k][o])
                        return (False, "data byte %#x = %#04x under %s (jit_maxline %d), %#04x under %s" % (jitrun.DATA + o, s1[k][o], b1, m1, s0[k][o], b0), True)
                    return (False, "%s = %r under %s (jit_maxline %d), %r under %s" % (k, s1[k] if not isinstance(s1[k], int) else hex(s1[k]), b1, m1,
                                                                                       s0[k] if not isinstance(s0[k], int) else hex(s0[k]), b0), True)
        return (True, "", True)


# MIPS32 (little endian) ------------------------------------------------------------------------------------------------------------

MIPS_R = ["A0", "A1", "A2", "A3", "V0", "V1", "T0", "T1", "T2", "T3"]
MIPS_POOL = ["ADDIU %s, %s, 0x10", "ADDIU %s, %s, 0xFFFFFFF0", "ADDU %s, %s, %s", "SUBU %s, %s, %s", "AND %s, %s, %s", "OR %s, %s, %s", "XOR %s, %s, %s",
             "NOR %s, %s, %s", "SLT %s, %s, %s", "SLTU %s, %s, %s", "SLTI %s, %s, 0x10", "SLTIU %s, %s, 0x20", "SLL %s, %s, 0x3", "SRL %s, %s, 0x4",
             "SRA %s, %s, 0x1F", "SLLV %s, %s, %s", "SRLV %s, %s, %s", "SRAV %s, %s, %s", "LUI %s, 0x1234", "ORI %s, %s, 0x1234", "ANDI %s, %s, 0xFF",
             "XORI %s, %s, 0xFF", "MULT %s, %s", "MULTU %s, %s", "MFLO %s", "MFHI %s", "MUL %s, %s, %s", "MOVN %s, %s, %s", "MOVZ %s, %s, %s",
             "SEB %s, %s", "SEH %s, %s", "WSBH %s, %s", "EXT %s, %s, 0x4, 0x8", "INS %s, %s, 0x4, 0x8", "ROTR %s, %s, 0x3", "MTLO %s", "MTHI %s",
             "ORI %s, %s, 0x1\n    DIVU A0, %s"]
MIPS_MEM = ["LW %s, 0x%x(S0)", "SW %s, 0x%x(S0)", "LB %s, 0x%x(S0)", "LBU %s, 0x%x(S0)", "LH %s, 0x%x(S0)", "LHU %s, 0x%x(S0)", "SB %s, 0x%x(S0)", "SH %s, 0x%x(S0)"]


def mips_instr(rng):
    if rng.random() < 0.25:
        t = rng.choice(MIPS_MEM)
        off = rng.randrange(0, 32)
        m = t.split()[0]
        if m in ("LW", "SW"):
            off &= ~3
        elif m in ("LH", "LHU", "SH"):
            off &= ~1
        return t % (rng.choice(MIPS_R), off)
    t = rng.choice(MIPS_POOL)
    if "DIVU" in t:
        d = rng.choice(MIPS_R[1:])
        return t % (d, d, d)
    return t % tuple(rng.choice(MIPS_R) for _ in range(t.count("%s")))


def mips_program(rng):
    lines = ["main:", "    ADDU S7, RA, ZERO"]
    n = rng.randint(2, 5)

    def slot():
        # the instruction of the delay slot executes whether the branch is taken or not
        return "    NOP" if rng.random() < 0.5 else "    " + rng.choice(("ADDIU T4, T4, 0x1", "XOR T5, T5, A0", "SW A1, 0x20(S0)", "ADDU T6, A0, A1"))
    for i in range(n):
        lines.append("g%d:" % i)
        lines += ["    " + mips_instr(rng) for _ in range(rng.randint(4, 12))]
        if rng.random() < 0.3:
            lines += ["    JAL sub", slot()]
        if i + 1 < n and rng.random() < 0.7:
            tgt = "g%d" % rng.randrange(i + 1, n)
            k = rng.random()
            if k < 0.5:
                lines.append("    %s %s, %s, %s" % (rng.choice(("BEQ", "BNE")), rng.choice(MIPS_R), rng.choice(MIPS_R + ["ZERO"]), tgt))
            elif k < 0.9:
                lines.append("    %s %s, %s" % (rng.choice(("BLEZ", "BGTZ", "BLTZ", "BGEZ")), rng.choice(MIPS_R), tgt))
            else:
                lines.append("    J %s" % tgt)
            lines.append(slot())
    lines += ["    JR S7", "    NOP", "sub:", "    ADDIU T8, T8, 0x3", "    XOR T9, T9, T8", "    JR RA", "    NOP"]
    return "\n".join(lines) + "\n"


class BackendCasesMips(BoundedContract):
    BOUND = "seeded family of MIPS32 (little endian) programs from a pool of ~45 instruction forms, branches with filled delay slots (props/C20.py)"
    CASE_SECONDS = 300

    def funcs(self):
        jitrun.build_exts()
        from miasm.arch.mips32.jit import mipsCGen
        from miasm.jitter.jitcore_python import JitCore_Python
        return [mipsCGen.block2assignblks, JitCore_Python.add_block]

    def cases(self):
        return list(range(16 if self.tier == "quick" else 400))

    def gen(self, case):
        rng = random.Random(20320 + case)
        return rng, mips_program(rng)

    def show(self, case):
        return "MIPS32 program #%d: %s" % (case, jitrun.show_program(self.gen(case)[1]))

    def check(self, case):
        b = jitrun.build_exts()
        from miasm.analysis.machine import Machine
        from miasm.arch.mips32.arch import mn_mips32
        from miasm.core import asmblock, parse_asm
        from miasm.core.interval import interval
        from miasm.core.locationdb import LocationDB
        from miasm.jitter.csts import PAGE_READ, PAGE_WRITE
        rng, text = self.gen(case)
        loc_db = LocationDB()
        try:
            asmcfg = parse_asm.parse_txt(mn_mips32, "l", text, loc_db)
            loc_db.set_location_offset(loc_db.get_name_location("main"), jitrun.CODE)
            patches = asmblock.asm_resolve_final(mn_mips32, asmcfg, interval([(jitrun.CODE, jitrun.CODE + 0xF00)]))
        except Exception as ex:     # noqa
            return (False, "harness: the MIPS32 program does not assemble (%s: %s)" % (type(ex).__name__, str(ex)[:120]), True)
        code = bytearray(0x1000)
        for o, d in patches.items():
            code[o - jitrun.CODE:o - jitrun.CODE + len(d)] = d
        names = MIPS_R + ["T4", "T5", "T6", "T7", "T8", "T9", "S1", "S2"]
        regs = dict((r, rng.choice((0, 1, 0xFFFFFFFF, 0x80000000, 0x7FFFFFFF, rng.getrandbits(32), rng.getrandbits(8)))) for r in names)
        data = bytes(rng.getrandbits(8) for _ in range(0x40))
        results = []
        for backend, maxline in (("python", 50), ("gcc", 50), ("gcc", rng.choice((1, 2, 3)))):
            j = Machine("mips32l").jitter(LocationDB(), backend)
            if not sys.modules["miasm.jitter.arch.JitCore_mips32"].__file__.startswith(b["dir"]):
                return (False, "harness: the MIPS32 jitter does not use the extension compiled from the tree", True)
            if backend == "gcc":
                j.jit.libs = list(b["libs_mips32"])
                j.jit.tempdir = b["cache"]
            j.jit.set_options(jit_maxline=maxline)
            j.vm.add_memory_page(jitrun.CODE, PAGE_READ | PAGE_WRITE, bytes(code), "code")
            j.vm.add_memory_page(jitrun.DATA, PAGE_READ | PAGE_WRITE, b"\x00" * 0x100 + data + b"\x00" * (0x1000 - 0x100 - len(data)), "data")
            j.init_stack()
            for r, v in regs.items():
                setattr(j.cpu, r, v)
            j.cpu.S0 = jitrun.DATA + 0x100
            j.cpu.RA = jitrun.END
            j.add_breakpoint(jitrun.END, lambda jj: False)
            steps = [0]

            def cb(jj):
                steps[0] += 1
                return steps[0] < 2000
            j.exec_cb = cb
            try:
                j.init_run(jitrun.CODE)
                res = j.continue_run()
            except Exception as ex:     # noqa
                import traceback
                tb = traceback.extract_tb(ex.__traceback__)[-1]
                return (False, "%s back end (jit_maxline %d): the run raises %s: %s (%s:%d)" % (backend, maxline, type(ex).__name__, str(ex)[:160],
                                                                                            tb.filename.split("/")[-1], tb.lineno), True)
            st = {"pc": j.pc, "res": res, "exc": (j.vm.get_exception(), j.cpu.get_exception()), "data": j.vm.get_mem(jitrun.DATA, 0x1000)}
            for r in names + ["S0", "S7", "SP", "RA", "R_LO", "R_HI"]:
                st[r] = getattr(j.cpu, r)
            results.append((backend, maxline, st))
        b0, m0, s0 = results[0]
        for b1, m1, s1 in results[1:]:
            for k in s0:
                if s0[k] != s1[k]:
                    if k == "data":
                        o = next(o for o in range(0x1000) if s0[k][o] != s1[k][o])
                        return (False, "data byte %#x = %#04x under %s (jit_maxline %d), %#04x under %s" % (jitrun.DATA + o, s1[k][o], b1, m1, s0[k][o], b0), True)
                    return (False, "%s = %r under %s (jit_maxline %d), %r under %s" % (k, s1[k] if not isinstance(s1[k], int) else hex(s1[k]), b1, m1,
                                                                                       s0[k] if not isinstance(s0[k], int) else hex(s0[k]), b0), True)
        return (True, "", True)


def targets(tier):
    return (chunked(BackendCases, "C20/backends", 16, tier) + chunked(BackendCasesArm, "C20/backends-arm", 16, tier) +
            chunked(BackendCasesA64, "C20/backends-aarch64", 16, tier) + chunked(BackendCasesMips, "C20/backends-mips32", 16, tier))

