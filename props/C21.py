"""C21 -- emulation results do not depend on block partitioning or caching (jitter/jitcore.py, JitCore.c, core/utils.py BoundedDict,
asmblock.disasmEngine lines_wd, jitcore_python.py).

A history property over the emulation loop (Python + C + translated code): no function-level contract carries it, so it is decided
relationally on the real system.  Bounded stand-in, labelled: for every program of a seeded family of x86-32 guest programs and
every configuration of a seeded family of (backend, maximum block length, per-call execution limit, warm / cold translation cache,
cache-size limit) the run ends in the same registers, flags, memory, exception flags and breakpoint-hit sequence as the reference
run of the same real jitter in which partitioning and caching cannot matter (one instruction per block, one block per call, cache
emptied before every step).  The extension modules are compiled from the tree's C sources on every run."""
import random

from harness.bounded import BoundedContract, chunked
from props import jitrun

PROPERTY = {
    "id": "C21",
    "level": "exploration",
    "engine": "bounded-contract",
    "technique": "bounded stand-in: relational run-time check on the real jitter (Python and GCC back ends, extensions compiled from the "
                 "tree on every run) over a seeded family of x86-32 programs and of partitioning / caching configurations, against "
                 "the single-step cache-free run of the same jitter",
    "explanation": "For every generated program (3..7 blocks of ALU, memory, stack and call instructions, each block ending with a fuel "
                   "test and a conditional branch to an arbitrary block, so loops and re-executions of translated code are common; a "
                   "register accumulates the identities of the executed blocks, so the final state determines the sequence of "
                   "executed blocks) and every initial state: the reference run (python back end, jit_maxline=1, "
                   "max_exec_per_call=1, clear_jitted_blocks() before every step) gives the final state; then for 6 (quick) "
                   "configurations drawn from back end in {python, gcc} x jit_maxline in {1,2,3,5,50} x max_exec_per_call in "
                   "{0,1,2,7} x {cold, warm: the program is run a first time on the same jitter and the state restored; breakpoints registered before or after the warm-up} x cache limit "
                   "in {none, 1, 2, 4 blocks (evictions)} the run reaches the return address with the same registers, flags, data "
                   "page, stack, code page and exception flags, and the same sequence of hits of a sparse set of breakpoints. "
                   "Bounded: exploration, not proof.",
    "rule": "one case = one program and initial state: reference + 6 configurations (thorough: 10)",
    "trusted_base": ["CPython, gcc (extensions and translated blocks); the reference is the same jitter with the degree of freedom "
                     "removed, so a defect that does not depend on partitioning / caching / back end is not seen here; the "
                     "generator and the comparison are written in props/jitrun.py / props/C21.py"],
    "assumptions": ["x86-32 guests only; LLVM back end not available (no llvmlite)", "seeded family: 32 quick / 400 thorough programs",
                    "the sequence of executed instruction addresses is observed through the block-identity accumulator, the sparse "
                    "breakpoints and the final state, not instruction by instruction (a breakpoint on every instruction would fix "
                    "the partitioning)"],
}


def gen_config(rng, quick_gcc=True):
    return {"backend": rng.choice(("python", "python", "gcc")), "maxline": rng.choice((1, 2, 3, 5, 50)), "max_exec": rng.choice((0, 0, 1, 2, 7)),
            "warm": rng.random() < 0.4, "late_bps": rng.random() < 0.5, "cache_limit": rng.choice((None, None, 1, 2, 4))}


def reference(code, st, bps=()):
    r = jitrun.Run("python", code, st)
    r.reference_mode()
    for a in bps:
        r.j.add_breakpoint(a, lambda j, a=a: r.hits.append(a) or True)
    res = r.go()
    return r, res


def run_config(cfg, code, st, bps=()):
    r = jitrun.Run(cfg["backend"], code, st, maxline=cfg["maxline"], max_exec=cfg["max_exec"], cache_limit=cfg["cache_limit"])
    r.limit_steps()
    late = cfg["warm"] and cfg.get("late_bps")
    if not late:
        for a in bps:
            r.j.add_breakpoint(a, lambda j, a=a: r.hits.append(a) or True)
    if cfg["warm"]:
        r.go()
        r.reset_state()
        r.limit_steps()
        if late:
            # the breakpoints arrive on a warm cache: blocks holding their addresses are already translated
            for a in bps:
                r.j.add_breakpoint(a, lambda j, a=a: r.hits.append(a) or True)
    res = r.go()
    return r, res


class PartitionCases(BoundedContract):
    BOUND = "seeded family of x86-32 programs, initial states and partitioning / caching configurations (props/jitrun.py, props/C21.py)"
    CASE_SECONDS = 300

    def funcs(self):
        jitrun.build_exts()
        from miasm.jitter.jitcore import JitCore
        from miasm.jitter.jitload import Jitter
        from miasm.core.utils import BoundedDict
        from miasm.jitter.jitcore_python import JitCore_Python
        return [JitCore.run_at, JitCore.disasm_and_jit_block, JitCore.del_block_in_range, Jitter.runiter_once, Jitter.continue_run,
                BoundedDict.__setitem__, JitCore_Python.add_block]

    def cases(self):
        return list(range(32 if self.tier == "quick" else 400))

    def gen(self, case):
        rng = random.Random(2100 + case)
        text = jitrun.gen_body(rng)
        st = jitrun.init_state(rng)
        return rng, text, st

    def show(self, case):
        rng, text, st = self.gen(case)
        return "program #%d: %s ; initial %s" % (case, jitrun.show_program(text), dict((k, hex(v)) for k, v in st.items() if isinstance(v, int)))

    def check(self, case):
        rng, text, st = self.gen(case)
        code, labels, instrs = jitrun.assemble(text)
        bps = set(rng.sample(instrs, min(len(instrs), rng.choice((0, 1, 2, 3)))))
        if rng.random() < 0.6:
            # one-byte instructions that end a translated block without starting it: the RET of the subroutine, the last
            # instruction before a label
            one = [a for a, b in zip(instrs, instrs[1:]) if b - a == 1] + [labels["sub"] + 5]
            bps |= set(rng.sample(one, min(len(one), 2)))
        bps = sorted(bps)
        ref, res = reference(code, st, bps)
        if res is not False or ref.hits[-1:] != [jitrun.END] or ref.fault:
            return (False, "harness: the reference run does not reach the return address (%r, fault %r, %d steps)" % (res, ref.fault, ref.steps), True)
        want = ref.state()
        for k in range(6 if self.tier == "quick" else 10):
            cfg = gen_config(rng)
            try:
                r, res = run_config(cfg, code, st, bps)
            except Exception as ex:     # noqa
                return (False, "configuration %s: the run raises %s: %s" % (cfg, type(ex).__name__, str(ex)[:160]), True)
            if res is not False or r.hits[-1:] != [jitrun.END]:
                return (False, "configuration %s: the run does not stop at the return address (result %r, fault %r, pc %#x)" % (
                    cfg, res, r.fault, r.j.pc), True)
            d = jitrun.diff_state(r.state(), want)
            if d:
                return (False, "configuration %s (breakpoints %s): %s" % (cfg, [hex(x) for x in bps], d), True)
            if r.hits != ref.hits:
                return (False, "configuration %s: breakpoint hits %s, the reference has %s" % (cfg, [hex(x) for x in r.hits], [hex(x) for x in ref.hits]), True)
        return (True, "", True)


def targets(tier):
    return chunked(PartitionCases, "C21/partition-cache", 16, tier)

