"""C22 -- modified code is re-translated before it runs again (jitter/jitcore.py, vm_mngr.c write tracking, jitload.py
exception_automod, codegen.py).

A history property over the emulation loop: decided relationally on the real system.  Bounded stand-in, labelled: for every program
of a seeded family of self-modifying x86-32 programs (guest stores that rewrite the first, a middle or the last byte of
instructions that were already executed -- and therefore translated -- and run again later, in the same or in another block) and
for host writes through the memory API while the run is stopped at a breakpoint, the run under several block lengths, per-call
limits and both back ends ends in the same state as the reference run of the same jitter that translates nothing ahead (one
instruction per block, cache emptied before every step, so every instruction is decoded from the current memory)."""
import random

from harness.bounded import BoundedContract, chunked
from props import jitrun

PROPERTY = {
    "id": "C22",
    "level": "exploration",
    "engine": "bounded-contract",
    "technique": "bounded stand-in: relational run-time check on the real jitter (Python and GCC back ends, extensions compiled from the "
                 "tree on every run) of self-modifying programs and host code writes against the single-step cache-free run",
    "explanation": "For every generated program: 1..3 patch sites `site_k: ADD/XOR/SUB EAX, imm32` placed in random blocks of a looping "
                   "program, and guest stores `MOV BYTE PTR [site_k + o], v` with o in {0 (opcode byte: ADD/SUB/XOR/OR EAX,imm32 "
                   "opcodes), 1 (first immediate byte), 2, 4 (last byte)} or `MOV DWORD PTR [site_k + 1], imm32` placed in random "
                   "blocks (before the site in the same block, after it, in another block; the loop structure re-executes both); "
                   "optionally the run is stopped at a breakpoint after the site was executed and the HOST rewrites a byte of a "
                   "site through vm.set_mem before the run continues. Under 5 configurations (back end, block length 1..50, "
                   "per-call limit) the final registers, flags, data, stack, code page and exception flags equal those of the "
                   "reference run, in which every instruction is decoded from the memory as it is when it executes. A second family "
                   "(host-history) runs ONE jitter 4..8 times over a three-way dispatch program, the host rewriting between the runs "
                   "the displacement of a short jump followed by never-translated bytes (the last byte of a translated region) or "
                   "an immediate byte of a block on or off the current path; every run must end as a fresh jitter on the same "
                   "bytes does. Bounded: exploration, not proof.",
    "rule": "one case = one self-modifying program and initial state: reference + 5 configurations",
    "trusted_base": ["CPython, gcc; the reference is the same jitter with translation ahead removed; generator and comparison are "
                     "written in props/jitrun.py / props/C22.py"],
    "assumptions": ["x86-32 guests; seeded family: 32 quick / 300 thorough programs", "patches keep instruction lengths (opcode and "
                    "immediate bytes of 5-byte `op EAX, imm32` instructions)"],
}

OPCODES = (0x05, 0x2D, 0x35, 0x0D)          # ADD / SUB / XOR / OR EAX, imm32


def gen_smc(rng):
    nsites = rng.randint(1, 3)
    smc = []
    for _ in range(rng.randint(1, 4)):
        k = rng.randrange(nsites)
        o = rng.choice((0, 1, 2, 4, "d"))
        if o == 0:
            patch = "MOV BYTE PTR [site%d], 0x%x" % (k, rng.choice(OPCODES))
        elif o == "d":
            patch = "MOV DWORD PTR [site%d + 0x1], 0x%x" % (k, rng.getrandbits(32))
        else:
            patch = "MOV BYTE PTR [site%d + 0x%x], 0x%x" % (k, o, rng.getrandbits(8))
        smc.append((rng.randrange(8), patch))
    # sites are created by gen_body for indices 0..len(smc)-1: give it one entry per site, the others as extra patches
    return nsites, smc


class SmcCases(BoundedContract):
    BOUND = "seeded family of self-modifying x86-32 programs and host code writes (props/jitrun.py, props/C22.py)"
    CASE_SECONDS = 300

    def funcs(self):
        jitrun.build_exts()
        from miasm.jitter.jitcore import JitCore
        from miasm.jitter.jitload import Jitter
        return [JitCore.updt_automod_code_range, JitCore.updt_automod_code, JitCore.del_block_in_range, JitCore.add_block_to_mem_interval,
                JitCore.run_at, Jitter.init_exceptions_handler, Jitter.runiter_once]

    def cases(self):
        return list(range(32 if self.tier == "quick" else 300))

    def gen(self, case):
        rng = random.Random(2200 + case)
        nsites, smc = gen_smc(rng)
        # gen_body creates one site per entry of its `smc` argument: pad the list so that every referenced site exists
        while len(smc) < nsites:
            smc.append((rng.randrange(8), "NOP"))
        text = jitrun.gen_body(rng, smc=smc)
        st = jitrun.init_state(rng)
        st["fuel"] = rng.randint(6, 30)
        return rng, text, st

    def show(self, case):
        rng, text, st = self.gen(case)
        return "program #%d: %s ; initial %s" % (case, jitrun.show_program(text), dict((k, hex(v)) for k, v in st.items() if isinstance(v, int)))

    def check(self, case):
        rng, text, st = self.gen(case)
        try:
            code, labels, instrs = jitrun.assemble(text)
        except Exception as ex:     # noqa
            return (False, "harness: the program does not assemble (%s: %s)" % (type(ex).__name__, str(ex)[:100]), True)
        sites = sorted(v for k, v in labels.items() if k.startswith("site"))
        # host write: stop at a breakpoint (an instruction of the program), rewrite one byte of a site, continue
        host = None
        if rng.random() < 0.5:
            host = (rng.choice(instrs), rng.choice(sites) + rng.choice((0, 1, 4)), rng.choice(OPCODES))
            if (host[1] - sites[0]) % 5 and host[1] not in sites:
                host = (host[0], host[1], rng.getrandbits(8))
            elif host[1] not in sites:
                host = (host[0], host[1], rng.getrandbits(8))

        def drive(r):
            stopped = []
            if host is not None:
                def cb(j):
                    if not stopped:
                        stopped.append(j.pc)
                        return False
                    return True
                r.j.add_breakpoint(host[0], cb)
            res = r.go()
            if host is not None and stopped and not r.hits:
                r.j.vm.set_mem(host[1], bytes([host[2]]))
                res = r.resume()
            return res

        ref = jitrun.Run("python", code, st)
        ref.reference_mode()
        try:
            res = drive(ref)
        except Exception as ex:     # noqa
            return (False, "reference run raises %s: %s" % (type(ex).__name__, str(ex)[:160]), True)
        if res is not False or ref.hits != [jitrun.END] or ref.fault:
            # a patched opcode may lead anywhere only through data: the family keeps lengths, so this is a harness problem
            return (False, "harness: the reference run does not reach the return address (result %r, fault %r, pc %#x)" % (res, ref.fault, ref.j.pc), True)
        want = ref.state()
        patched = want["code"] != code
        for k in range(5):
            cfg = {"backend": rng.choice(("python", "python", "gcc")), "maxline": rng.choice((1, 2, 3, 5, 50, 50)), "max_exec": rng.choice((0, 0, 1, 2, 7))}
            r = jitrun.Run(cfg["backend"], code, st, maxline=cfg["maxline"], max_exec=cfg["max_exec"])
            r.limit_steps()
            try:
                res = drive(r)
            except Exception as ex:     # noqa
                return (False, "configuration %s: the run raises %s: %s" % (cfg, type(ex).__name__, str(ex)[:160]), True)
            if res is not False or r.hits != [jitrun.END]:
                return (False, "configuration %s, host write %s: the run does not end at the return address (result %r, pc %#x, fault %r)" % (
                    cfg, host and tuple(hex(x) for x in host), res, r.j.pc, r.fault), True)
            d = jitrun.diff_state(r.state(), want)
            if d:
                return (False, "configuration %s, host write %s: %s" % (cfg, host and tuple(hex(x) for x in host), d), True)
        return (True, "", patched)


HIST_TEXT = """
main:
    MOV EBX, 0x%x
jsite:
    JMP A
    NOP
    NOP
    NOP
A:
    ADD EBX, 0x%x
    RET
B:
    XOR EBX, 0x%x
    RET
C:
    SUB EBX, 0x%x
    RET
"""


class HistoryCases(BoundedContract):
    """several complete runs of ONE jitter, the host rewriting a byte of the code between them: the displacement of a short jump
    that is followed by never-translated bytes (the last byte of a translated region), or an immediate byte of a block that is on or
    off the current path"""
    BOUND = "seeded family of host-write histories over a three-way dispatch program (props/C22.py)"
    CASE_SECONDS = 300

    def funcs(self):
        jitrun.build_exts()
        from miasm.jitter.jitcore import JitCore
        return [JitCore.updt_automod_code_range, JitCore.updt_automod_code, JitCore.del_block_in_range, JitCore.add_block_to_mem_interval]

    def cases(self):
        return list(range(48 if self.tier == "quick" else 600))

    def gen(self, case):
        rng = random.Random(22000 + case)
        imms = [0x01010101 * rng.randint(1, 9) + rng.getrandbits(8) for _ in range(4)]
        text = HIST_TEXT % tuple(imms)
        hist = []
        for _ in range(rng.randint(3, 7)):
            if rng.random() < 0.5:
                hist.append(("jmp", rng.choice("ABC")))
            else:
                hist.append(("imm", rng.choice("ABC"), rng.randrange(4), rng.getrandbits(8)))
        return rng, text, imms, hist

    def show(self, case):
        rng, text, imms, hist = self.gen(case)
        return "history #%d: constants %s, rounds %s" % (case, [hex(x) for x in imms], hist)

    def check(self, case):
        rng, text, imms, hist = self.gen(case)
        code, labels, instrs = jitrun.assemble(text)
        if code[labels["jsite"] - jitrun.CODE] != 0xEB:
            return (False, "harness: the dispatch jump is not a short jump", True)
        st = jitrun.init_state(rng)
        cfg = {"backend": rng.choice(("python", "gcc")), "maxline": rng.choice((1, 2, 50, 50)), "max_exec": rng.choice((0, 0, 1, 3))}
        r = jitrun.Run(cfg["backend"], code, st, maxline=cfg["maxline"], max_exec=cfg["max_exec"])
        cur = bytearray(code)

        def imm_at(lbl, k):
            base = labels[lbl] - jitrun.CODE
            pat = (imms[1 + "ABC".index(lbl)] & 0xFFFFFFFF).to_bytes(4, "little")
            i = bytes(code).find(pat, base, base + 8)
            return jitrun.CODE + i + k

        for n, act in enumerate([None] + hist):
            # the state is restored BEFORE the host write: restoring clears the exception flags, among them the pending
            # EXCEPT_CODE_AUTOMOD a host write into translated code leaves for the next run
            r.reset_state()
            if act is not None:
                if act[0] == "jmp":
                    addr = labels["jsite"] + 1
                    val = (labels[act[1]] - (labels["jsite"] + 2)) & 0xFF
                else:
                    addr, val = imm_at(act[1], act[2]), act[3]
                r.j.vm.set_mem(addr, bytes([val]))
                cur[addr - jitrun.CODE] = val
            r.limit_steps()
            try:
                res = r.go()
            except Exception as ex:     # noqa
                return (False, "configuration %s, round %d (%s): the run raises %s: %s" % (cfg, n, act, type(ex).__name__, str(ex)[:120]), True)
            ref = jitrun.Run("python", bytes(cur), st)
            ref.reference_mode()
            ref.go()
            d = jitrun.diff_state(r.state(), ref.state(), "the run on the patched jitter", "a fresh jitter on the same bytes")
            if d:
                return (False, "configuration %s, round %d after %s (history %s): %s" % (cfg, n, act, hist[:n], d), True)
        return (True, "", True)


def targets(tier):
    return chunked(SmcCases, "C22/self-modifying", 16, tier) + chunked(HistoryCases, "C22/host-history", 16, tier)

