"""C23 -- breakpoints fire exactly when execution reaches their address (jitter/jitload.py, jitter/jitcore.py, core/asmblock.py
split_dis, JitCore.c / Jitgcc.c stop offsets).

A history property over the emulation loop: decided relationally on the real system.  Bounded stand-in, labelled: the REFERENCE
run (one instruction per block, one block per call, cache emptied before every step) gives the sequence T of executed instruction
addresses; a run of the same program with a schedule of breakpoints -- registered before the code is translated, after it was
translated, removed by address, removed by callback from inside a callback, one of them stopping the run -- must call the callbacks
exactly at the positions of T where an instruction at a registered address starts, in that order, must stop with the program
counter on the stopping breakpoint, and must end in the reference's final state."""
import random

from harness.bounded import BoundedContract, chunked
from props import jitrun

PROPERTY = {
    "id": "C23",
    "level": "exploration",
    "engine": "bounded-contract",
    "technique": "bounded stand-in: relational run-time check on the real jitter (Python and GCC back ends, extensions compiled from the "
                 "tree on every run): breakpoint callbacks against the executed-address trace of the single-step cache-free run",
    "explanation": "For every generated x86-32 program and initial state, the reference run records the trace T of executed "
                   "instruction addresses. A schedule is drawn: a set S1 of breakpoints (block starts, mid-block instructions, "
                   "addresses never executed, an address inside an instruction) registered before the run; optionally a stopping "
                   "breakpoint p (its callback returns False): the run must return False with pc == p at the first position of T "
                   "holding p; then, with the code already translated, breakpoints are removed by address and others added (S2), "
                   "p is removed, and the run continues; optionally one callback removes itself (remove_breakpoints_by_callback) "
                   "after its k-th hit. Under 4 configurations (back end, block length, per-call limit) the recorded sequence of "
                   "callback invocations equals the sequence predicted from T and the schedule, no callback is invoked for a removed "
                   "or never-registered address, and the final state equals the reference's; then the same jitter is run a second time "
                   "from the start with a fresh set of breakpoints registered on fully translated code (among them addresses that "
                   "start one translated block and lie inside another). Bounded: exploration, not proof.",
    "rule": "one case = one program, one breakpoint schedule, 4 configurations",
    "trusted_base": ["CPython, gcc; the trace T comes from the same jitter run one instruction at a time (exec_cb before every call); "
                     "the schedule, the prediction and the comparison are written in props/C23.py"],
    "assumptions": ["x86-32 guests; seeded family: 32 quick / 300 thorough programs", "callbacks do not change pc or memory"],
}


def predict(trace, s1, stop, s2, selfrm):
    """expected callback invocations: (address, phase)"""
    out = []
    active = set(s1) | ({stop} if stop is not None else set())
    count = {}
    phase = 1
    for a in trace:
        if a in active:
            out.append(a)
            count[a] = count.get(a, 0) + 1
            if phase == 1 and a == stop:
                # what the schedule does at the stop: remove p and S1 - S2, add S2 - S1 (a breakpoint that removed itself stays removed)
                active = (active - {stop} - (set(s1) - set(s2))) | (set(s2) - set(s1))
                phase = 2
                continue
            if selfrm is not None and a == selfrm[0] and count[a] == selfrm[1]:
                active.discard(a)
    return out


class BpCases(BoundedContract):
    BOUND = "seeded family of x86-32 programs, initial states and breakpoint schedules (props/jitrun.py, props/C23.py)"
    CASE_SECONDS = 300

    def funcs(self):
        jitrun.build_exts()
        from miasm.jitter.jitcore import JitCore
        from miasm.jitter.jitload import CallbackHandler, Jitter
        return [Jitter.add_breakpoint, Jitter.remove_breakpoints_by_address, Jitter.remove_breakpoints_by_callback, Jitter.runiter_once,
                Jitter.run_at, CallbackHandler.call_callbacks, CallbackHandler.remove_callback, JitCore.add_disassembly_splits,
                JitCore.updt_automod_code_range, JitCore.run_at]

    def cases(self):
        return list(range(32 if self.tier == "quick" else 300))

    def gen(self, case):
        rng = random.Random(2300 + case)
        text = jitrun.gen_body(rng, p_fall=0.6)
        st = jitrun.init_state(rng)
        return rng, text, st

    def show(self, case):
        rng, text, st = self.gen(case)
        return "program #%d: %s ; initial %s" % (case, jitrun.show_program(text), dict((k, hex(v)) for k, v in st.items() if isinstance(v, int)))

    def check(self, case):
        rng, text, st = self.gen(case)
        code, labels, instrs = jitrun.assemble(text)
        ref = jitrun.Run("python", code, st)
        ref.reference_mode()
        res = ref.go()
        if res is not False or ref.fault:
            return (False, "harness: the reference run does not reach the return address", True)
        trace = [a for a in ref.trace if a != jitrun.END]
        want = ref.state()
        executed = sorted(set(trace))
        never = [a for a in instrs if a not in executed]
        inside = [a + 1 for a in executed if a + 1 not in instrs]

        def pick(n):
            pool = executed * 3 + never + inside[:3]
            return set(rng.sample(pool, min(len(pool), n)))
        s1 = pick(rng.randint(1, 4))
        stop = rng.choice(trace[len(trace) // 3:]) if rng.random() < 0.7 else None     # not too early: the code should be translated
        if stop is not None:
            s1.discard(stop)
        s2 = set(a for a in s1 if rng.random() < 0.5) | (pick(rng.randint(0, 3)) if stop is not None else set())
        if stop is not None:
            # block labels: a label reached both by a jump (it starts a translated block) and by falling through from the block
            # before it (it is an inner instruction of that one) -- registered once both are translated
            labs = sorted(v for k, v in labels.items() if k[0] == "b" and v in executed and v not in s1)
            s2 |= set(rng.sample(labs, min(len(labs), rng.randint(1, 2))))
        s2.discard(stop)
        cand = [a for a in s1 if a in executed and (stop is None or a in s2)]
        selfrm = (rng.choice(cand), rng.randint(1, 2)) if cand and rng.random() < 0.4 else None
        expected = predict(trace, s1, stop, s2 if stop is not None else s1, selfrm)
        sched = "S1 %s, stop %s, then S2 %s, self-removing %s" % (sorted(hex(x) for x in s1), stop and hex(stop),
                                                              sorted(hex(x) for x in s2) if stop is not None else "-", selfrm and (hex(selfrm[0]), selfrm[1]))
        for k in range(4):
            cfg = {"backend": rng.choice(("python", "python", "gcc")), "maxline": rng.choice((1, 2, 5, 50)), "max_exec": rng.choice((0, 0, 1, 3))}
            r = jitrun.Run(cfg["backend"], code, st, maxline=cfg["maxline"], max_exec=cfg["max_exec"])
            r.limit_steps()
            log = []
            cbs = {}
            counts = {}

            def make(a):
                def cb(j):
                    log.append(a)
                    counts[a] = counts.get(a, 0) + 1
                    if j.pc != a:
                        log.append(("pc", j.pc))
                    if selfrm is not None and a == selfrm[0] and counts[a] == selfrm[1]:
                        j.remove_breakpoints_by_callback(cbs[a])
                    return True
                return cb

            def stop_cb(j):
                log.append(stop)
                return False
            for a in sorted(s1):
                cbs[a] = make(a)
                r.j.add_breakpoint(a, cbs[a])
            if stop is not None:
                r.j.add_breakpoint(stop, stop_cb)
            try:
                res = r.go()
                if stop is not None:
                    if res is not False or r.j.pc != stop or r.hits:
                        return (False, "configuration %s, %s: the run does not stop on the stopping breakpoint %#x (result %r, pc %#x)" % (
                            cfg, sched, stop, res, r.j.pc), True)
                    # the code is translated now: change the set of breakpoints.  Part of the new set is chosen by looking at
                    # the translation cache: addresses that start a translated block AND lie inside another translated block
                    # (a label reached by a jump and by falling through)
                    jit = r.j.jit
                    both = set()
                    for a in executed:
                        if a in jit.offset_to_jitted_func and a not in s1 and a != stop:
                            if any(b.lines and b.ad_min < a < b.ad_max for b in jit.loc_key_to_block.values()):
                                both.add(a)
                    s2_cfg = set(s2) | set(sorted(both)[:3])
                    expected = predict(trace, s1, stop, s2_cfg, selfrm)
                    r.j.remove_breakpoints_by_address(stop)
                    for a in sorted(s1 - s2_cfg):
                        r.j.remove_breakpoints_by_address(a)
                    for a in sorted(s2_cfg - s1):
                        cbs[a] = make(a)
                        r.j.add_breakpoint(a, cbs[a])
                    res = r.resume()
            except Exception as ex:     # noqa
                return (False, "configuration %s, %s: the run raises %s: %s" % (cfg, sched, type(ex).__name__, str(ex)[:160]), True)
            if res is not False or r.hits != [jitrun.END]:
                return (False, "configuration %s, %s: the run does not end at the return address (result %r, pc %#x, fault %r)" % (
                    cfg, sched, res, r.j.pc, r.fault), True)
            if log != expected:
                i = next((i for i in range(min(len(log), len(expected))) if log[i] != expected[i]), min(len(log), len(expected)))
                return (False, "configuration %s, %s: callback invocations differ from the executed-address trace at position %d: got %s, "
                        "expected %s (…%s / …%s)" % (cfg, sched, i, log[i:i + 1] and (hex(log[i]) if isinstance(log[i], int) else log[i]),
                                                   expected[i:i + 1] and hex(expected[i]), [hex(x) if isinstance(x, int) else x for x in log[max(i - 2, 0):i + 3]],
                                                   [hex(x) for x in expected[max(i - 2, 0):i + 3]]), True)
            d = jitrun.diff_state(r.state(), want)
            if d:
                return (False, "configuration %s, %s: %s" % (cfg, sched, d), True)
            # second run of the SAME jitter from the start, every block now translated: the old breakpoints are removed and a
            # new set is registered, among them addresses that start a translated block and lie inside another one
            jit = r.j.jit
            for a in list(cbs):
                if r.j.breakpoints_handler.has_callbacks(a):
                    r.j.remove_breakpoints_by_address(a)
            both = [a for a in executed if a in jit.offset_to_jitted_func and
                    any(b.lines and b.ad_min < a < b.ad_max for b in jit.loc_key_to_block.values())]
            s3 = set(rng.sample(both, min(len(both), 2))) | set(rng.sample(executed, min(len(executed), 2)))
            log3 = []
            r.reset_state()
            r.limit_steps()
            for a in sorted(s3):
                r.j.add_breakpoint(a, lambda j, a=a: log3.append(a) or True)
            try:
                res = r.go()
            except Exception as ex:     # noqa
                return (False, "configuration %s, second run with breakpoints %s: raises %s: %s" % (cfg, sorted(hex(x) for x in s3), type(ex).__name__, str(ex)[:120]), True)
            exp3 = [a for a in trace if a in s3]
            if res is not False or log3 != exp3:
                i = next((i for i in range(min(len(log3), len(exp3))) if log3[i] != exp3[i]), min(len(log3), len(exp3)))
                return (False, "configuration %s, second run of the same jitter with breakpoints %s registered after everything was translated: "
                        "callback invocations differ from the executed-address trace at position %d (got %s, expected %s)" % (
                            cfg, sorted(hex(x) for x in s3), i, [hex(x) for x in log3[max(i - 1, 0):i + 2]], [hex(x) for x in exp3[max(i - 1, 0):i + 2]]), True)
        return (True, "", True)


def targets(tier):
    return chunked(BpCases, "C23/breakpoints", 16, tier)

