"""C24 -- The virtual memory manager behaves like a byte map with permissions (jitter/vm_mngr.c, vm_mngr_py.c).

vm_mngr.c is pointer code (realloc'ed page array, malloc'ed host buffers, BSD LIST_* macros, typed loads through casts): outside
the C subset of vc/cvc.py.  Bounded stand-in, labelled: the REAL sources vm_mngr.c + vm_mngr_py.c (+ bn.c) are compiled on every
run into a scratch extension module; the contract `behaves like a map from addresses to bytes with per-page permissions` is a
reference model written here (props/C24.py: Model) and the real manager is checked against it after every operation of bounded
operation sequences (host API through the module's Python methods, emulated typed accesses through the exported C functions
vm_MEM_LOOKUP_nn / vm_MEM_WRITE_nn called with ctypes on the same shared object)."""
import ctypes
import importlib.machinery
import importlib.util
import os
import random
import shutil
import subprocess
import sysconfig
import tempfile

from miasm.jitter.csts import (EXCEPT_ACCESS_VIOL, EXCEPT_BREAKPOINT_MEMORY, PAGE_READ, PAGE_WRITE)

from harness.bounded import BoundedContract, chunked

JIT = "/repo/miasm/jitter"

PROPERTY = {
    "id": "C24",
    "level": "exploration",
    "engine": "bounded-contract",
    "technique": "bounded stand-in: the real vm_mngr.c / vm_mngr_py.c compiled on every run and checked after every operation of "
                 "bounded operation sequences against a reference byte map with per-page permissions (run-time contract)",
    "explanation": "Contract (reference model): overlapping mappings are refused and leave the manager unchanged; host reads return "
                   "the bytes last written and fail when a byte is unmapped; host writes to fully mapped ranges are read back; "
                   "emulated typed reads (8/16/32/64 bits) return the bytes in the configured byte order when every byte touched "
                   "is mapped and readable, otherwise the access-violation flag is raised; emulated writes update exactly their "
                   "bytes when every byte touched is mapped and writable, otherwise the flag is raised and memory is unchanged; "
                   "a memory breakpoint is reported (after check_memory_breakpoint) exactly when an access of its kind since the "
                   "last reset overlaps it; the recorded read / write ranges contain every byte of every completed access and "
                   "nothing that was not at least attempted. Executed on the real compiled code for seeded random sequences of "
                   "14 operations over a small address space (adjacent pages, a gap, zero-sized pages, a page at the top of the "
                   "64-bit space, accesses straddling pages, both byte orders). Bounded: exploration, not proof.",
    "rule": "one case = one operation sequence; the whole observable state (bytes through get_mem, is_mapped, permissions, exception "
            "flags, access lists) is compared with the model after every operation",
    "trusted_base": ["gcc builds the real sources; CPython + ctypes drive them; the reference model is written independently in "
                     "props/C24.py", "the vm_mngr_t structure sits at offset 24 of the VmMngr Python object (PyObject_HEAD + one "
                     "pointer: vm_mngr_py.h)"],
    "assumptions": ["sequences of 14 operations, 1500 (quick) / 12000 (thorough) seeded sequences; address space of props/C24.py",
                    "a host write that fails half-way may leave the bytes it touched in either state (the statement only requires "
                    "the failure)", "the byte order is configured (set_little_endian / set_big_endian) before the first access, as "
                    "Jitter.__init__ does; zero-length host writes are not generated", "a zero-sized page may be refused or accepted; accepted, it must not change the byte map"],
}

_BUILD = {}


def build():
    """compile the real sources into <scratch>/VmMngr.so; returns (python module, ctypes library)"""
    srcs = [os.path.join(JIT, f) for f in ("vm_mngr.c", "vm_mngr_py.c", "bn.c")]
    key = tuple(os.path.getmtime(s) for s in srcs) + (os.getpid(),)
    if _BUILD.get("key") == key:
        return _BUILD["mod"], _BUILD["lib"]
    d = tempfile.mkdtemp(prefix="c24_")
    so = os.path.join(d, "VmMngr" + (sysconfig.get_config_var("EXT_SUFFIX") or ".so"))
    inc = sysconfig.get_paths()["include"]
    # -DNDEBUG as distutils builds extension modules (CPython's headers carry assertions meant for debug builds of Python)
    p = subprocess.run(["gcc", "-O1", "-w", "-DNDEBUG", "-shared", "-fPIC", "-I", inc, "-I", JIT, "-o", so] + srcs,
                       stdout=subprocess.PIPE, stderr=subprocess.PIPE)
    if p.returncode != 0:
        raise RuntimeError("gcc rejects the jitter sources: " + p.stderr.decode(errors="replace")[:400])
    loader = importlib.machinery.ExtensionFileLoader("VmMngr", so)
    spec = importlib.util.spec_from_loader("VmMngr", loader)
    mod = importlib.util.module_from_spec(spec)
    loader.exec_module(mod)
    lib = ctypes.CDLL(so)
    for n, (rt, at) in {"08": (ctypes.c_ubyte, ctypes.c_ubyte), "16": (ctypes.c_ushort, ctypes.c_ushort),
                        "32": (ctypes.c_uint, ctypes.c_uint), "64": (ctypes.c_uint64, ctypes.c_uint64)}.items():
        f = getattr(lib, "vm_MEM_LOOKUP_" + n)
        f.restype, f.argtypes = rt, [ctypes.c_void_p, ctypes.c_uint64]
        g = getattr(lib, "vm_MEM_WRITE_" + n)
        g.restype, g.argtypes = None, [ctypes.c_void_p, ctypes.c_uint64, at]
    import atexit
    atexit.register(shutil.rmtree, d, True)
    _BUILD.update({"key": key, "mod": mod, "lib": lib})
    return mod, lib


VM_OFFSET = 24      # PyObject_HEAD (16) + PyObject *vmmngr (8): vm_mngr_py.h


class Model(object):
    """the contract: a byte map with per-page permissions"""

    def __init__(self):
        self.pages = []         # [ad, size, access, bytearray]
        self.bps = []           # (ad, size, access)
        self.reads_done, self.reads_tried = set(), set()
        self.writes_done, self.writes_tried = set(), set()
        self.big = False
        self.unknown = set()    # addresses whose content a failed host write left unspecified

    def page_of(self, a):
        for p in self.pages:
            if p[0] <= a < p[0] + p[1]:
                return p
        return None

    def mapped(self, a, n):
        return all(self.page_of((a + i) & M64) is not None for i in range(n))

    def overlaps(self, ad, size):
        return any(max(ad, p[0]) < min(ad + size, p[0] + p[1]) for p in self.pages)

    def byte(self, a):
        p = self.page_of(a)
        return p[3][a - p[0]]

    def setbyte(self, a, v):
        p = self.page_of(a)
        p[3][a - p[0]] = v


M64 = (1 << 64) - 1
BASE = 0x1000
PAGES = [(0x1000, 8), (0x1008, 8), (0x1020, 4), (0x1004, 8), (0x1008, 0), (0x1010, 0), (0x1004, 0), (0x100c, 2),
         (0x0FF8, 8), (0x1000, 16), (0x1010, 16)]
ADDRS = list(range(0x0FFC, 0x1026))
# the top of the 64-bit address space is exercised by its own target (TopOfSpace): known finding C24-top-of-address-space
TOP_PAGES = [(0xFFFFFFFFFFFFFFF8, 8)]
TOP_ADDRS = [0xFFFFFFFFFFFFFFF6, 0xFFFFFFFFFFFFFFF8, 0xFFFFFFFFFFFFFFFC, 0xFFFFFFFFFFFFFFFF]


def gen_ops(rng, n=14):
    ops = []
    for _ in range(n):
        k = rng.random()
        if k < 0.22:
            ad, size = rng.choice(PAGES)
            ops.append(("add_page", ad, rng.choice((1, 2, 3, 3, 3, 0)), bytes(rng.randrange(256) for _ in range(size))))
        elif k < 0.27:
            ops.append(("remove_page", rng.choice(ADDRS)))
        elif k < 0.33:
            ops.append(("set_access", rng.choice(ADDRS), rng.choice((0, 1, 2, 3))))
        elif k < 0.43:
            ops.append(("get_mem", rng.choice(ADDRS), rng.choice((0, 1, 2, 4, 8, 9, 17))))
        elif k < 0.53:
            ops.append(("set_mem", rng.choice(ADDRS), bytes(rng.randrange(256) for _ in range(rng.choice((1, 2, 4, 8, 9))))))
        elif k < 0.70:
            ops.append(("read", rng.choice((8, 16, 32, 64)), rng.choice(ADDRS)))
        elif k < 0.87:
            s = rng.choice((8, 16, 32, 64))
            ops.append(("write", s, rng.choice(ADDRS), rng.randrange(1 << s)))
        elif k < 0.91:
            ops.append(("add_bp", rng.choice(ADDRS), rng.choice((1, 2, 4)), rng.choice((1, 2, 3))))
        elif k < 0.93:
            ops.append(("del_bp",))
        elif k < 0.96:
            ops.append(("reset_access",))
        elif k < 0.98:
            ops.append(("endian", rng.random() < 0.5))
        else:
            ops.append(("is_mapped", rng.choice(ADDRS), rng.choice((1, 2, 8, 9))))
    return ops


def ranges_to_set(rs):
    out = set()
    for a, b in rs:
        a, b = int(a), int(b)
        if b < a:               # a range running over the top of the address space
            b += 1 << 64
        if b - a > 64:
            return None
        for x in range(a, b):
            out.add(x & M64)
    return out


def run_sequence(ops):
    """-> '' or a failure description"""
    mod, lib = build()
    vm = mod.Vm()
    vm.set_little_endian()      # the byte order is configured before use, as Jitter.__init__ does for every architecture
    ptr = ctypes.c_void_p(id(vm) + VM_OFFSET)
    m = Model()
    done = []

    def fail(why):
        return "after %s: %s" % (" ; ".join(done), why)

    for op in ops:
        k = op[0]
        done.append(show_op(op))
        vm.set_exception(0)
        expect_viol = False
        touched = None
        if k == "add_page":
            _, ad, acc, data = op
            size = len(data)
            top = ad + size > (1 << 64)
            try:
                vm.add_memory_page(ad, acc, data, "p")
                ok = True
            except Exception:
                ok = False
            if size and m.overlaps(ad, size):
                if ok:
                    return fail("a mapping overlapping a live page was accepted")
            elif ok:
                m.pages.append([ad, size, acc, bytearray(data)])
            elif size and not top and not any(p[1] == 0 and ad < p[0] < ad + size for p in m.pages):
                # (a refusal because a zero-sized page sits strictly inside the new range is tolerated: either answer keeps
                # the byte map intact)
                return fail("a mapping overlapping no live page was refused")
        elif k == "remove_page":
            vm.remove_memory_page(op[1])
            p = m.page_of(op[1])
            if p is not None:
                m.pages.remove(p)
        elif k == "set_access":
            p = m.page_of(op[1])
            try:
                vm.set_mem_access(op[1], op[2])
                ok = True
            except Exception:
                ok = False
            if (p is not None) != ok:
                return fail("set_mem_access %s on %s address" % ("succeeded" if ok else "failed", "a mapped" if p else "an unmapped"))
            if p is not None:
                p[2] = op[2]
        elif k == "get_mem":
            _, ad, n = op
            try:
                r = vm.get_mem(ad, n)
            except Exception:
                r = None
            if m.mapped(ad, n):
                if r is None:
                    return fail("host read of a fully mapped range failed")
                want = bytes(m.byte((ad + i) & M64) for i in range(n))
                for i in range(n):
                    if ((ad + i) & M64) not in m.unknown and r[i] != want[i]:
                        return fail("host read returned %r, the bytes last written are %r" % (r, want))
                    m.setbyte((ad + i) & M64, r[i])
                    m.unknown.discard((ad + i) & M64)
            elif r is not None:
                return fail("host read of a range with unmapped bytes returned %r" % (r,))
        elif k == "set_mem":
            _, ad, data = op
            n = len(data)
            try:
                vm.set_mem(ad, data)
                ok = True
            except Exception:
                ok = False
            if m.mapped(ad, n):
                if not ok:
                    return fail("host write to a fully mapped range failed")
                for i in range(n):
                    m.setbyte((ad + i) & M64, data[i])
                    m.unknown.discard((ad + i) & M64)
                    m.writes_done.add((ad + i) & M64)
                    m.writes_tried.add((ad + i) & M64)
            else:
                if ok:
                    return fail("host write to a range with unmapped bytes succeeded")
                for i in range(n):
                    a = (ad + i) & M64
                    if m.page_of(a) is not None:
                        m.unknown.add(a)
                    m.writes_tried.add(a)
        elif k == "read":
            _, size, ad = op
            n = size // 8
            got = getattr(lib, "vm_MEM_LOOKUP_%.2d" % size)(ptr, ad)
            addrs = [(ad + i) & M64 for i in range(n)]
            okp = all(m.page_of(a) is not None and m.page_of(a)[2] & PAGE_READ for a in addrs)
            m.reads_tried.update(addrs)
            if okp:
                m.reads_done.update(addrs)
                bs = [m.byte(a) for a in addrs]
                if not any(a in m.unknown for a in addrs):
                    want = int.from_bytes(bytes(bs), "big" if m.big else "little")
                    if got != want:
                        return fail("emulated read returned %#x, the byte map holds %#x (%s endian)" % (got, want, "big" if m.big else "little"))
            else:
                expect_viol = True
        elif k == "write":
            _, size, ad, val = op
            n = size // 8
            getattr(lib, "vm_MEM_WRITE_%.2d" % size)(ptr, ad, val)
            addrs = [(ad + i) & M64 for i in range(n)]
            okp = all(m.page_of(a) is not None and m.page_of(a)[2] & PAGE_WRITE for a in addrs)
            m.writes_tried.update(addrs)
            if okp:
                m.writes_done.update(addrs)
                bs = val.to_bytes(n, "big" if m.big else "little")
                for a, b in zip(addrs, bs):
                    m.setbyte(a, b)
                    m.unknown.discard(a)
            else:
                expect_viol = True
        elif k == "add_bp":
            vm.add_memory_breakpoint(op[1], op[2], op[3])
            m.bps.append((op[1], op[2], op[3]))
        elif k == "del_bp":
            if m.bps:
                ad, size, acc = m.bps[0]
                vm.remove_memory_breakpoint(ad, acc)
                m.bps = [b for b in m.bps if not (b[0] == ad and b[2] == acc)]
        elif k == "reset_access":
            vm.reset_memory_access()
            m.reads_done, m.reads_tried, m.writes_done, m.writes_tried = set(), set(), set(), set()
        elif k == "endian":
            (vm.set_big_endian if op[1] else vm.set_little_endian)()
            m.big = op[1]
        elif k == "is_mapped":
            r = vm.is_mapped(op[1], op[2])
            if bool(r) != m.mapped(op[1], op[2]):
                return fail("is_mapped answered %r" % (r,))

        # ---- observable state after the operation --------------------------------------------------------------
        flags = vm.get_exception()
        if k in ("read", "write"):
            viol = (flags & EXCEPT_ACCESS_VIOL) == EXCEPT_ACCESS_VIOL
            if viol != expect_viol:
                return fail("access-violation flag %s although %s" % (
                    "raised" if viol else "not raised", "a byte touched is unmapped or lacks the permission" if expect_viol else
                    "every byte touched is mapped with the needed permission"))
            vm.set_exception(0)
            vm.check_memory_breakpoint()
            bp = bool(vm.get_exception() & EXCEPT_BREAKPOINT_MEMORY) or bool(flags & EXCEPT_BREAKPOINT_MEMORY)
            must = may = False
            for (bad, bsize, bacc) in m.bps:
                rng_ = set((bad + i) & M64 for i in range(bsize))
                if (bacc & 1 and rng_ & m.reads_done) or (bacc & 2 and rng_ & m.writes_done):
                    must = True
                if (bacc & 1 and rng_ & m.reads_tried) or (bacc & 2 and rng_ & m.writes_tried):
                    may = True
            if must and not bp:
                return fail("memory breakpoint not reported although a completed access since the last reset overlaps one")
            if bp and not may:
                return fail("memory breakpoint reported although no access since the last reset overlaps one")
            vm.set_exception(0)
        # the byte map
        for p in m.pages:
            for i in range(p[1]):
                a = p[0] + i
                if a in m.unknown:
                    continue
                try:
                    b = vm.get_mem(a, 1)
                except Exception:
                    return fail("byte %#x of a live page cannot be read by the host" % a)
                if b[0] != p[3][i]:
                    return fail("byte %#x holds %#x, the byte map %#x" % (a, b[0], p[3][i]))
        vm.set_exception(0)
        for a in ADDRS:
            if bool(vm.is_mapped(a, 1)) != (m.page_of(a) is not None):
                return fail("is_mapped(%#x) answers %r" % (a, bool(vm.is_mapped(a, 1))))
            p = m.page_of(a)
            if p is not None and vm.get_mem_access(a) != p[2]:
                return fail("page of %#x has access %r, expected %r" % (a, vm.get_mem_access(a), p[2]))
        vm.set_exception(0)
        for what, got, lo, hi in (("read", vm.get_memory_read(), m.reads_done, m.reads_tried),
                                  ("write", vm.get_memory_write(), m.writes_done, m.writes_tried)):
            s = ranges_to_set(got)
            if s is None:
                return fail("recorded %s ranges %r are not the accessed bytes" % (what, got))
            if not lo <= s:
                return fail("recorded %s ranges %r miss accessed bytes %s" % (what, got, sorted(map(hex, lo - s))[:4]))
            if not s <= hi:
                return fail("recorded %s ranges %r contain bytes never accessed %s" % (what, got, sorted(map(hex, s - hi))[:4]))
    return ""


def show_op(op):
    def h(x):
        if isinstance(x, bool):
            return "big" if x else "little"
        if isinstance(x, int):
            return hex(x)
        if isinstance(x, bytes):
            return "<%d bytes>" % len(x)
        return str(x)
    return "%s(%s)" % (op[0], ", ".join(h(x) for x in op[1:]))


class VmSequences(BoundedContract):
    BOUND = "seeded random sequences of 14 operations over the address space of props/C24.py"
    CASE_SECONDS = 30

    def funcs(self):
        return []

    def cases(self):
        n = 1500 if self.tier == "quick" else 12000
        return list(range(n))

    def ops_of(self, case):
        return gen_ops(random.Random(2400 + case))

    def show(self, case):
        return "sequence #%d: %s" % (case, " ; ".join(show_op(o) for o in self.ops_of(case)))

    def run_custom(self, findings, seed):
        # the real code reports every failed lookup on stderr: keep the worker's stderr quiet
        try:
            fd = os.open(os.devnull, os.O_WRONLY)
            os.dup2(fd, 2)
        except OSError:
            pass
        # the whole chunk runs in forked children BEFORE the per-case loop (and outside its per-case time limit: on a loaded
        # machine the chunk may take longer than one case is allowed to)
        self._run_all()
        res = BoundedContract.run_custom(self, findings, seed)
        import hashlib
        for f in ("vm_mngr.c", "vm_mngr_py.c", "vm_mngr.h"):
            with open(os.path.join(JIT, f), "rb") as fh:
                res["functions"].append({"name": "miasm/jitter/" + f, "file": os.path.join(JIT, f),
                                         "sha256": hashlib.sha256(fh.read()).hexdigest()})
        return res

    # ---- isolation: the sequences of a chunk run in ONE forked child that streams its verdicts; a crash or an endless loop
    # inside the C code ends that child (an observation about the sequence it was running) and a new child resumes after it
    _results = None

    def _run_all(self):
        import json
        import select
        import signal
        import time
        cases = [c for _, c in self.my_cases()]
        results = {}
        pos = 0
        build()
        while pos < len(cases):
            r, w = os.pipe()
            pid = os.fork()
            if pid == 0:
                try:
                    os.close(r)
                    for k in range(pos, len(cases)):
                        try:
                            why = run_sequence(self.ops_of(cases[k]))
                        except Exception as ex:     # noqa
                            why = "the check itself raised %s: %s" % (type(ex).__name__, ex)
                        os.write(w, (json.dumps([k, why[:3000]]) + "\n").encode())
                finally:
                    os._exit(0)
            os.close(w)
            buf = b""
            last = time.time()
            hung = False
            while True:
                rl, _, _ = select.select([r], [], [], 1.0)
                if rl:
                    chunk = os.read(r, 1 << 16)
                    if not chunk:
                        break
                    buf += chunk
                    last = time.time()
                    while b"\n" in buf:
                        line, buf = buf.split(b"\n", 1)
                        k, why = json.loads(line.decode())
                        results[k] = why
                        pos = k + 1
                elif time.time() - last > 60:
                    os.kill(pid, signal.SIGKILL)
                    hung = True
                    break
            os.close(r)
            _, status = os.waitpid(pid, 0)
            if pos < len(cases) and (hung or os.WIFSIGNALED(status)):
                ops = " ; ".join(map(show_op, self.ops_of(cases[pos])))
                results[pos] = ("the manager does not return (endless loop in the C code) during: " + ops) if hung else \
                    ("the manager crashes (signal %d) during: %s" % (os.WTERMSIG(status), ops))
                pos += 1
            elif pos < len(cases) and not os.WIFSIGNALED(status) and not hung:
                results[pos] = "the child process stopped without a verdict (exit status %d)" % os.WEXITSTATUS(status)
                pos += 1
        self._results = dict((cases[k], v) for k, v in results.items())

    def check(self, case):
        if self._results is None:
            self._run_all()
        why = self._results.get(case, "no verdict recorded")
        return (why == "", why, True)


TOP_SEQUENCES = [
    [("add_page", 0xFFFFFFFFFFFFFFF8, 3, b"ABCDEFGH"), ("get_mem", 0xFFFFFFFFFFFFFFF8, 8)],
    [("add_page", 0xFFFFFFFFFFFFFFF8, 3, b"ABCDEFGH"), ("read", 32, 0xFFFFFFFFFFFFFFFC)],
    [("add_page", 0xFFFFFFFFFFFFFFF8, 3, b"ABCDEFGH"), ("write", 8, 0xFFFFFFFFFFFFFFFF, 0x41), ("is_mapped", 0xFFFFFFFFFFFFFFF8, 8)],
]


class TopOfSpace(VmSequences):
    """a page ending exactly at 2^64: `ad + size` wraps to 0 in the page look-up (known finding C24-top-of-address-space)"""
    BOUND = "three fixed sequences on a page mapped at [2^64 - 8, 2^64)"

    def __init__(self, *a):
        VmSequences.__init__(self, *a)
        self.min_obligations = 0        # every case of this target is the known finding

    def cases(self):
        return [0, 1, 2]

    def ops_of(self, case):
        return TOP_SEQUENCES[case]

    def show(self, case):
        return "top-of-space sequence #%d: %s" % (case, " ; ".join(show_op(o) for o in TOP_SEQUENCES[case]))


# ======================================================================================================
# shape-bounded SYMBOLIC obligations on the page look-up and the overlap test (vc/cvc.py on the real vm_mngr.c)
# ======================================================================================================

_VMPROG = {}


def vm_program():
    from vc import cvc
    if "p" not in _VMPROG:
        tu = cvc.clang_ast(os.path.join(JIT, "vm_mngr.c"), [JIT, sysconfig.get_paths()["include"]])
        # keep the declarations of vm_mngr.c / vm_mngr.h only (the translation unit drags in all of Python.h)
        keep = []
        for d in tu.get("inner", []):
            if d.get("kind") in ("RecordDecl", "TypedefDecl", "EnumDecl"):
                keep.append(d)
            elif d.get("kind") in ("FunctionDecl", "VarDecl") and d.get("name") in (
                    "find_page_node", "midpoint", "is_mpn_in_tab", "fprintf", "stderr", "stdout", "exit"):
                keep.append(d)
        _VMPROG["p"] = {"inner": keep}
    prog = cvc.Program()
    prog.add_tu(_VMPROG["p"])
    return prog


class LookupTarget(object):
    """find_page_node / is_mpn_in_tab interpreted from the real vm_mngr.c on a table of n pages whose addresses and sizes are
    SYMBOLIC (64-bit, unbounded); precondition: the table is sorted, non-overlapping, without empty pages (the representation
    invariant add_memory_page maintains).  Known finding C24-top-of-address-space: a page whose end wraps (ad + size >= 2^64)."""
    kind = "bounded"

    def __init__(self, fname, n):
        self.id = "C24/%s/pages=%d" % (fname, n)
        self.fname, self.n = fname, n
        self.min_obligations = 1
        self.params = {"pages": n}
        self.bound = "%d pages in the table (addresses, sizes and the key symbolic)" % n

    def obligations(self):
        import z3
        from vc import cvc
        prog = vm_program()
        it = cvc.Interp(prog, max_unroll=40)
        U64 = cvc.CType("int", 64, False)
        I32 = cvc.CType("int", 32, True)
        n = self.n
        ads = [z3.BitVec("ad%d" % i, 64) for i in range(n)]
        szs = [z3.BitVec("size%d" % i, 64) for i in range(n)]
        pages = [{"ad": cvc.Val(ads[i], U64), "size": cvc.Val(szs[i], U64), "access": cvc.Val(cvc.bv(3, 32), cvc.CType("int", 32, False)),
                  "ad_hp": None, "name": None} for i in range(n)]
        it.heap["PAGES"] = pages

        def wide(x):
            return z3.ZeroExt(1, x)
        end = [wide(ads[i]) + wide(szs[i]) for i in range(n)]
        pre = [szs[i] != 0 for i in range(n)]
        pre += [z3.ULE(end[i], wide(ads[i + 1])) for i in range(n - 1)]
        wraps = z3.Or(*[z3.UGT(end[i], z3.BitVecVal(1 << 64, 65)) for i in range(n)]) if n else z3.BoolVal(False)
        top = z3.Or(*[end[i] == z3.BitVecVal(1 << 64, 65) for i in range(n)]) if n else z3.BoolVal(False)
        pre.append(z3.Not(wraps))        # a page cannot extend past the address space (create_memory_page_node never builds one)
        st = cvc.State()
        if self.fname == "find_page_node":
            key = z3.BitVec("key", 64)
            args = [cvc.Ref(("PAGES", [])), cvc.Val(key, U64), cvc.Val(cvc.bv(0, 32), I32), cvc.Val(cvc.bv(n - 1, 32), I32)]
            it.assume = list(pre)
            r = it.call(prog.funcs["find_page_node"], args, st)
            want = z3.BitVecVal(-1, 32)
            for i in reversed(range(n)):
                inside = z3.And(z3.ULE(ads[i], key), z3.ULT(wide(key), end[i]))
                want = z3.If(inside, z3.BitVecVal(i, 32), want)
            goals = [("returns-the-page-holding-the-key", r.t == want)]
        else:
            a_ad, a_sz = z3.BitVec("new_ad", 64), z3.BitVec("new_size", 64)
            a_end = wide(a_ad) + wide(a_sz)
            pre += [a_sz != 0, z3.ULE(a_end, z3.BitVecVal(1 << 64, 65))]
            top = z3.Or(top, a_end == z3.BitVecVal(1 << 64, 65))
            vm = {"memory_pages_number": cvc.Val(cvc.bv(n, 32), I32), "memory_pages_array": cvc.Ref(("PAGES", []))}
            new = {"ad": cvc.Val(a_ad, U64), "size": cvc.Val(a_sz, U64), "access": cvc.Val(cvc.bv(3, 32), cvc.CType("int", 32, False)),
                   "ad_hp": None, "name": None}
            it.assume = list(pre)
            r = it.call(prog.funcs["is_mpn_in_tab"], [vm, new], st)
            overlap = z3.Or(*[z3.And(z3.ULT(wide(ads[i]), a_end), z3.ULT(wide(a_ad), end[i])) for i in range(n)]) if n else z3.BoolVal(False)
            goals = [("answers-1-exactly-on-overlap", (r.t != 0) == overlap)]
        for kind in ("output", "abort", "ub-index", "uninit"):
            evs = [c for (k, c, info) in it.events if k == kind]
            if evs:
                goals.append(("no-" + kind, z3.Not(z3.Or(*evs))))
        return pre, top, goals

    def run_custom(self, findings, seed):
        import hashlib
        import time
        import z3
        t0 = time.time()
        res = {"id": self.id, "kind": "bounded", "params": self.params, "bound": self.bound, "functions": [], "paths": 0,
               "obligations": 0, "discharged": 0, "refuted": [], "undecided": [], "unsupported": None, "engine_error": None,
               "known": [], "backends": {}, "samples": [], "solver_time": 0.0, "covers": [], "extra_coverage": {}}
        with open(os.path.join(JIT, "vm_mngr.c"), "rb") as fh:
            res["functions"].append({"name": "miasm/jitter/vm_mngr.c:" + self.fname, "file": os.path.join(JIT, "vm_mngr.c"),
                                     "sha256": hashlib.sha256(fh.read()).hexdigest()})
        known = [f for f in findings if f.get("status", "known") == "known" and f["id"] == "C24-top-of-address-space"]
        try:
            from vc import cvc
            try:
                pre, top, goals = self.obligations()
            except cvc.Unsupported as ex:
                res["unsupported"] = "outside the C subset: %s" % ex
                return res
            for label, goal in goals:
                res["obligations"] += 1
                ob = "%s/%s" % (self.id, label)
                s = z3.Solver()
                s.set("rlimit", 80000000)
                s.add(*pre)
                if known:
                    s.add(z3.Not(top))      # outside the known finding's witness region: a page ending exactly at 2^64
                s.add(z3.Not(goal))
                r = s.check()
                if r == z3.unsat:
                    res["discharged"] += 1
                    res["backends"]["z3-bv"] = res["backends"].get("z3-bv", 0) + 1
                    if len(res["samples"]) < 1:
                        res["samples"].append({"obligation": ob, "verdict": "discharged for all addresses, sizes and keys"})
                elif r == z3.unknown:
                    res["undecided"].append({"obligation": ob, "reason": s.reason_unknown(), "goal": label})
                else:
                    m = s.model()
                    # prefer a small counter-model (pages of a few bytes at low addresses): it replays on the compiled code
                    for bits in (6, 12, 20):
                        s.push()
                        for d in m.decls():
                            v = z3.BitVec(d.name(), 64)
                            s.add(z3.ULT(v, z3.BitVecVal(1 << (bits if d.name().startswith(("size", "new_size")) else bits + 8), 64)))
                        if s.check() == z3.sat:
                            m = s.model()
                            s.pop()
                            break
                        s.pop()
                    model = dict((d.name(), m[d].as_long()) for d in m.decls() if hasattr(m[d], "as_long"))
                    res["refuted"].append({"obligation": ob, "model": model, "backend": "z3-bv",
                                           "replay": native_lookup_replay(self.fname, self.n, model), "goal": label, "pc": []})
                if known and label in ("returns-the-page-holding-the-key", "answers-1-exactly-on-overlap"):
                    # the witness region must still fail, otherwise the entry is stale
                    s2 = z3.Solver()
                    s2.set("rlimit", 80000000)
                    s2.add(*pre)
                    s2.add(top)
                    s2.add(z3.Not(goal))
                    if s2.check() == z3.sat and self.n:
                        m = s2.model()
                        res["known"].append({"finding": known[0]["id"], "obligation": ob, "replay": "fails",
                                             "model": dict((d.name(), m[d].as_long()) for d in m.decls() if hasattr(m[d], "as_long"))})
        except Exception as ex:     # noqa
            import traceback
            res["engine_error"] = "%s\n%s" % (ex, traceback.format_exc())
        res["wall"] = time.time() - t0
        res["solver_time"] = res["wall"]
        return res

    def replay_custom(self, rp):
        return dict(native_lookup_replay(self.fname, self.n, rp.get("model", {})), failed=[])


def native_lookup_replay(fname, n, model):
    """the counter-model on the compiled extension: map the pages and query the address (find_page_node through is_mapped,
    is_mpn_in_tab through add_memory_page)"""
    try:
        mod, lib = build()
        vm = mod.Vm()
        vm.set_little_endian()
        for i in range(n):
            ad, size = int(model.get("ad%d" % i, 0)), int(model.get("size%d" % i, 1))
            if size > 1 << 20:
                return {"status": "undetermined", "detail": "page of %d bytes: not replayed natively" % size}
            vm.add_memory_page(ad, 3, b"\x00" * size, "p")
        if fname == "find_page_node":
            key = int(model.get("key", 0))
            want = any(int(model.get("ad%d" % i, 0)) <= key < int(model.get("ad%d" % i, 0)) + int(model.get("size%d" % i, 1)) for i in range(n))
            got = bool(vm.is_mapped(key, 1))
            return {"status": "fails" if got != want else "passes", "detail": "is_mapped(%#x, 1) = %r, expected %r" % (key, got, want),
                    "values": model}
        ad, size = int(model.get("new_ad", 0)), int(model.get("new_size", 1))
        if size > 1 << 20:
            return {"status": "undetermined", "detail": "page of %d bytes: not replayed natively" % size}
        want = any(max(ad, int(model.get("ad%d" % i, 0))) < min(ad + size, int(model.get("ad%d" % i, 0)) + int(model.get("size%d" % i, 1)))
                   for i in range(n))
        try:
            vm.add_memory_page(ad, 3, b"\x00" * size, "q")
            got = False
        except Exception:
            got = True
        return {"status": "fails" if got != want else "passes", "detail": "add_memory_page(%#x, %d bytes) %s, overlap expected: %r" % (
            ad, size, "refused" if got else "accepted", want), "values": model}
    except Exception as ex:     # noqa
        return {"status": "undetermined", "detail": "native replay impossible: %r" % (ex,)}


def targets(tier):
    ts = chunked(VmSequences, "C24/VmMngr-sequences", 16, tier) + [TopOfSpace("C24/top-of-address-space", 0, 1, tier)]
    for n in range(0, 4 if tier == "quick" else 6):
        ts.append(LookupTarget("find_page_node", n))
        ts.append(LookupTarget("is_mpn_in_tab", n))
    return ts

