"""C25 -- Binary streams return exactly the underlying bits (miasm/core/bin_stream.py)."""
from miasm.core import bin_stream as B
from miasm.core.utils import BIG_ENDIAN, LITTLE_ENDIAN

from contracts.mocks import GhostContainer, GhostFile, GhostVirt, GhostVmMem
from harness.core import Target
from vc.terms import And, Eq, Implies, Ite, Not, Or

PROPERTY = {
    "id": "C25",
    "level": "other",
    "explanation": "Symbolic verification of bin_stream on the real source for every byte VALUE, base address, offset and "
                   "length (symbolic, unbounded where the code allows) over sources of bounded LENGTH (<= 3 bytes quick / 4 "
                   "thorough): _getbytes of the four stream kinds returns exactly source[start-base : start-base+l] or raises "
                   "IOError (never another exception); getbytes in atomic mode equals the uncached read (cache invariant, one "
                   "arbitrary earlier entry); getbits returns the MSB-first value of the bit field for every (start, n) inside "
                   "the source (loop unrolled: n <= 8*len) and IOError outside; get_u8/16/32/64 return the integer in the "
                   "requested byte order. Bounded in source length => 'other'.",
    "trusted_base": ["pyvc interpreter + CPython differential", "byte-string and struct.unpack models (vc/sbytes.py)",
                     "z3 integer arithmetic (shifts by a symbolic amount are case-split over their static range)"],
    "assumptions": ["file / parsed-binary / emulator-memory byte sources are interfaces with assumed contracts "
                    "(contracts/mocks.py: GhostFile, GhostVirt, GhostVmMem)", "lengths are non-negative",
                    "source length bounded (shape bound)"],
}

STREAMS = ["str", "file", "container", "vm"]


def mk_stream(ctx, kind, L):
    c = [ctx.int("c%d" % i, 0, 255) for i in range(L)]
    content = ctx.mk_bytes(list(c))
    base = ctx.int("base", 0, None, rnd_hi=64)
    if kind == "str":
        s = object.__new__(B.bin_stream_str)
        s.endianness = LITTLE_ENDIAN
        s.bin = content
        s.offset = base
        s.base_address = base
        s.l = L
    elif kind == "file":
        s = object.__new__(B.bin_stream_file)
        s.endianness = LITTLE_ENDIAN
        s.bin = GhostFile(content)
        s.base_address = base
        s.l = L
    elif kind == "container":
        s = object.__new__(B.bin_stream_container)
        s.endianness = LITTLE_ENDIAN
        s.bin = GhostContainer(GhostVirt(base, content))
        s.l = base + L
        s.offset = base
    else:
        s = object.__new__(B.bin_stream_vm)
        s.endianness = LITTLE_ENDIAN
        s.offset = 0
        s.base_offset = 0
        s.vm = GhostVmMem(base, content)
    return s, c, base


def seq_eq(a, b):
    if len(a) != len(b):
        return False
    return And(*[Eq(x, y) for x, y in zip(a, b)])


def expect_bytes(ctx, r, c, base, start, l, label):
    """r = result of reading l bytes at `start`: exactly the source bytes, or IOError outside"""
    L = len(c)
    inside = And(start - base >= 0, start - base + l <= L)
    if r.raised:
        ctx.check(label + ":only-IOError", isinstance(r.exc, IOError), kind="raises-post")
        ctx.check(label + ":raise-only-outside", Not(inside), kind="raises-post")
        return
    ctx.check(label + ":inside", inside)
    v = ctx.byte_list(r.value)
    for off in range(0, L + 1):
        want = c[off:off + len(v)]
        ctx.check(label + ":bytes", Implies(start - base == off, And(l == len(v), seq_eq(v, want) if len(want) == len(v) else False)))


def t_getbytes(kind, L):
    def body(ctx):
        s, c, base = mk_stream(ctx, kind, L)
        start = ctx.int("start", None, None)
        l = ctx.int("l", 0, None, rnd_hi=L + 2)
        ctx.cover("ret")
        if kind == "file":
            # the stream position is an arbitrary point of the file: a random-access read must leave it where it was
            pos0 = ctx.int("pos", 0, L)
            s.bin.pos = pos0
        r = ctx.call(type(s)._getbytes, s, start, l)
        expect_bytes(ctx, r, c, base, start, l, "_getbytes")
        r = ctx.call(B.bin_stream.getbytes, s, start, l)
        expect_bytes(ctx, r, c, base, start, l, "getbytes")
        if kind == "file":
            ctx.check("frame:file-position", s.bin.pos == pos0)
            r = ctx.call(B.bin_stream_file.getlen, s)
            ctx.check("frame:getlen", (not r.raised) and r.value == L - pos0)
        elif kind in ("str", "container"):
            ctx.check("frame:offset", s.offset == base)
    return body


def t_atomic(kind, L):
    def body(ctx):
        s, c, base = mk_stream(ctx, kind, L)
        r = ctx.call(B.bin_stream.enter_atomic_mode, s)
        if r.raised:
            ctx.check("no-raise", False, kind="no-raise")
            return
        # cache invariant: every entry equals an uncached read of the unchanged source -- one arbitrary earlier entry
        s0 = ctx.int("cached_start", None, None)
        l0 = ctx.int("cached_l", 0, L)
        ctx.assume(And(s0 - base >= 0, s0 - base + l0 <= L))
        pre = ctx.call(B.bin_stream.getbytes, s, s0, l0)
        if pre.raised:
            ctx.check("no-raise", False, kind="no-raise")
            return
        start = ctx.int("start", None, None)
        l = ctx.int("l", 0, None, rnd_hi=L + 2)
        ctx.cover("ret")
        r = ctx.call(B.bin_stream.getbytes, s, start, l)
        expect_bytes(ctx, r, c, base, start, l, "cached-getbytes")
        r = ctx.call(B.bin_stream.getbytes, s, start, l)
        expect_bytes(ctx, r, c, base, start, l, "cached-getbytes-again")
        r = ctx.call(B.bin_stream.leave_atomic_mode, s)
        ctx.check("leave", (not r.raised) and s._cache is None and s._atomic_mode is False)
    return body


def bit(c, k):
    """bit k (MSB first) of the byte list c"""
    return (c[k // 8] >> (7 - k % 8)) & 1


def t_getbits(kind, L):
    def body(ctx):
        s, c, base = mk_stream(ctx, kind, L)
        # bit offset relative to the start of the source and field width are enumerated (every value inside the source,
        # plus a margin outside it); the base address and all byte values stay symbolic
        s0 = ctx.choose(8 * L + 10, "rel") - 9
        n0 = ctx.choose(8 * L + 3, "n")
        start = 8 * base + s0
        ctx.cover("ret")
        r = ctx.call(B.bin_stream.getbits, s, start, n0)
        inside = s0 >= 0 and s0 + n0 <= 8 * L
        if r.raised:
            ctx.check("getbits:only-IOError", isinstance(r.exc, IOError), kind="raises-post")
            ctx.check("getbits:raise-only-outside", (not inside) and n0 > 0, kind="raises-post")
            return
        ctx.check("getbits:inside-or-empty", n0 == 0 or inside)
        v = r.value
        if n0 == 0:
            ctx.check("getbits:n=0", v == 0)
        elif inside:
            # MSB-first bit field [s0, s0+n0) of the source read as one big-endian number V:
            #   (V >> (8L - s0 - n0)) mod 2^n0      (same value as sum_i bit(s0+i) * 2^(n0-1-i))
            V = 0
            for x in c:
                V = V * 256 + x
            want = (V >> (8 * L - s0 - n0)) % (1 << n0)
            ctx.check("getbits:value", v == want)
    return body


def t_getu(kind, L, size):
    def body(ctx):
        s, c, base = mk_stream(ctx, kind, L)
        addr = ctx.int("addr", None, None)
        big = ctx.bool("big_endian")
        use_default = ctx.bool("use_stream_endianness")
        if ctx.decide(use_default):
            s.endianness = BIG_ENDIAN if ctx.decide(big) else LITTLE_ENDIAN
            en = None
        else:
            en = BIG_ENDIAN if ctx.decide(big) else LITTLE_ENDIAN
        ctx.cover("ret")
        fn = getattr(B.bin_stream, "get_u%d" % size)
        r = ctx.call(fn, s, addr, en)
        nb = size // 8
        inside = And(addr - base >= 0, addr - base + nb <= L)
        if r.raised:
            ctx.check("get_u:only-IOError", isinstance(r.exc, IOError), kind="raises-post")
            ctx.check("get_u:raise-only-outside", Not(inside), kind="raises-post")
            return
        ctx.check("get_u:inside", inside)
        for off in range(0, L - nb + 1):
            bs = c[off:off + nb]
            le = 0
            be = 0
            for i, x in enumerate(bs):
                le = le + x * (1 << (8 * i))
                be = be * 256 + x
            ctx.check("get_u:value", Implies(addr - base == off, r.value == Ite(big, be, le)))
    return body


def targets(tier):
    Ls = [0, 1, 2, 3] if tier == "quick" else [0, 1, 2, 3, 4]
    ts = []
    klass = {"str": B.bin_stream_str, "file": B.bin_stream_file, "container": B.bin_stream_container, "vm": B.bin_stream_vm}
    for kind in STREAMS:
        K = klass[kind]
        for L in Ls:
            b = "source length %d" % L
            ts.append(Target("C25/%s._getbytes+getbytes/len=%d" % (K.__name__, L), [K._getbytes, B.bin_stream.getbytes,
                                                                                   B.bin_stream._getbytes],
                             t_getbytes(kind, L), kind="bounded", bound=b))
            if L >= 1:
                ts.append(Target("C25/%s.getbytes(atomic)/len=%d" % (K.__name__, L),
                                 [B.bin_stream.getbytes, B.bin_stream.enter_atomic_mode, B.bin_stream.leave_atomic_mode, K._getbytes],
                                 t_atomic(kind, L), kind="bounded", bound=b))
            if L <= 3 and (kind == "str" or L <= 2):
                ts.append(Target("C25/%s.getbits/len=%d" % (K.__name__, L), [B.bin_stream.getbits, K._getbytes],
                                 t_getbits(kind, L), kind="bounded", bound=b + ", n <= %d bits" % (8 * L), max_paths=80000))
        for size in (8, 16, 32, 64):
            L = size // 8 + 1
            if kind != "str" and size == 64 and tier == "quick":
                continue
            ts.append(Target("C25/%s.get_u%d/len=%d" % (K.__name__, size, L), [getattr(B.bin_stream, "get_u%d" % size), K._getbytes],
                             t_getu(kind, L, size), kind="bounded", bound="source length %d" % L))
    for t in ts:
        t.expect_covers = ["ret"]
        t.params = {"bound": t.bound}
    return ts
