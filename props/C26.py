"""C26 -- Integer interval sets have exact set semantics (miasm/core/interval.py)."""
from miasm.core import interval as M
from miasm.core.interval import interval

from contracts.interval import canonical, mem, valid
from harness.core import Target
from vc.terms import And, Eq, Implies, Not, Or

PROPERTY = {
    "id": "C26",
    "level": "other",
    "explanation": "cmp_interval is proved for all integers (straight-line, no bound). The list algorithms "
                   "(cannon_list, __init__, union, intersection, difference, __contains__, __eq__, hull, length, empty) are "
                   "verified symbolically from the real source for ALL integer endpoint values (unbounded z3 Int) but for a "
                   "bounded number of intervals per operand (shape bound k stated per target): loops are unrolled over the "
                   "concrete shape with every branch checked for feasibility, set equalities are discharged pointwise for an "
                   "arbitrary integer z. Shape-bounded => reported as 'other', not as proved.",
    "trusted_base": ["pyvc interpreter (vc/pyvc.py, vc/ops.py): CPython differential on random concrete inputs every run",
                     "z3 4.x/5.x integer arithmetic", "builtin models: sorted (stable insertion sort on symbolic comparisons), "
                     "list/tuple/min/max/sum/isinstance"],
    "assumptions": ["operands are interval objects whose list is in canonical form (established by interval.__init__, itself "
                    "under contract here)", "Python integers are mathematical integers (exact)",
                    "list length per operand bounded by k (quick 2, thorough 3); endpoint values unbounded"],
}


def mk(ctx, name, k):
    pairs = [(ctx.int("%s%da" % (name, i)), ctx.int("%s%db" % (name, i))) for i in range(k)]
    ctx.assume(canonical(pairs))
    obj = object.__new__(interval)
    obj.is_cannon = True
    obj.intervals = list(pairs)
    return obj, pairs


def raw(ctx, name, k):
    return [(ctx.int("%s%da" % (name, i)), ctx.int("%s%db" % (name, i))) for i in range(k)]


def no_raise(ctx, r):
    if r.raised:
        ctx.check("no-raise:%s" % type(r.exc).__name__, False, kind="no-raise")
        return False
    return True


# ------------------------------------------------------------------------------------------------------
def t_cmp(ctx):
    a = (ctx.int("a0"), ctx.int("a1"))
    b = (ctx.int("b0"), ctx.int("b1"))
    ctx.assume(And(a[0] <= a[1], b[0] <= b[1]))
    r = ctx.call(M.cmp_interval, a, b)
    if not no_raise(ctx, r):
        return
    ctx.cover("ret")
    v = r.value
    eq = And(a[0] == b[0], a[1] == b[1])
    disj = Or(a[0] > b[1] + 1, b[0] > a[1] + 1)
    ab = a[1] + 1 == b[0]
    ba = b[1] + 1 == a[0]
    b_in_a = And(a[0] <= b[0], a[1] >= b[1])
    a_in_b = And(b[0] <= a[0], b[1] >= a[1])
    ctx.check("EQ", Eq(v == M.INT_EQ, eq))
    ctx.check("DISJOIN", Eq(v == M.INT_DISJOIN, disj))
    ctx.check("JOIN_AB", Eq(v == M.INT_JOIN_AB, ab))
    ctx.check("JOIN_BA", Eq(v == M.INT_JOIN_BA, ba))
    ctx.check("B_IN_A", Eq(v == M.INT_B_IN_A, And(b_in_a, Not(a_in_b))))
    ctx.check("A_IN_B", Eq(v == M.INT_A_IN_B, And(a_in_b, Not(b_in_a))))
    ctx.check("JOIN", Eq(v == M.INT_JOIN, And(Not(disj), Not(ab), Not(ba), Not(b_in_a), Not(a_in_b))))


def t_cannon_list(k):
    def body(ctx):
        l = raw(ctx, "x", k)
        z = ctx.int("z")
        r = ctx.call(interval.cannon_list, list(l))
        if not no_raise(ctx, r):
            return
        ctx.cover("ret")
        out = r.value
        ctx.check("canonical", canonical(out))
        ctx.check("gamma", Eq(mem(z, out), Or(*[And(a <= b, a <= z, z <= b) for (a, b) in l])))
    return body


def t_init(k):
    def body(ctx):
        l = raw(ctx, "x", k)
        z = ctx.int("z")
        r = ctx.call(interval, list(l))
        if not no_raise(ctx, r):
            return
        ctx.cover("ret")
        out = r.value.intervals
        ctx.check("canonical", canonical(out))
        ctx.check("gamma", Eq(mem(z, out), Or(*[And(a <= b, a <= z, z <= b) for (a, b) in l])))
        ctx.check("flag", r.value.is_cannon is True)
    return body


def t_binop(opname, k1, k2):
    def body(ctx):
        A, pa = mk(ctx, "a", k1)
        B, pb = mk(ctx, "b", k2)
        z = ctx.int("z")
        r = ctx.call(getattr(interval, opname), A, B)
        if not no_raise(ctx, r):
            return
        ctx.cover("ret")
        out = r.value.intervals
        ctx.check("canonical", canonical(out))
        ma, mb = mem(z, pa), mem(z, pb)
        want = {"union": Or(ma, mb), "intersection": And(ma, mb), "difference": And(ma, Not(mb)),
                "__add__": Or(ma, mb), "__and__": And(ma, mb), "__sub__": And(ma, Not(mb))}[opname]
        ctx.check("gamma", Eq(mem(z, out), want))
        # frame: operands unchanged
        ctx.check("frame-self", And(len(A.intervals) == k1, *[And(x[0] == y[0], x[1] == y[1]) for x, y in zip(A.intervals, pa)]))
        ctx.check("frame-other", And(len(B.intervals) == k2, *[And(x[0] == y[0], x[1] == y[1]) for x, y in zip(B.intervals, pb)]))
    return body


def t_contains_int(k):
    def body(ctx):
        A, pa = mk(ctx, "a", k)
        z = ctx.int("z")
        r = ctx.call(interval.__contains__, A, z)
        if not no_raise(ctx, r):
            return
        ctx.cover("ret")
        ctx.check("membership", Eq(r.value, mem(z, pa)))
    return body


def t_contains_interval(k1, k2):
    def body(ctx):
        A, pa = mk(ctx, "a", k1)
        B, pb = mk(ctx, "b", k2)
        z = ctx.int("z")
        r = ctx.call(interval.__contains__, A, B)
        if not no_raise(ctx, r):
            return
        ctx.cover("ret")
        v = r.value
        # True => inclusion (pointwise); False => an explicit witness outside (endpoints of B, successors of A's ends)
        ctx.check("true=>subset", Implies(v, Implies(mem(z, pb), mem(z, pa))))
        cands = [x for p in pb for x in p] + [p[1] + 1 for p in pa]
        ctx.check("false=>witness", Implies(Not(v), Or(*[And(mem(c, pb), Not(mem(c, pa))) for c in cands])))
    return body


def t_eq(k1, k2):
    def body(ctx):
        A, pa = mk(ctx, "a", k1)
        B, pb = mk(ctx, "b", k2)
        z = ctx.int("z")
        r = ctx.call(interval.__eq__, A, B)
        if not no_raise(ctx, r):
            return
        r2 = ctx.call(interval.__ne__, A, B)
        if not no_raise(ctx, r2):
            return
        ctx.cover("ret")
        v = r.value
        ctx.check("true=>same-set", Implies(v, Eq(mem(z, pa), mem(z, pb))))
        cands = [x for p in pa + pb for x in p] + [p[1] + 1 for p in pa + pb] + [p[0] - 1 for p in pa + pb]
        ctx.check("false=>witness", Implies(Not(v), Or(*[Not(Eq(mem(c, pa), mem(c, pb))) for c in cands])))
        ctx.check("ne", Eq(r2.value, Not(v)))
    return body


def t_hull_length(k):
    def body(ctx):
        A, pa = mk(ctx, "a", k)
        z = ctx.int("z")
        r = ctx.call(interval.hull, A)
        if not no_raise(ctx, r):
            return
        lo, hi = r.value
        if k == 0:
            ctx.check("hull-empty", lo is None and hi is None)
        else:
            ctx.check("hull", And(mem(lo, pa), mem(hi, pa), Implies(mem(z, pa), And(lo <= z, z <= hi))))
        r = ctx.call(interval.length.fget, A)
        if not no_raise(ctx, r):
            return
        ctx.cover("ret")
        # |gamma| : canonical lists are pairwise disjoint (lemma 'disjoint' below), so the cardinality is the sum of sizes
        want = 0
        for (a, b) in pa:
            want = want + (b - a + 1)
        ctx.check("length", r.value == want)
        ctx.check("lemma-disjoint", And(*[Or(p[1] < q[0], q[1] < p[0]) for i, p in enumerate(pa) for q in pa[i + 1:]]))
        r = ctx.call(interval.empty.fget, A)
        if not no_raise(ctx, r):
            return
        ctx.check("empty", Eq(r.value, k == 0))
    return body


def targets(tier):
    K = 2 if tier == "quick" else 3
    ts = [Target("C26/cmp_interval", [M.cmp_interval], t_cmp, kind="proof", min_obligations=7)]
    ts[0].expect_covers = ["ret"]
    for k in range(0, (4 if tier == "quick" else 5)):
        ts.append(Target("C26/interval.cannon_list/k=%d" % k, [interval.cannon_list, M.cmp_interval], t_cannon_list(k),
                         params={"k": k}, kind="bounded", bound="list length = %d" % k))
    for k in range(0, K + 1):
        ts.append(Target("C26/interval.__init__/k=%d" % k, [interval.__init__, interval.cannon, interval.cannon_list],
                         t_init(k), params={"k": k}, kind="bounded", bound="list length = %d" % k))
        ts.append(Target("C26/interval.__contains__(int)/k=%d" % k, [interval.__contains__], t_contains_int(k),
                         params={"k": k}, kind="bounded", bound="list length = %d" % k))
        ts.append(Target("C26/interval.hull+length+empty/k=%d" % k, [interval.hull, interval.length.fget, interval.empty.fget],
                         t_hull_length(k), params={"k": k}, kind="bounded", bound="list length = %d" % k))
    for op in ("union", "intersection", "difference", "__add__", "__and__", "__sub__"):
        for k1 in range(0, K + 1):
            for k2 in range(0, K + 1):
                if op.startswith("__") and (k1, k2) != (1, 1):
                    continue        # operator sugar: one shape is enough (they delegate)
                ts.append(Target("C26/interval.%s/k=%d,%d" % (op, k1, k2),
                                 [getattr(interval, op), interval.__init__, interval.cannon_list, M.cmp_interval],
                                 t_binop(op, k1, k2), params={"k1": k1, "k2": k2}, kind="bounded",
                                 bound="list lengths = %d, %d" % (k1, k2)))
    for k1 in range(0, K + 1):
        for k2 in range(0, K + 1):
            ts.append(Target("C26/interval.__contains__(interval)/k=%d,%d" % (k1, k2), [interval.__contains__, M.cmp_interval],
                             t_contains_interval(k1, k2), params={"k1": k1, "k2": k2}, kind="bounded",
                             bound="list lengths = %d, %d" % (k1, k2)))
            ts.append(Target("C26/interval.__eq__/k=%d,%d" % (k1, k2), [interval.__eq__, interval.__ne__], t_eq(k1, k2),
                             params={"k1": k1, "k2": k2}, kind="bounded", bound="list lengths = %d, %d" % (k1, k2)))
    for t in ts:
        if not hasattr(t, "expect_covers"):
            t.expect_covers = ["ret"]
    return ts
