"""C27 -- Graph algorithms match their mathematical definitions (miasm/core/graph.py: DiGraph).

The algorithms are fixpoint / DFS computations over arbitrary graphs; an unbounded proof needs path induction that the
home-made verifier cannot carry (DESIGN section 4, C27).  Bounded stand-in, labelled: every public algorithm gets a contract
whose postcondition is the textbook definition evaluated by brute force (path / reachability enumeration written here,
independently of graph.py), and the contract is executed on the REAL DiGraph for every labelled digraph of the scope and every
choice of head / leaf."""
import itertools
import random

from miasm.core.graph import DiGraph

from harness.bounded import BoundedContract, chunked

PROPERTY = {
    "id": "C27",
    "level": "exploration",
    "engine": "bounded-contract",
    "technique": "bounded stand-in: run-time contract check of the real DiGraph algorithms (postcondition = textbook definition "
                 "by brute-force path enumeration) over every labelled digraph of a small scope and every head/leaf",
    "explanation": "Contracts on DiGraph.compute_dominators / compute_postdominators / compute_immediate_dominators / "
                   "compute_immediate_postdominators / compute_dominator_tree / compute_dominance_frontier / compute_back_edges / "
                   "compute_natural_loops / has_loop / compute_strongly_connected_components / "
                   "compute_weakly_connected_components / reachable_sons / reachable_parents / reachable_parents_stop_node / "
                   "walk_{breadth,depth}_first_{forward,backward} / find_path / find_path_from_src: the result equals the "
                   "definitional value (dominance by node removal, frontier by the Cytron definition, loops by reachability "
                   "avoiding the header, components by mutual reachability, paths by exhaustive simple-path enumeration). "
                   "Executed on the real class for EVERY labelled digraph with <= 4 nodes including self-loops (quick: 1..3 nodes "
                   "all heads, 4 nodes all heads) and, in thorough, every labelled 5-node digraph without self-loops at head 0 "
                   "(complete up to isomorphism) plus random 5..7-node graphs with self-loops and parallel edges. Bounded: "
                   "exploration, not proof.",
    "rule": "one case = one labelled digraph; every head and leaf of it is checked against all contracts; non-trivial = the graph "
            "has at least one edge",
    "trusted_base": ["CPython executes the real methods; the definitional specs are written independently in props/C27.py"],
    "assumptions": ["scope: <= 4 nodes exhaustive (5 nodes without self-loops in thorough), random larger graphs in thorough",
                    "find_path / find_path_from_src: cycles_count=0 gives the simple paths; for cycles_count=1 (and 2 up to 3 nodes) "
                    "the walks on which the end point the search stops at occurs once and every other block at most cycles_count+1 "
                    "times",
                    "generators are compared as sets plus absence of duplicates (yield order is unspecified except BFS levels)"],
}


# ------------------------------------------------------------------------------------------------------------------
# definitional specs (no code shared with graph.py)
# ------------------------------------------------------------------------------------------------------------------

class G(object):
    """plain adjacency view used by the specs"""

    def __init__(self, n, edges):
        self.nodes = list(range(n))
        self.edges = list(edges)
        self.succ = dict((v, []) for v in self.nodes)
        self.pred = dict((v, []) for v in self.nodes)
        for a, b in edges:
            self.succ[a].append(b)
            self.pred[b].append(a)

    def reach(self, src, avoid=None, rev=False):
        """nodes reachable from src by a path none of whose nodes is `avoid` (src itself must differ from avoid)"""
        if src == avoid:
            return set()
        nxt = self.pred if rev else self.succ
        seen = {src}
        todo = [src]
        while todo:
            v = todo.pop()
            for w in nxt[v]:
                if w != avoid and w not in seen:
                    seen.add(w)
                    todo.append(w)
        return seen


def spec_dominators(g, head, rev=False):
    r = g.reach(head, rev=rev)
    dom = {}
    for n in r:
        if n == head:
            dom[n] = {head}
            continue
        dom[n] = set(d for d in r if d == n or n not in g.reach(head, avoid=d, rev=rev))
    return dom


def spec_idoms(dom, head):
    out = {}
    for n, ds in dom.items():
        if n == head:
            continue
        strict = ds - {n}
        # the immediate dominator is the strict dominator that every other strict dominator dominates
        cands = [d for d in strict if all(o in dom[d] for o in strict)]
        assert len(cands) == 1, (n, ds, cands)
        out[n] = cands[0]
    return out


def spec_frontier(g, dom, head):
    """Cytron et al.: DF(x) = { y | x dominates a predecessor of y and x does not strictly dominate y } over the reachable part"""
    out = {}
    for x in dom:
        for y in dom:
            if any(p in dom and x in dom[p] for p in g.pred[y]) and not (x in dom[y] and x != y):
                out.setdefault(x, set()).add(y)
    return out


def spec_back_edges(g, dom, head):
    return set((a, b) for (a, b) in g.edges if a in dom and b in dom[a])


def spec_loop_body(g, a, b):
    """natural loop of the back edge a->b: b plus every node that reaches a without going through b"""
    return {b} | g.reach(a, avoid=b, rev=True)


def spec_has_cycle(g):
    return any(v in g.reach(w) for v in g.nodes for w in g.succ[v])


def spec_sccs(g):
    out = set()
    for v in g.nodes:
        fw = g.reach(v)
        out.add(frozenset(w for w in fw if v in g.reach(w)))
    return out


def spec_wccs(g):
    out = set()
    for v in g.nodes:
        seen = {v}
        todo = [v]
        while todo:
            x = todo.pop()
            for w in g.succ[x] + g.pred[x]:
                if w not in seen:
                    seen.add(w)
                    todo.append(w)
        out.add(frozenset(seen))
    return out


def spec_parents_stop(g, leaf, head):
    """n such that a path n -> ... -> leaf exists on which no node after n is `head` (the search does not go past head)"""
    seen = {leaf}
    todo = [leaf]
    while todo:
        v = todo.pop()
        if v == head:
            continue
        for w in g.pred[v]:
            if w not in seen:
                seen.add(w)
                todo.append(w)
    return seen


def spec_simple_paths(g, src, dst):
    out = set()

    def rec(path):
        v = path[-1]
        if v == dst:
            out.add(tuple(path))
            return
        for w in set(g.succ[v]):
            if w not in path:
                rec(path + [w])
    rec([src])
    return out


def spec_bounded_walks(g, src, dst, cycles_count, from_src=False):
    """find_path(src, dst, cycles_count): every walk from src to dst on which the end the search stops at (src for find_path,
    which walks backwards from dst; dst for find_path_from_src) occurs once and every other node at most cycles_count + 1
    times ("maximum number of times a basic block can be processed")"""
    out = set()
    stop, start = (dst, src) if from_src else (src, dst)
    nxt = g.succ if from_src else g.pred
    if src == dst:
        return {(src,)}

    def rec(path, count):
        v = path[-1]
        for w in nxt[v]:
            if w == stop:
                out.add(tuple(path + [w]) if from_src else tuple(reversed(path + [w])))
                continue
            if count.get(w, 0) > cycles_count:
                continue
            c2 = dict(count)
            c2[w] = c2.get(w, 0) + 1
            rec(path + [w], c2)
    rec([start], {start: 1})
    return out


def dist_from(g, src, rev=False):
    nxt = g.pred if rev else g.succ
    d = {src: 0}
    layer = [src]
    while layer:
        new = []
        for v in layer:
            for w in nxt[v]:
                if w not in d:
                    d[w] = d[v] + 1
                    new.append(w)
        layer = new
    return d


# ------------------------------------------------------------------------------------------------------------------
# the contracts, evaluated on the real class
# ------------------------------------------------------------------------------------------------------------------

def build(n, edges):
    dg = DiGraph()
    for v in range(n):
        dg.add_node(v)
    for a, b in edges:
        dg.add_edge(a, b)
    return dg


def nodup(lst):
    return len(lst) == len(set(lst))


def check_graph(n, edges, heads=None):
    """-> None or a failure description"""
    g = G(n, edges)
    dg = build(n, edges)
    snapshot = (set(dg.nodes()), sorted(dg.edges()))

    def frame():
        return (set(dg.nodes()), sorted(dg.edges())) == snapshot

    if dg.has_loop() != spec_has_cycle(g):
        return "has_loop() = %r, a cycle %s" % (dg.has_loop(), "exists" if spec_has_cycle(g) else "does not exist")
    sccs = [frozenset(s) for s in dg.compute_strongly_connected_components()]
    if not nodup(sccs) or set(sccs) != spec_sccs(g):
        return "strongly connected components %r, expected %r" % (sorted(map(sorted, sccs)), sorted(map(sorted, spec_sccs(g))))
    wccs = [frozenset(s) for s in dg.compute_weakly_connected_components()]
    if not nodup(wccs) or set(wccs) != spec_wccs(g):
        return "weakly connected components %r, expected %r" % (sorted(map(sorted, wccs)), sorted(map(sorted, spec_wccs(g))))

    for head in (range(n) if heads is None else heads):
        for rev in (False, True):
            what = "post" if rev else ""
            dom = spec_dominators(g, head, rev)
            got = dg.compute_postdominators(head) if rev else dg.compute_dominators(head)
            if got != dom:
                return "compute_%sdominators(%d) = %r, definition gives %r" % (what, head, got, dom)
            idom = spec_idoms(dom, head)
            got = dg.compute_immediate_postdominators(head) if rev else dg.compute_immediate_dominators(head)
            if got != idom:
                return "compute_immediate_%sdominators(%d) = %r, definition gives %r" % (what, head, got, idom)
            r = list(dg.reachable_parents(head) if rev else dg.reachable_sons(head))
            if not nodup(r) or set(r) != g.reach(head, rev=rev):
                return "reachable_%s(%d) = %r, expected %r" % ("parents" if rev else "sons", head, r, g.reach(head, rev=rev))
            dist = dist_from(g, head, rev)
            for mode in ("breadth", "depth"):
                fn = getattr(dg, "walk_%s_first_%s" % (mode, "backward" if rev else "forward"))
                w = list(fn(head))
                if not nodup(w) or set(w) != g.reach(head, rev=rev) or w[0] != head:
                    return "walk_%s_first_%s(%d) = %r, expected the nodes %r once each starting at the head" % (
                        mode, "backward" if rev else "forward", head, w, g.reach(head, rev=rev))
                if mode == "breadth" and any(dist[a] > dist[b] for a, b in zip(w, w[1:])):
                    return "walk_breadth_first_%s(%d) = %r is not in breadth-first (distance) order" % (
                        "backward" if rev else "forward", head, w)
        dom = spec_dominators(g, head)
        idom = spec_idoms(dom, head)
        tree = dg.compute_dominator_tree(head)
        if set(tree.edges()) != set((idom[x], x) for x in idom) or not nodup(list(tree.edges())) or \
                set(tree.nodes()) != set(idom) | set(idom.values()):
            return "compute_dominator_tree(%d) has edges %r, expected %r" % (head, sorted(tree.edges()),
                                                                             sorted((idom[x], x) for x in idom))
        fr = dict((k, v) for k, v in dg.compute_dominance_frontier(head).items() if v)
        if fr != spec_frontier(g, dom, head):
            return "compute_dominance_frontier(%d) = %r, definition gives %r" % (head, fr, spec_frontier(g, dom, head))
        be = list(dg.compute_back_edges(head))
        if set(be) != spec_back_edges(g, dom, head):
            return "compute_back_edges(%d) = %r, definition gives %r" % (head, be, sorted(spec_back_edges(g, dom, head)))
        loops = list(dg.compute_natural_loops(head))
        if set(e for e, _ in loops) != spec_back_edges(g, dom, head):
            return "compute_natural_loops(%d) reports the back edges %r, expected %r" % (head, [e for e, _ in loops],
                                                                                       sorted(spec_back_edges(g, dom, head)))
        for (a, b), body in loops:
            if set(body) != spec_loop_body(g, a, b):
                return "natural loop of %r from head %d = %r, definition gives %r" % ((a, b), head, body, spec_loop_body(g, a, b))
        for leaf in range(n):
            r = list(dg.reachable_parents_stop_node(leaf, head))
            if not nodup(r) or set(r) != spec_parents_stop(g, leaf, head):
                return "reachable_parents_stop_node(%d, %d) = %r, expected %r" % (leaf, head, r, spec_parents_stop(g, leaf, head))
            src, dst = head, leaf
            sp = spec_simple_paths(g, src, dst)
            for fname in ("find_path", "find_path_from_src"):
                got = [tuple(p) for p in getattr(dg, fname)(src, dst)]
                if len(got) != len(set(got)) and nodup(g.edges):
                    return "%s(%d, %d) lists a path twice: %r" % (fname, src, dst, got)
                if set(got) != sp:
                    return "%s(%d, %d) = %r, the simple paths are %r" % (fname, src, dst, sorted(got), sorted(sp))
                for cc in (1, 2) if n <= 3 else (1,):
                    got1 = [tuple(p) for p in getattr(dg, fname)(src, dst, cycles_count=cc)]
                    want1 = spec_bounded_walks(g, src, dst, cc, from_src=(fname == "find_path_from_src"))
                    if set(got1) != want1:
                        return "%s(%d, %d, cycles_count=%d) = %r, the walks visiting a block at most %d times are %r" % (
                            fname, src, dst, cc, sorted(got1)[:6], cc + 1, sorted(want1)[:6])
                    if len(got1) != len(set(got1)) and nodup(g.edges):
                        return "%s(%d, %d, cycles_count=%d) lists a path twice" % (fname, src, dst, cc)
        if not frame():
            return "an analysis modified the graph (head %d)" % head
    return None


def all_pairs(n, self_loops=True):
    return [(a, b) for a in range(n) for b in range(n) if self_loops or a != b]


class GraphCases(BoundedContract):
    CASE_SECONDS = 5
    BOUND = "every labelled digraph with <= 4 nodes incl. self-loops, all heads and leaves (thorough: + all 5-node digraphs " \
            "without self-loops at head 0, + random 5..7-node multigraphs)"

    def funcs(self):
        D = DiGraph
        return [D._compute_generic_dominators, D.compute_dominators, D.compute_postdominators, D.compute_dominator_tree,
                D._walk_generic_dominator, D.compute_immediate_dominators, D.compute_immediate_postdominators,
                D.compute_dominance_frontier, D._walk_generic_first, D.has_loop, D.compute_natural_loops, D.compute_back_edges,
                D._compute_natural_loop_body, D.compute_strongly_connected_components, D.compute_weakly_connected_components,
                D._reachable_nodes, D.reachable_sons, D.reachable_parents, D.reachable_parents_stop_node,
                D.predecessors_stop_node_iter, D.find_path, D.find_path_from_src, D.add_node, D.add_edge]

    def cases(self):
        # a case is (n, edge bitmask or explicit edge list, heads or None); masks keep the case list small
        out = []
        for n in (1, 2, 3, 4):
            for mask in range(1 << (n * n)):
                out.append((n, mask, True, None))
        if self.tier == "thorough":
            for mask in range(1 << 20):
                out.append((5, mask, False, (0,)))
            rng = random.Random(2027)
            for _ in range(40000):
                n = rng.choice((5, 5, 6, 6, 7))
                m = rng.randint(n - 1, 2 * n + 2)
                out.append((n, tuple((rng.randrange(n), rng.randrange(n)) for _ in range(m)), None, None))
        return out

    def my_cases(self):
        # cases() is large in thorough: slice without materialising per-chunk copies
        return [(i, c) for i, c in enumerate(self.cases()) if i % self.nchunks == self.chunk]

    @staticmethod
    def edges_of(case):
        n, spec, loops, heads = case
        if isinstance(spec, tuple):
            return list(spec)
        pairs = all_pairs(n, loops)
        return [p for i, p in enumerate(pairs) if spec >> i & 1]

    def show(self, case):
        return "DiGraph(nodes=0..%d, edges=%r)%s" % (case[0] - 1, self.edges_of(case), "" if case[3] is None else " heads=%r" % (case[3],))

    def check(self, case):
        edges = self.edges_of(case)
        why = check_graph(case[0], edges, case[3])
        return (why is None, why or "", bool(edges))


def targets(tier):
    return chunked(GraphCases, "C27/DiGraph-algorithms", 16, tier)
