"""C28 -- The location database stays consistent (miasm/core/locationdb.py)."""
import itertools

from miasm.core.locationdb import LocationDB
from miasm.expression.expression import LocKey

from harness.core import Target
from vc.terms import And, Eq, Implies, Ite, Not, Or

PROPERTY = {
    "id": "C28",
    "level": "other",
    "explanation": "Shape-bounded inductiveness check of LocationDB's representation invariant on the real methods: every "
                   "pre-state with <= 2 (quick) / 3 (thorough) locations, each with an optional SYMBOLIC offset and up to two "
                   "names from a pool, that satisfies the invariant (offset maps inverse of each other, name maps inverse of "
                   "each other, every key known, every key below the generation counter) is built field by field; each public "
                   "operation is interpreted symbolically and must re-establish the invariant and its postcondition over the "
                   "whole abstract view (all name and offset associations); every rejecting path must leave the view unchanged. "
                   "Non-strict add_location must RETURN the location that carries the requested name and offset. merge must "
                   "import every association of the other database when it returns normally.",
    "trusted_base": ["pyvc interpreter + CPython differential", "z3 linear integer arithmetic", "dict/set models with symbolic "
                     "integer keys and LocKey keys (LocKey.__eq__/__hash__ interpreted / trusted consistent)"],
    "assumptions": ["names are strings from a finite pool (enumerated), offsets are arbitrary integers (symbolic)",
                    "shape bound on the number of locations; merge: the other database has <= 2 locations",
                    "merge is not required to be atomic: on an exception only the invariant is required"],
}

POOL = ["n0", "n1", "n2"]


def layouts(L):
    """name layouts: tuple per location of a tuple of names (disjoint), at most 2 names each"""
    out = []
    opts = [()] + [(n,) for n in POOL] + [(a, b) for a, b in itertools.combinations(POOL, 2)]
    for combo in itertools.product(opts, repeat=L):
        used = [n for c in combo for n in c]
        if len(used) == len(set(used)):
            out.append(combo)
    return out


def build(ctx, L, prefix="", base_key=0):
    db = LocationDB()
    lay = layouts(L)
    names = lay[ctx.choose(len(lay), prefix + "layout")]
    keys = [LocKey(base_key + i) for i in range(L)]
    offs = []
    for i in range(L):
        has = ctx.decide(ctx.bool("%shas_off%d" % (prefix, i)))
        o = ctx.int("%soff%d" % (prefix, i), 0, None, rnd_hi=6) if has else None
        offs.append(o)
        db._loc_keys.add(keys[i])
        if o is not None:
            for j in range(i):
                if offs[j] is not None:
                    ctx.assume(offs[j] != o)
            db._loc_key_to_offset[keys[i]] = o
            db._offset_to_loc_key[o] = keys[i]
        if names[i]:
            db._loc_key_to_names[keys[i]] = set(names[i])
            for n in names[i]:
                db._name_to_loc_key[n] = keys[i]
    db._loc_key_num = base_key + L
    return db, keys, offs, names


def view(db):
    """abstract view: list of (key number, offset or None, frozenset of names)"""
    out = {}
    for k in db._loc_keys:
        out[k._key] = [None, set()]
    for k, o in db._loc_key_to_offset.items():
        out.setdefault(k._key, [None, set()])[0] = o
    for k, ns in db._loc_key_to_names.items():
        out.setdefault(k._key, [None, set()])[1] = set(ns)
    return out


def wf(ctx, db):
    conj = []
    l2o, o2l = db._loc_key_to_offset, db._offset_to_loc_key
    conj.append(len(l2o) == len(o2l))
    for k, o in l2o.items():
        conj.append(ctx.Or(*[And(ctx.equal(o2, o), k2 == k) for o2, k2 in o2l.items()]))
        conj.append(k in db._loc_keys)
    offs = list(o2l)
    for i in range(len(offs)):
        for j in range(i + 1, len(offs)):
            conj.append(Not(ctx.equal(offs[i], offs[j])))      # each offset at most one location
    n2l, l2n = db._name_to_loc_key, db._loc_key_to_names
    for n, k in n2l.items():
        conj.append(k in db._loc_keys and k in l2n and n in l2n[k])
    for k, ns in l2n.items():
        conj.append(k in db._loc_keys)
        for n in ns:
            conj.append(n in n2l and n2l[n] == k)
    for k in db._loc_keys:
        conj.append(k._key < db._loc_key_num)
    return And(*conj)


def same_view(ctx, v0, v1):
    if set(v0) != set(v1):
        return False
    conj = []
    for k in v0:
        (o0, n0), (o1, n1) = v0[k], v1[k]
        if (o0 is None) != (o1 is None) or n0 != n1:
            return False
        if o0 is not None:
            conj.append(ctx.equal(o0, o1))
    return And(*conj)


def pick_name(ctx, tag="name"):
    opts = [None] + POOL + ["fresh"]
    return opts[ctx.choose(len(opts), tag)]


def t_add_location(L):
    def body(ctx):
        db, keys, offs, names = build(ctx, L)
        v0 = view(db)
        num0 = db._loc_key_num
        name = pick_name(ctx)
        give_off = ctx.decide(ctx.bool("give_offset"))
        off = ctx.int("offset", 0, None, rnd_hi=6) if give_off else None
        strict = ctx.decide(ctx.bool("strict"))
        r = ctx.call(LocationDB.add_location, db, name, off, strict)
        ctx.cover("ret")
        v1 = view(db)
        name_loc = next((i for i in range(L) if name in names[i]), None) if name else None
        off_hit = [Eq(offs[i], off) if (off is not None and offs[i] is not None) else False for i in range(L)]
        if r.raised:
            ctx.check("raise-leaves-db-unchanged", same_view(ctx, v0, v1), kind="raises-post")
            ctx.check("raise-keeps-invariant", wf(ctx, db), kind="raises-post")
            ctx.check("raise-only-on-collision", isinstance(r.exc, (ValueError, KeyError)) and
                      Or(name_loc is not None, *off_hit), kind="raises-post")
            return
        l = r.value
        ctx.check("returns-a-location", isinstance(l, LocKey))
        ctx.check("invariant", wf(ctx, db))
        if not isinstance(l, LocKey):
            return
        o1, n1 = v1.get(l._key, [None, set()])
        if name is not None:
            ctx.check("carries-name", name in n1)
        if off is not None:
            ctx.check("carries-offset", ctx.equal(o1, off) if o1 is not None else False)
        if strict:
            ctx.check("strict=>fresh", l._key == num0 and l._key not in v0)
        # nothing else moves: every other location keeps its offset and names, nothing disappears
        for k in v0:
            if k == l._key:
                ctx.check("existing:names-only-grow", v0[k][1] <= n1)
                if v0[k][0] is not None:
                    ctx.check("existing:offset-kept", ctx.equal(v0[k][0], o1) if o1 is not None else False)
            else:
                ctx.check("others-untouched", And(k in v1 and v1[k][1] == v0[k][1], (v1[k][0] is None) == (v0[k][0] is None),
                                                  ctx.equal(v1[k][0], v0[k][0]) if (k in v1 and v0[k][0] is not None and v1[k][0] is not None) else True))
        ctx.check("at-most-one-new", len(v1) <= len(v0) + 1)
    return body


def t_name_ops(L):
    def body(ctx):
        db, keys, offs, names = build(ctx, L)
        v0 = view(db)
        i = ctx.choose(L, "which")
        name = pick_name(ctx)
        if name is None:
            name = "fresh"
        remove = ctx.decide(ctx.bool("remove"))
        owner = next((j for j in range(L) if name in names[j]), None)
        if remove:
            r = ctx.call(LocationDB.remove_location_name, db, keys[i], name)
        else:
            r = ctx.call(LocationDB.add_location_name, db, keys[i], name)
        ctx.cover("ret")
        v1 = view(db)
        ctx.check("invariant", wf(ctx, db))
        if r.raised:
            ctx.check("raise-leaves-db-unchanged", same_view(ctx, v0, v1), kind="raises-post")
            ctx.check("raise-is-KeyError", isinstance(r.exc, KeyError), kind="raises-post")
            ctx.check("raise-justified", (owner != i) if remove else (owner is not None and owner != i), kind="raises-post")
            return
        want = dict((k, [v0[k][0], set(v0[k][1])]) for k in v0)
        if remove:
            ctx.check("was-associated", owner == i)
            want[keys[i]._key][1].discard(name)
        else:
            want[keys[i]._key][1].add(name)
        ctx.check("view", same_view(ctx, want, v1))
    return body


def t_offset_ops(L):
    def body(ctx):
        db, keys, offs, names = build(ctx, L)
        v0 = view(db)
        i = ctx.choose(L, "which")
        unset = ctx.decide(ctx.bool("unset"))
        off = ctx.int("offset", 0, None, rnd_hi=6)
        force = ctx.decide(ctx.bool("force"))
        if unset:
            r = ctx.call(LocationDB.unset_location_offset, db, keys[i])
        else:
            r = ctx.call(LocationDB.set_location_offset, db, keys[i], off, force)
        ctx.cover("ret")
        v1 = view(db)
        ctx.check("invariant", wf(ctx, db))
        other_has = Or(*[Eq(offs[j], off) for j in range(L) if j != i and offs[j] is not None])
        if r.raised:
            ctx.check("raise-leaves-db-unchanged", same_view(ctx, v0, v1), kind="raises-post")
            if unset:
                ctx.check("raise-justified", offs[i] is None, kind="raises-post")
            else:
                ctx.check("raise-justified", Or(other_has, And(offs[i] is not None and not force, Not(Eq(offs[i], off)) if offs[i] is not None else False)),
                          kind="raises-post")
            return
        want = dict((k, [v0[k][0], set(v0[k][1])]) for k in v0)
        want[keys[i]._key][0] = None if unset else off
        ctx.check("view", same_view(ctx, want, v1))
        if not unset:
            ctx.check("no-stealing", Not(other_has))
    return body


def t_remove_location(L):
    def body(ctx):
        db, keys, offs, names = build(ctx, L)
        v0 = view(db)
        i = ctx.choose(L + 1, "which")
        k = keys[i] if i < L else LocKey(77)
        r = ctx.call(LocationDB.remove_location, db, k)
        ctx.cover("ret")
        v1 = view(db)
        ctx.check("invariant", wf(ctx, db))
        if r.raised:
            ctx.check("raise-leaves-db-unchanged", same_view(ctx, v0, v1), kind="raises-post")
            ctx.check("raise-justified", i == L and isinstance(r.exc, KeyError), kind="raises-post")
            return
        want = dict((kk, v) for kk, v in v0.items() if kk != k._key)
        ctx.check("view", same_view(ctx, want, v1))
        ctx.check("associations-gone", And(*[n not in db._name_to_loc_key for n in (names[i] if i < L else ())]))
    return body


def t_getters(L):
    def body(ctx):
        db, keys, offs, names = build(ctx, L)
        v0 = view(db)
        off = ctx.int("offset", 0, None, rnd_hi=6)
        name = pick_name(ctx) or "fresh"
        ctx.cover("ret")
        r = ctx.call(LocationDB.get_offset_location, db, off)
        want = None
        hit = [Eq(offs[j], off) if offs[j] is not None else False for j in range(L)]
        ctx.check("get_offset_location", (not r.raised) and And(*[Implies(hit[j], r.value == keys[j]) for j in range(L)],
                                                               Implies(Not(Or(*hit)), r.value is None)))
        owner = next((j for j in range(L) if name in names[j]), None)
        r = ctx.call(LocationDB.get_name_location, db, name)
        ctx.check("get_name_location", (not r.raised) and (r.value == (keys[owner] if owner is not None else None)))
        r = ctx.call(LocationDB.get_name_offset, db, name)
        if owner is None or offs[owner] is None:
            ctx.check("get_name_offset", (not r.raised) and r.value is None)
        else:
            ctx.check("get_name_offset", (not r.raised) and ctx.equal(r.value, offs[owner]))
        ctx.check("getters-pure", same_view(ctx, v0, view(db)))
        # get_or_create
        r = ctx.call(LocationDB.get_or_create_offset_location, db, off)
        v1 = view(db)
        ctx.check("get_or_create_offset:invariant", wf(ctx, db))
        if r.raised:
            ctx.check("get_or_create_offset:no-raise", False, kind="no-raise")
            return
        l = r.value
        ctx.check("get_or_create_offset:carries", isinstance(l, LocKey) and (ctx.equal(v1[l._key][0], off) if v1.get(l._key, [None])[0] is not None else False))
        ctx.check("get_or_create_offset:existing-or-fresh", And(*[Implies(hit[j], l == keys[j]) for j in range(L)],
                                                                Implies(Not(Or(*hit)), l._key not in v0)))
        r = ctx.call(LocationDB.get_or_create_name_location, db, name)
        if r.raised:
            ctx.check("get_or_create_name:no-raise", False, kind="no-raise")
            return
        ctx.check("get_or_create_name:invariant", wf(ctx, db))
        l2 = r.value
        ctx.check("get_or_create_name:carries", isinstance(l2, LocKey) and name in view(db)[l2._key][1])
        ctx.check("get_or_create_name:existing", (l2 == keys[owner]) if owner is not None else (l2._key not in v0))
    return body


def t_merge(L, M):
    def body(ctx):
        db, keys, offs, names = build(ctx, L)
        other, okeys, ooffs, onames = build(ctx, M, prefix="o_", base_key=0)
        ov = view(other)
        r = ctx.call(LocationDB.merge, db, other)
        ctx.cover("ret")
        ctx.check("invariant", wf(ctx, db))
        ctx.check("other-unchanged", same_view(ctx, ov, view(other)))
        if r.raised:
            ctx.check("raise-is-collision", isinstance(r.exc, (ValueError, KeyError)), kind="raises-post")
            return
        v1 = view(db)
        # every association of the other database is present: names of one foreign location end up on ONE location, which
        # also carries the foreign offset
        for j in range(M):
            homes = []
            for n in onames[j]:
                ctx.check("merge:name-imported", n in db._name_to_loc_key)
                if n in db._name_to_loc_key:
                    homes.append(db._name_to_loc_key[n]._key)
            ctx.check("merge:names-stay-together", len(set(homes)) <= 1)
            if ooffs[j] is not None:
                hit = [ctx.equal(o, ooffs[j]) for o in db._offset_to_loc_key]
                ctx.check("merge:offset-imported", Or(*hit))
                if homes:
                    ho = v1[homes[0]][0]
                    ctx.check("merge:offset-with-names", ctx.equal(ho, ooffs[j]) if ho is not None else False)
    return body


def targets(tier):
    Ls = [0, 1, 2] if tier == "quick" else [0, 1, 2, 3]
    D = LocationDB
    ts = []
    for L in Ls:
        b = "%d locations in the pre-state" % L
        ts.append(Target("C28/LocationDB.add_location/locs=%d" % L, [D.add_location, D.add_location_name, D.set_location_offset,
                                                                    D.get_offset_location, D.get_name_location],
                         t_add_location(L), kind="bounded", bound=b, max_paths=60000))
        ts.append(Target("C28/LocationDB.getters+get_or_create/locs=%d" % L,
                         [D.get_offset_location, D.get_name_location, D.get_name_offset, D.get_or_create_offset_location,
                          D.get_or_create_name_location, D.add_location], t_getters(L), kind="bounded", bound=b, max_paths=60000))
        if L >= 1:
            ts.append(Target("C28/LocationDB.add/remove_location_name/locs=%d" % L, [D.add_location_name, D.remove_location_name],
                             t_name_ops(L), kind="bounded", bound=b, max_paths=60000))
            ts.append(Target("C28/LocationDB.set/unset_location_offset/locs=%d" % L, [D.set_location_offset, D.unset_location_offset],
                             t_offset_ops(L), kind="bounded", bound=b, max_paths=60000))
        ts.append(Target("C28/LocationDB.remove_location/locs=%d" % L, [D.remove_location], t_remove_location(L), kind="bounded",
                         bound=b, max_paths=60000))
    for L in ([0, 1, 2] if tier == "quick" else [0, 1, 2]):
        for M in ([1, 2] if tier != "quick" or L < 2 else [1]):
            ts.append(Target("C28/LocationDB.merge/locs=%d,other=%d" % (L, M), [D.merge, D.add_location, D.add_location_name],
                             t_merge(L, M), kind="bounded", bound="%d + %d locations" % (L, M), max_paths=120000))
    for t in ts:
        t.expect_covers = ["ret"]
        t.diff_samples = 25
    return ts
