"""C29 -- The bounded cache dictionary keeps its size and callback contract (miasm/core/utils.py: BoundedDict)."""
from miasm.core.utils import BoundedDict

from harness.core import Target
from vc.terms import And, Eq, Implies, Ite, Not, Or

PROPERTY = {
    "id": "C29",
    "level": "other",
    "explanation": "Shape-bounded inductiveness check of BoundedDict's representation invariant on the real methods: for every "
                   "pre-state with <= k entries (k = 3 quick / 4 thorough) that satisfies the invariant -- keys, values, use "
                   "counters, max_size and min_size all symbolic and unbounded -- each public operation re-establishes the "
                   "invariant and its postcondition over the WHOLE abstract view (stored values, dropped keys, callback log). "
                   "__init__ is required to establish the invariant for every max_size >= 1. Solver-discharged per path; "
                   "bounded in the number of entries, hence 'other', not proof.",
    "trusted_base": ["pyvc interpreter + CPython differential", "z3 linear integer arithmetic",
                     "builtin models: sorted(key=itemgetter(1), reverse=True) as a stable sort on symbolic keys, dict with "
                     "symbolic keys, list slicing with symbolic bounds"],
    "assumptions": ["keys are integers (hash/eq of int is trusted)", "pre-states have at most k entries (shape bound)",
                    "the deletion callback is an arbitrary side-effect-free recorder (ghost log)"],
}


def inv(d):
    """representation invariant (evaluated on the real object's fields)"""
    return And(d._size == len(d._data), len(d._counter) == len(d._data), len(d._data) <= d._max_size,
               1 <= d._min_size, d._min_size <= d._max_size)


def same_keys(ctx, a, b):
    return And(len(a) == len(b), *[ctx.Or(*[ctx.equal(k, k2) for k2 in b]) for k in a])


def build(ctx, k, at_limit=None):
    log = []
    d = object.__new__(BoundedDict)
    keys = [ctx.int("k%d" % i) for i in range(k)]
    vals = [ctx.int("v%d" % i) for i in range(k)]
    cnts = [ctx.int("c%d" % i, 1, None, rnd_hi=9) for i in range(k)]
    for i in range(k):
        for j in range(i + 1, k):
            ctx.assume(keys[i] != keys[j])
    d._data = dict(zip(keys, vals))
    d._counter = dict(zip(keys, cnts))
    d._size = k
    d._max_size = ctx.int("max_size", 1, None, rnd_hi=k + 2)
    d._min_size = ctx.int("min_size", 1, None, rnd_hi=k + 2)
    d._delete_cb = log.append
    ctx.assume(inv(d))
    return d, keys, vals, cnts, log


def count_in(ctx, log, key):
    n = 0
    for x in log:
        n = n + Ite(ctx.equal(x, key), 1, 0)
    return n


def t_init(ctx):
    mx = ctx.int("max_size", 1, None, rnd_hi=12)
    use_min = ctx.bool("give_min")
    if ctx.decide(use_min):
        mn = ctx.int("min_size", 1, None, rnd_hi=12)
        ctx.assume(mn <= mx)
        r = ctx.call(BoundedDict, mx, mn)
    else:
        r = ctx.call(BoundedDict, mx)
    if r.raised:
        ctx.check("no-raise:%s" % type(r.exc).__name__, False, kind="no-raise")
        return
    ctx.cover("ret")
    d = r.value
    ctx.check("establishes-invariant", inv(d))
    ctx.check("empty", len(d._data) == 0)
    d._delete_cb = None


def t_setitem(k):
    def body(ctx):
        d, keys, vals, cnts, log = build(ctx, k)
        key = ctx.int("key")
        val = ctx.int("val")
        mx, mn = d._max_size, d._min_size
        r = ctx.call(BoundedDict.__setitem__, d, key, val)
        if r.raised:
            ctx.check("no-raise:%s" % type(r.exc).__name__, False, kind="no-raise")
            d._delete_cb = None
            return
        ctx.cover("ret")
        data = d._data
        ctx.check("invariant", inv(d))
        ctx.check("never-more-than-max", len(data) <= mx)
        ctx.check("stored", ctx.Or(*[And(ctx.equal(k2, key), ctx.equal(data[k2], val)) for k2 in data]))
        was_in = ctx.Or(*[key == x for x in keys])
        at_limit = k + 1 >= mx
        evict = And(Not(was_in), at_limit)
        # no eviction: every old key keeps its value, nothing is reported
        for i in range(k):
            kept = ctx.Or(*[ctx.equal(k2, keys[i]) for k2 in data])
            n_cb = count_in(ctx, log, keys[i])
            ctx.check("no-evict=>kept", Implies(Not(evict), kept))
            ctx.check("kept=>value", Implies(And(kept, keys[i] != key),
                                            ctx.Or(*[And(ctx.equal(k2, keys[i]), ctx.equal(data[k2], vals[i])) for k2 in data])))
            ctx.check("dropped<=>one-callback", And(Implies(kept, n_cb == 0), Implies(Not(kept), n_cb == 1)))
            # most used keys survive: a kept old key is at least as used as every dropped one
            for j in range(k):
                if i != j:
                    kept_j = ctx.Or(*[ctx.equal(k2, keys[j]) for k2 in data])
                    ctx.check("keeps-most-used", Implies(And(evict, kept, Not(kept_j)), cnts[i] >= cnts[j]))
        ctx.check("callback-only-for-old-keys", And(*[ctx.Or(*[ctx.equal(x, kk) for kk in keys]) for x in log]) if log else True)
        # use counters (the abstract "how often was this key used"): a store to a held key is one more use, a new key starts
        # at one use, no other counter moves (without eviction); after an eviction every kept key restarts at one use
        cnt = d._counter
        for i in range(k):
            want = Ite(evict, 1, Ite(keys[i] == key, cnts[i] + 1, cnts[i]))
            ctx.check("use-counters", Implies(ctx.Or(*[ctx.equal(k2, keys[i]) for k2 in data]),
                                              ctx.Or(*[And(ctx.equal(k2, keys[i]), ctx.equal(cnt[k2], want)) for k2 in cnt])))
        ctx.check("use-counter-new-key", Implies(Not(was_in), ctx.Or(*[And(ctx.equal(k2, key), ctx.equal(cnt[k2], 1)) for k2 in cnt])))
        ctx.check("evict-size", Implies(evict, len(data) == mn))
        ctx.check("no-evict-size", Implies(Not(evict), len(data) == k + Ite(was_in, 0, 1)))
        d._delete_cb = None
    return body


def t_getitem(k):
    def body(ctx):
        d, keys, vals, cnts, log = build(ctx, k)
        key = ctx.int("key")
        r = ctx.call(BoundedDict.__getitem__, d, key)
        present = ctx.Or(*[key == x for x in keys])
        ctx.cover("ret")
        if r.raised:
            ctx.check("raise-only-missing", And(isinstance(r.exc, KeyError), Not(present)), kind="raises-post")
        else:
            ctx.check("value", ctx.Or(*[And(key == keys[i], ctx.equal(r.value, vals[i])) for i in range(k)]))
        ctx.check("invariant", inv(d))
        for i in range(k):
            # a successful read is one more use of that key and of no other
            want = Ite(And(keys[i] == key, not r.raised), cnts[i] + 1, cnts[i])
            ctx.check("use-counters", ctx.Or(*[And(ctx.equal(k2, keys[i]), ctx.equal(d._counter[k2], want)) for k2 in d._counter]))
        ctx.check("no-callback", len(log) == 0)
        ctx.check("view-unchanged", And(len(d._data) == k, *[ctx.Or(*[And(ctx.equal(k2, keys[i]), ctx.equal(d._data[k2], vals[i]))
                                                                      for k2 in d._data]) for i in range(k)]))
        r2 = ctx.call(BoundedDict.__contains__, d, key)
        ctx.check("contains", Eq(r2.value, present) if not r2.raised else False)
        r3 = ctx.call(BoundedDict.__len__, d)
        ctx.check("len", (r3.value == k) if not r3.raised else False)
        d._delete_cb = None
    return body


def t_delitem(k):
    def body(ctx):
        d, keys, vals, cnts, log = build(ctx, k)
        key = ctx.int("key")
        present = ctx.Or(*[key == x for x in keys])
        r = ctx.call(BoundedDict.__delitem__, d, key)
        ctx.cover("ret")
        if r.raised:
            ctx.check("raise-only-missing", And(isinstance(r.exc, KeyError), Not(present)), kind="raises-post")
            ctx.check("missing-key:no-callback", len(log) == 0, kind="raises-post")
            ctx.check("missing-key:unchanged", And(len(d._data) == k, d._size == k, len(d._counter) == k), kind="raises-post")
        else:
            ctx.check("was-present", present)
            ctx.check("callback-once", And(len(log) == 1, ctx.equal(log[0], key)) if len(log) == 1 else False)
            ctx.check("removed", And(len(d._data) == k - 1, *[k2 != key for k2 in d._data]))
            for i in range(k):
                ctx.check("others-kept", Implies(keys[i] != key, ctx.Or(*[And(ctx.equal(k2, keys[i]), ctx.equal(d._data[k2], vals[i]))
                                                                          for k2 in d._data])))
            ctx.check("invariant", inv(d))
        d._delete_cb = None
    return body


def t_del(k):
    def body(ctx):
        d, keys, vals, cnts, log = build(ctx, k)
        r = ctx.call(BoundedDict.__del__, d)
        ctx.cover("ret")
        if r.raised:
            ctx.check("no-raise", False, kind="no-raise")
        else:
            ctx.check("one-callback-per-held-key", And(len(log) == k, *[count_in(ctx, log, x) == 1 for x in keys]))
        d._delete_cb = None
    return body


def targets(tier):
    K = 3 if tier == "quick" else 4
    ts = [Target("C29/BoundedDict.__init__", [BoundedDict.__init__], t_init, kind="proof")]
    for k in range(0, K + 1):
        ts.append(Target("C29/BoundedDict.__setitem__/entries=%d" % k, [BoundedDict.__setitem__], t_setitem(k), kind="bounded",
                         bound="%d entries in the pre-state" % k, params={"entries": k}, max_paths=60000))
        ts.append(Target("C29/BoundedDict.__getitem__+__contains__+__len__/entries=%d" % k,
                         [BoundedDict.__getitem__, BoundedDict.__contains__, BoundedDict.__len__], t_getitem(k), kind="bounded",
                         bound="%d entries in the pre-state" % k, params={"entries": k}))
        ts.append(Target("C29/BoundedDict.__delitem__/entries=%d" % k, [BoundedDict.__delitem__], t_delitem(k), kind="bounded",
                         bound="%d entries in the pre-state" % k, params={"entries": k}))
        ts.append(Target("C29/BoundedDict.__del__/entries=%d" % k, [BoundedDict.__del__], t_del(k), kind="bounded",
                         bound="%d entries in the pre-state" % k, params={"entries": k}))
    for t in ts:
        t.expect_covers = ["ret"]
    return ts
