"""C30 -- Assembly CFG edges mirror block constraints (miasm/core/asmblock.py: AsmCFG).

The structure has no scalar content (blocks, constraints and edges over location keys), so nothing is gained by the solver: the
representation invariant stated by the property is a run-time contract on every public mutation, executed on the REAL class
over every reachable state of a small scope (bounded stand-in, labelled).  States are reached through the public API only
(breadth-first over operation histories with de-duplication of abstract states), so every failing state comes with the history
that produces it."""
import random

from miasm.core.asmblock import AsmBlock, AsmCFG, AsmConstraint
from miasm.core.graph import DiGraph
from miasm.core.locationdb import LocationDB

from harness.bounded import BoundedContract, chunked

PROPERTY = {
    "id": "C30",
    "level": "exploration",
    "engine": "bounded-contract",
    "technique": "bounded stand-in: run-time check of the representation invariant (edges <-> constraints with present "
                 "destination, labels, pendings) on the real AsmCFG after every operation of every history of a small scope",
    "explanation": "Contract on AsmCFG.add_block / del_block / add_edge / del_edge / merge / rebuild_edges: after the call the "
                   "invariant of the property holds -- (s,d) is an edge exactly when a constraint of block s targets d and block d "
                   "is present, edges2constraint carries that constraint's kind, pendings lists exactly (destination -> waiting "
                   "block, kind) for the constraints whose destination is absent, the DiGraph adjacency tables agree with the edge "
                   "list -- together with the frame: an operation changes the constraint sets of other blocks only as documented "
                   "(add_edge adds the constraint it was given, del_edge / del_block remove the constraints towards the deleted "
                   "target). An operation may refuse (raise) only if the invariant still holds afterwards. Executed on the real "
                   "class for every abstract state reachable within depth 3 (quick) / 4 (thorough) over 3 location keys and an "
                   "alphabet of ~100 operations (16 constraint-set variants per block incl. self-loops and duplicate constraints, "
                   "direct bto edits followed by rebuild_edges, merges with 9 other graphs), plus seeded random histories of "
                   "length 10. Bounded: exploration, not proof.",
    "rule": "one case = one (reachable abstract state, operation) pair, replayed from the empty graph through the public API",
    "trusted_base": ["CPython executes the real methods; the invariant is written independently in props/C30.py"],
    "assumptions": ["3 location keys; history depth <= 3 (quick) / 4 (thorough) exhaustive over abstract states + random histories",
                    "add_edge / del_edge are called between present blocks only (an edge towards a location without block cannot "
                    "satisfy the statement by construction)",
                    "duplicate constraints towards one destination carry the same kind (two kinds for one edge have no single label)"],
}

TO, NEXT = AsmConstraint.c_to, AsmConstraint.c_next
NLOC = 3


def variants(i):
    """constraint multisets for a block at location i"""
    out = [()]
    for j in range(NLOC):
        out.append(((j, TO),))
        out.append(((j, NEXT),))
    for j in range(NLOC):
        for k in range(NLOC):
            if j != k:
                out.append(((j, TO), (k, NEXT)))
    for j in range(NLOC):
        out.append(((j, TO), (j, TO)))
    return out


OTHER_GRAPHS = [
    [(0, ())], [(1, ((0, TO),))], [(2, ((2, NEXT),))], [(0, ((1, TO),)), (1, ((0, NEXT),))], [(1, ((2, TO),)), (2, ())],
    [(0, ((1, TO), (2, NEXT))), (2, ((0, TO),))], [(0, ((0, TO), (0, TO)))], [(2, ((1, NEXT),)), (1, ((1, TO),))],
    [(0, ((2, TO),)), (1, ((2, TO),)), (2, ((0, NEXT),))],
]


def alphabet():
    ops = []
    for i in range(NLOC):
        for v in variants(i):
            ops.append(("add_block", i, v))
        ops.append(("del_block", i))
        for j in range(NLOC):
            for k in (TO, NEXT):
                ops.append(("add_edge", i, j, k))
                ops.append(("edit_add+rebuild", i, j, k))
            ops.append(("del_edge", i, j))
            ops.append(("edit_del+rebuild", i, j))
            ops.append(("edit_flip+rebuild", i, j))
    ops.append(("rebuild",))
    for n in range(len(OTHER_GRAPHS)):
        ops.append(("merge", n))
    return ops


class World(object):
    def __init__(self):
        self.db = LocationDB()
        self.locs = [self.db.add_location() for _ in range(NLOC)]
        self.idx = dict((l, i) for i, l in enumerate(self.locs))
        self.g = AsmCFG(self.db)

    def mkblock(self, i, v):
        b = AsmBlock(self.db, self.locs[i])
        for (j, k) in v:
            b.addto(AsmConstraint(self.locs[j], k))
        return b

    def block(self, i):
        return self.g._loc_key_to_block.get(self.locs[i])

    # ---- abstract view ---------------------------------------------------------------------------------------
    def bto(self, b):
        return tuple(sorted((self.idx[c.loc_key], c.c_t) for c in b.bto))

    def state(self):
        g = self.g
        blocks = tuple(None if self.block(i) is None else self.bto(self.block(i)) for i in range(NLOC))
        edges = tuple(sorted((self.idx[a], self.idx[b]) for a, b in g.edges()))
        e2c = tuple(sorted(((self.idx[a], self.idx[b]), k) for (a, b), k in g.edges2constraint.items()))
        pend = tuple(sorted((self.idx[d], tuple(sorted((self.idx[p.waiter.loc_key], p.constraint) for p in ps)))
                            for d, ps in g.pendings.items()))
        nodes = tuple(sorted(self.idx[n] for n in g.nodes()))
        return (blocks, edges, e2c, pend, nodes)

    # ---- the invariant of the property -----------------------------------------------------------------------
    def invariant(self):
        g = self.g
        present = dict((i, self.block(i)) for i in range(NLOC) if self.block(i) is not None)
        for lk, b in g._loc_key_to_block.items():
            if b.loc_key != lk:
                return "block table maps %s to a block located at %s" % (lk, b.loc_key)
        if set(self.idx[n] for n in g.nodes()) != set(present):
            return "nodes %r differ from the present blocks %r" % (sorted(self.idx[n] for n in g.nodes()), sorted(present))
        if len(g) != len(present) or set(id(b) for b in g.blocks) != set(id(b) for b in present.values()):
            return "len()/blocks disagree with the block table"
        edges = [(self.idx[a], self.idx[b]) for a, b in g.edges()]
        if len(edges) != len(set(edges)):
            return "duplicate edge in %r" % (edges,)
        want = {}
        want_pend = {}
        for i, b in present.items():
            for (j, k) in self.bto(b):
                if j in present:
                    if want.get((i, j), k) != k:
                        return None     # two kinds for one edge: outside the stated scope (cannot happen with this alphabet)
                    want[(i, j)] = k
                else:
                    want_pend.setdefault(j, set()).add((i, k))
        if set(edges) != set(want):
            return "edges %r, constraints with present destination %r" % (sorted(set(edges)), sorted(want))
        e2c = dict(((self.idx[a], self.idx[b]), k) for (a, b), k in g.edges2constraint.items())
        if e2c != want:
            return "edges2constraint %r, constraint kinds %r" % (sorted(e2c.items()), sorted(want.items()))
        pend = {}
        for d, ps in g.pendings.items():
            for p in ps:
                if self.block(self.idx[p.waiter.loc_key]) is not p.waiter:
                    return "pendings[%d] names a waiter (block %d) that is not in the graph" % (self.idx[d], self.idx[p.waiter.loc_key])
                pend.setdefault(self.idx[d], set()).add((self.idx[p.waiter.loc_key], p.constraint))
            if not ps:
                pend.setdefault(self.idx[d], set())
        if pend != want_pend:
            return "pendings %r, constraints with absent destination %r" % (sorted((d, sorted(v)) for d, v in pend.items()),
                                                                              sorted((d, sorted(v)) for d, v in want_pend.items()))
        # DiGraph adjacency tables
        for i in present:
            lk = self.locs[i]
            if sorted(self.idx[x] for x in g.successors(lk)) != sorted(b for a, b in edges if a == i):
                return "successors(%d) disagree with the edge list" % i
            if sorted(self.idx[x] for x in g.predecessors(lk)) != sorted(a for a, b in edges if b == i):
                return "predecessors(%d) disagree with the edge list" % i
        return ""

    # ---- operations ------------------------------------------------------------------------------------------
    def applicable(self, op):
        k = op[0]
        if k == "add_block":
            return True
        if k == "del_block":
            return self.block(op[1]) is not None
        if k in ("add_edge", "del_edge"):
            if self.block(op[1]) is None or self.block(op[2]) is None:
                return False
            if k == "del_edge":
                return (self.locs[op[1]], self.locs[op[2]]) in self.g.edges2constraint
            kinds = set(kk for (j, kk) in self.bto(self.block(op[1])) if j == op[2])
            return not kinds or kinds == {op[3]}
        if k == "edit_add+rebuild":
            b = self.block(op[1])
            if b is None:
                return False
            kinds = set(kk for (j, kk) in self.bto(b) if j == op[2])
            return not kinds or kinds == {op[3]}
        if k in ("edit_del+rebuild", "edit_flip+rebuild"):
            b = self.block(op[1])
            return b is not None and any(j == op[2] for (j, kk) in self.bto(b))
        return True

    def apply(self, op):
        """-> (exception or None, expected-frame function)"""
        g, k = self.g, op[0]
        before = dict((i, self.bto(self.block(i))) for i in range(NLOC) if self.block(i) is not None)
        exc = None
        expect = None
        try:
            if k == "add_block":
                fresh = self.block(op[1]) is None
                b = self.mkblock(op[1], op[2])
                r = g.add_block(b)
                if r != fresh:
                    return None, "add_block returned %r for a %s location" % (r, "free" if fresh else "taken")
                expect = dict(before)
                if fresh:
                    expect[op[1]] = tuple(sorted(op[2]))
            elif k == "del_block":
                g.del_block(self.block(op[1]))
                expect = dict((i, tuple(c for c in v if c[0] != op[1])) for i, v in before.items() if i != op[1])
            elif k == "add_edge":
                g.add_edge(self.locs[op[1]], self.locs[op[2]], op[3])
                expect = dict(before)
                if not any(j == op[2] for (j, kk) in before[op[1]]):
                    expect[op[1]] = tuple(sorted(before[op[1]] + ((op[2], op[3]),)))
            elif k == "del_edge":
                g.del_edge(self.locs[op[1]], self.locs[op[2]])
                expect = dict(before)
                expect[op[1]] = tuple(c for c in before[op[1]] if c[0] != op[2])
            elif k == "edit_add+rebuild":
                self.block(op[1]).bto.add(AsmConstraint(self.locs[op[2]], op[3]))
                before[op[1]] = self.bto(self.block(op[1]))
                g.rebuild_edges()
                expect = dict(before)
            elif k == "edit_del+rebuild":
                b = self.block(op[1])
                for c in [c for c in b.bto if c.loc_key == self.locs[op[2]]][:1]:
                    b.bto.remove(c)
                before[op[1]] = self.bto(b)
                g.rebuild_edges()
                expect = dict(before)
            elif k == "edit_flip+rebuild":
                b = self.block(op[1])
                for c in [c for c in b.bto if c.loc_key == self.locs[op[2]]]:
                    c.c_t = NEXT if c.c_t == TO else TO
                before[op[1]] = self.bto(b)
                g.rebuild_edges()
                expect = dict(before)
            elif k == "rebuild":
                g.rebuild_edges()
                expect = dict(before)
            elif k == "merge":
                other = AsmCFG(self.db)
                for (i, v) in OTHER_GRAPHS[op[1]]:
                    other.add_block(self.mkblock(i, v))
                ostate = (sorted(other.edges()), dict(other.edges2constraint))
                g.merge(other)
                if (sorted(other.edges()), dict(other.edges2constraint)) != ostate:
                    return None, "merge modified its argument"
                expect = None       # blocks of `other` join; the invariant below is the contract
                for (i, v) in OTHER_GRAPHS[op[1]]:
                    if self.block(i) is None:
                        return None, "merge did not add block %d" % i
        except Exception as e:      # noqa -- a refusal; acceptable only if the invariant still holds
            exc = e
            expect = None
        if expect is not None:
            after = dict((i, self.bto(self.block(i))) for i in range(NLOC) if self.block(i) is not None)
            if after != expect:
                return exc, "constraint sets after the call %r, expected %r" % (after, expect)
        return exc, ""


def run_history(hist):
    """-> (world, failure or '')"""
    w = World()
    for n, op in enumerate(hist):
        if not w.applicable(op):
            return w, None
        exc, why = w.apply(op)
        if not why:
            why = w.invariant()
            if why is None:
                return w, None
        if why:
            return w, "after %s%s: %s" % (" ; ".join(map(show_op, hist[:n + 1])),
                                          " (which raised %s)" % type(exc).__name__ if exc is not None else "", why)
    return w, ""


def show_op(op):
    if op[0] == "add_block":
        return "add_block(B%d%s)" % (op[1], "".join(" %s:%d" % (k[2:], j) for j, k in op[2]))
    if op[0] == "merge":
        return "merge(%s)" % ",".join("B%d%s" % (i, "".join(" %s:%d" % (k[2:], j) for j, k in v)) for i, v in OTHER_GRAPHS[op[1]])
    return "%s(%s)" % (op[0], ",".join(str(x)[2:] if isinstance(x, str) else str(x) for x in op[1:]))


class CfgHistories(BoundedContract):
    BOUND = "3 location keys; every abstract state reachable within depth 3 (quick) / 4 (thorough) x every operation, + random " \
            "histories of length 10"
    CASE_SECONDS = 10

    def funcs(self):
        return [AsmCFG.add_block, AsmCFG.del_block, AsmCFG.add_edge, AsmCFG.del_edge, AsmCFG.merge, AsmCFG.rebuild_edges,
                AsmCFG.add_node, AsmCFG.loc_key_to_block, DiGraph.add_node, DiGraph.del_node, DiGraph.add_edge, DiGraph.del_edge]

    def cases(self):
        """histories: BFS over abstract states (one representative history per state), each extended by every operation"""
        ops = alphabet()
        depth = 3 if self.tier == "quick" else 4
        # the first operation partitions the search between the chunks (each chunk de-duplicates on its own)
        firsts = [op for n, op in enumerate(ops) if op[0] == "add_block" and n % self.nchunks == self.chunk]
        seen = {}
        frontier = []
        out = []
        for op in firsts:
            out.append((op,))
            w, why = run_history((op,))
            if why == "" and w.state() not in seen:
                seen[w.state()] = (op,)
                frontier.append((op,))
        for d in range(1, depth):
            new = []
            for h in frontier:
                for op in ops:
                    h2 = h + (op,)
                    w, why = run_history(h2)
                    if why is None:
                        continue
                    out.append(h2)
                    if why == "" and d < depth - 1:
                        s = w.state()
                        if s not in seen:
                            seen[s] = h2
                            new.append(h2)
            frontier = new
        rng = random.Random(3030 + self.chunk)
        for _ in range(600 if self.tier == "quick" else 6000):
            out.append(tuple(rng.choice(ops) for _ in range(10)))
        return out

    def my_cases(self):
        return list(enumerate(self.cases()))

    def show(self, case):
        return " ; ".join(map(show_op, case))

    def check(self, case):
        w = World()
        n_applied = 0
        for n, op in enumerate(case):
            if not w.applicable(op):
                continue
            n_applied += 1
            exc, why = w.apply(op)
            if not why:
                why = w.invariant()
                if why is None:
                    break
            if why:
                return (False, "after %s%s: %s" % (" ; ".join(map(show_op, case[:n + 1])),
                                                   " (which raised %s)" % type(exc).__name__ if exc is not None else "", why), True)
        return (True, "", n_applied > 1)

    def replay_custom(self, rp):
        # the case index is chunk-local: replay from the recorded history text is not possible, so re-run the chunk's case
        i = int(rp["model"]["index"])
        cs = self.cases()
        r = self.check(cs[i]) if i < len(cs) else (False, "case index out of range")
        return {"status": "passes" if r[0] else "fails", "detail": r[1], "failed": []}


def targets(tier):
    return chunked(CfgHistories, "C30/AsmCFG-histories", 16, tier)
