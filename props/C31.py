"""C31 -- recursive disassembly yields a well-formed control-flow graph (core/asmblock.py: disasmEngine, AsmBlock.split,
_merge_blocks).

A work-list over every architecture's table-driven decoder: outside the Python subset of pyvc.  Bounded stand-in, labelled: the
contract of disasmEngine.dis_multiblock (+ apply_splitting) and of bbl_simplifier is executed on the REAL classes for every buffer
of a seeded family (assembled structured programs, the same with corrupted bytes, random bytes; x86-32, ARM, MIPS32), every start
address and option combination of the family, against single-instruction decodings made independently at every offset."""
import random

from miasm.analysis.machine import Machine
from miasm.core import asmblock, parse_asm
from miasm.core.asmblock import AsmBlockBad, AsmConstraint, bbl_simplifier, disasmEngine
from miasm.core.bin_stream import bin_stream_str
from miasm.core.interval import interval
from miasm.core.locationdb import LocationDB

from harness.bounded import BoundedContract, chunked
from props import C32

PROPERTY = {
    "id": "C31",
    "level": "exploration",
    "engine": "bounded-contract",
    "technique": "bounded stand-in: run-time contract check of the real disasmEngine / AsmBlock.split / bbl_simplifier over a seeded "
                 "family of byte buffers, start addresses and engine options, against independent single-instruction decodings",
    "explanation": "For every buffer (structured programs assembled from C32's generator, the same with 1..4 corrupted bytes, random "
                   "bytes, meshes of short runs whose branches land on arbitrary instruction boundaries of each other), start offset and option set (dont_dis, split_dis, lines_wd, blocs_wd, follow_call, dontdis_retcall) on "
                   "x86-32, ARM and MIPS32: every block's instructions are consecutive and each has the bytes and length of the "
                   "single-instruction decoding at its offset; no instruction offset belongs to two blocks; a branch destination "
                   "that is an instruction boundary of the result starts a block; the c_to constraints of a block are exactly "
                   "the decoded destinations of its last flow instruction (calls only with follow_call) and its c_next constraint "
                   "is exactly the fall-through the instruction / the engine rules give (none only at a length cut); no good "
                   "block holds an instruction at a forbidden address, exceeds lines_wd, or crosses a forced split; the number of "
                   "disassembled blocks honours blocs_wd; the graph's edges mirror the constraints. After bbl_simplifier (no delay "
                   "slot architectures) the sequences of the first 20 non-jump instruction offsets along every path from every "
                   "remaining block are the same as before. Bounded: exploration, not proof.",
    "rule": "one case = one buffer, one start offset, one option set",
    "trusted_base": ["CPython executes the real classes; the per-instruction decoder (cpu.py tables) is used as the reference for a "
                     "single instruction (its own correctness is C15 / C17, not applicable); the generator and the comparisons are "
                     "written independently in props/C31.py"],
    "assumptions": ["seeded family of props/C31.py (600 quick / 4000 thorough cases)", "delay-slot architectures (MIPS32): the "
                    "successor rule is checked for blocks whose flow instruction is followed by its delay slot inside the block; "
                    "bbl_simplifier is not run there (it raises NotImplemented by design)"],
}

ARCH_ATTR = {"x86_32": 32, "arml": "l", "mips32l": "l"}


def mesh_buffer(rng, arch):
    """short runs of one-unit instructions tied by branches to arbitrary instruction boundaries of the buffer: blocks that jump
    into the middle of each other (several splits of the same blocks, in either order)"""
    n = rng.randint(6, 16)
    kinds = [rng.choice(("nop", "nop", "nop", "jcc", "jmp")) for _ in range(n)]
    kinds[-1] = "jmp"
    if arch == "x86_32":
        sizes = [1 if k == "nop" else 2 for k in kinds]
    else:
        sizes = [4] * n
    offs = [sum(sizes[:i]) for i in range(n)]
    buf = bytearray()
    for i, k in enumerate(kinds):
        tgt = offs[rng.randrange(n)]
        if arch == "x86_32":
            if k == "nop":
                buf += bytes([rng.choice((0x90, 0x40, 0x43))])
            else:
                rel = (tgt - (offs[i] + 2)) & 0xFF
                buf += bytes([0xEB if k == "jmp" else rng.choice((0x74, 0x75)), rel])
        else:
            if k == "nop":
                buf += (0xE1A00000 | rng.randrange(4)).to_bytes(4, "little")
            else:
                imm = ((tgt - (offs[i] + 8)) >> 2) & 0xFFFFFF
                cond = 0xE if k == "jmp" else rng.choice((0x0, 0x1))
                buf += ((cond << 28) | (0xA << 24) | imm).to_bytes(4, "little")
    return bytes(buf), offs


def make_buffer(rng, arch):
    """-> (bytes, base, start, kind)"""
    kind = rng.choice(("code", "code", "code", "corrupt", "random", "mesh", "mesh"))
    if kind == "mesh" and arch in ("x86_32", "arml"):
        base = rng.choice((0, 0x1000, 0x400000))
        data, offs = mesh_buffer(rng, arch)
        return data, base, base + rng.choice(offs), kind
    if kind == "mesh":
        kind = "code"
    if kind == "random":
        n = rng.randint(8, 96)
        if arch != "x86_32":
            n -= n % 4
        return bytes(rng.getrandbits(8) for _ in range(max(n, 4))), 0x1000, 0x1000 + (rng.randrange(0, 8) if arch == "x86_32" else 0), kind
    text, labels = C32.gen(rng, arch)
    mn = Machine(arch).mn
    loc_db = LocationDB()
    asmcfg = parse_asm.parse_txt(mn, ARCH_ATTR[arch], text, loc_db)
    base = rng.choice((0x1000, 0x400000))
    loc_db.set_location_offset(loc_db.get_name_location("L0"), base)
    patches = asmblock.asm_resolve_final(mn, asmcfg, interval([(base, base + 0x2000)]))
    hi = max(o + len(d) for o, d in patches.items())
    buf = bytearray(hi - base)
    for o, d in patches.items():
        buf[o - base:o - base + len(d)] = d
    if kind == "corrupt":
        for _ in range(rng.randint(1, 4)):
            buf[rng.randrange(len(buf))] = rng.getrandbits(8)
    starts = [loc_db.get_location_offset(loc_db.get_name_location(l)) for l in labels]
    return bytes(buf), base, rng.choice(starts + [base]), kind


def gen_options(rng, base, size, arch):
    step = 1 if arch == "x86_32" else 4
    opts = {}
    if rng.random() < 0.35:
        opts["dont_dis"] = sorted(set(base + step * rng.randrange(0, max(size // step, 1)) for _ in range(rng.randint(1, 3))))
    if rng.random() < 0.35:
        opts["split_dis"] = sorted(set(base + step * rng.randrange(0, max(size // step, 1)) for _ in range(rng.randint(1, 4))))
    if rng.random() < 0.3:
        opts["lines_wd"] = rng.choice((1, 2, 3, 5))
    if rng.random() < 0.2:
        opts["blocs_wd"] = rng.choice((1, 2, 4))
    if rng.random() < 0.4:
        opts["follow_call"] = True
    if rng.random() < 0.3:
        opts["dontdis_retcall"] = True
    return opts


def decode(mn, attrib, data, base, off):
    try:
        return mn.dis(bin_stream_str(data, base_address=base), attrib, off)
    except Exception:       # noqa
        return None


def dests(instr):
    """offsets of the decoded integer destinations"""
    tmp = LocationDB()
    instr.dstflow2label(tmp)
    out = set()
    for d in instr.getdstflow(tmp):
        if d.is_loc():
            o = tmp.get_location_offset(d.loc_key)
            if o is not None:
                out.add(o)
    return out


def paths(graph, head, limit=20, cap=3000):
    """set of the sequences of the first `limit` non-jump instruction offsets along every path from head (None: too many)"""
    out = set()
    todo = [(head, ())]
    steps = 0
    while todo:
        steps += 1
        if steps > cap:
            return None
        lk, seq = todo.pop()
        blk = graph.loc_key_to_block(lk)
        if blk is None or isinstance(blk, AsmBlockBad):
            out.add(seq + ("stop",))
            continue
        seq2 = seq + tuple(l.offset for l in blk.lines if not (l.breakflow() and l.dstflow() and not l.is_subcall()))
        if len(seq2) >= limit:
            out.add(seq2[:limit])
            continue
        succ = list(graph.successors(lk))
        if not succ:
            out.add(seq2 + ("stop",))
            continue
        for s in succ:
            todo.append((s, seq2))
    return out


def check_case(rng, arch):
    mn = Machine(arch).mn
    attrib = ARCH_ATTR[arch]
    try:
        data, base, start, kind = make_buffer(rng, arch)
    except Exception as ex:     # noqa
        return "harness: the buffer cannot be built (%s: %s)" % (type(ex).__name__, str(ex)[:100]), ""
    opts = gen_options(rng, base, len(data), arch)
    what = "%s %s buffer %s at %#x, start %#x, options %s" % (arch, kind, data.hex()[:160], base, start, opts)
    loc_db = LocationDB()
    mdis = disasmEngine(mn, attrib, bin_stream_str(data, base_address=base), loc_db, **opts)
    try:
        g = mdis.dis_multiblock(start)
    except Exception as ex:     # noqa
        import traceback
        tb = traceback.extract_tb(ex.__traceback__)[-1]
        return "dis_multiblock raises %s: %s (%s:%d)" % (type(ex).__name__, str(ex)[:120], tb.filename.split("/")[-1], tb.lineno), what
    dont = set(opts.get("dont_dis", ()))
    split = set(opts.get("split_dis", ()))
    lines_wd = opts.get("lines_wd")
    follow_call = opts.get("follow_call", False)
    retcall = opts.get("dontdis_retcall", False)
    off_of = loc_db.get_location_offset
    owner = {}
    good = [b for b in g.blocks if not isinstance(b, AsmBlockBad)]
    for b in good:
        if not b.lines:
            return "block %#x has no instruction and is not a bad block" % off_of(b.loc_key), what
        if b.lines[0].offset != off_of(b.loc_key):
            return "block %#x starts with the instruction at %#x" % (off_of(b.loc_key), b.lines[0].offset), what
        for i, l in enumerate(b.lines):
            ref = decode(mn, attrib, data, base, l.offset)
            if ref is None or ref.b != l.b or ref.l != l.l or ref.name != l.name:
                return "block %#x holds `%s` (%s) at %#x, the single decoding there is `%s` (%s)" % (
                    off_of(b.loc_key), l, l.b.hex(), l.offset, ref, ref.b.hex() if ref is not None else None), what
            if i + 1 < len(b.lines) and b.lines[i + 1].offset != l.offset + l.l:
                return "block %#x: `%s` at %#x (length %d) is followed by the instruction at %#x" % (
                    off_of(b.loc_key), l, l.offset, l.l, b.lines[i + 1].offset), what
            if l.offset in owner:
                return "the instruction at %#x belongs to the blocks %#x and %#x" % (l.offset, owner[l.offset], off_of(b.loc_key)), what
            owner[l.offset] = off_of(b.loc_key)
            if l.offset in dont:
                return "block %#x holds the instruction at the forbidden address %#x" % (off_of(b.loc_key), l.offset), what
            if i > 0 and l.offset in split:
                return "block %#x runs across the forced split at %#x" % (off_of(b.loc_key), l.offset), what
        if lines_wd is not None and len(b.lines) > lines_wd + (mn.delayslot if arch == "mips32l" else 0):
            return "block %#x has %d instructions, lines_wd is %d" % (off_of(b.loc_key), len(b.lines), lines_wd), what
    starts = set(off_of(b.loc_key) for b in g.blocks)
    for b in good:
        for c in b.bto:
            o = off_of(c.loc_key)
            if c.c_t == AsmConstraint.c_to and o in owner and o not in starts:
                return "the destination %#x of block %#x is an instruction boundary inside block %#x and does not start a block" % (
                    o, off_of(b.loc_key), owner[o]), what
    # successors
    for b in good:
        k = None
        for i, l in enumerate(b.lines):
            if l.breakflow():
                k = i
                break
        to = set(off_of(c.loc_key) for c in b.bto if c.c_t == AsmConstraint.c_to)
        nx = set(off_of(c.loc_key) for c in b.bto if c.c_t == AsmConstraint.c_next)
        last = b.lines[-1]
        end = last.offset + last.l
        if k is not None:
            flow = decode(mn, attrib, data, base, b.lines[k].offset)
            if len(b.lines) - 1 - k != (flow.delayslot if arch == "mips32l" else 0):
                if arch == "mips32l":
                    continue        # delay slot cut short (flow instruction inside the slot, end of buffer): not judged
                return "block %#x continues after its flow instruction `%s` at %#x" % (off_of(b.loc_key), flow, flow.offset), what
            exp_to = dests(flow) if flow.dstflow() and (not flow.is_subcall() or follow_call) else set()
            exp_nx = {end} if flow.splitflow() and not (flow.is_subcall() and retcall) else set()
            # a destination that is also the fall-through is kept once, as the fall-through (fix_constraints)
            if not (exp_to - exp_nx <= to <= exp_to) or nx != exp_nx:
                return "block %#x ends with `%s` at %#x: its constraints are to %s next %s, the decoded flow gives to %s next %s" % (
                    off_of(b.loc_key), flow, flow.offset, sorted(hex(x) for x in to), sorted(hex(x) for x in nx),
                    sorted(hex(x) for x in exp_to), sorted(hex(x) for x in exp_nx)), what
        else:
            # a length cut leaves no constraint; a later split may have cut the block again: count the instructions of the run of
            # blocks that fall through into this one without a flow instruction
            run = len(b.lines)
            cur = b
            while lines_wd is not None and run < lines_wd:
                prev = [p for p in good if not any(l.breakflow() for l in p.lines) and
                        any(c.c_t == AsmConstraint.c_next and c.loc_key == cur.loc_key for c in p.bto) and
                        p.lines[-1].offset + p.lines[-1].l == cur.lines[0].offset]
                if len(prev) != 1:
                    break
                cur = prev[0]
                run += len(cur.lines)
            cut = lines_wd is not None and run >= lines_wd
            if to or not (nx == {end} or (cut and not nx)):
                return "block %#x ends without a flow instruction at %#x: its constraints are to %s next %s, expected the fall-through %#x%s" % (
                    off_of(b.loc_key), end, sorted(hex(x) for x in to), sorted(hex(x) for x in nx), end, " (or none: length cut)" if cut else ""), what
    # edges mirror the constraints whose destination is a block of the graph
    for b in g.blocks:
        want = set(c.loc_key for c in b.bto if g.loc_key_to_block(c.loc_key) is not None)
        got = set(g.successors(b.loc_key))
        if want != got:
            return "block %#x: the edges go to %s, the constraints with a block to %s" % (
                off_of(b.loc_key), sorted(hex(off_of(x)) for x in got), sorted(hex(off_of(x)) for x in want)), what
    if "blocs_wd" in opts:
        # every block comes from one turn of the work list (at most blocs_wd turns) or is the tail of a split: a block reached by
        # the fall-through of a block that ends without a flow instruction
        tails = set()
        for b in good:
            if not any(l.breakflow() for l in b.lines):
                for c in b.bto:
                    if c.c_t == AsmConstraint.c_next:
                        tails.add(off_of(c.loc_key))
        n = sum(1 for b in g.blocks if off_of(b.loc_key) not in tails)
        if n > opts["blocs_wd"]:
            return "%d blocks were disassembled (split tails not counted), blocs_wd is %d" % (n, opts["blocs_wd"]), what
    # merging
    if arch != "mips32l":
        import copy
        g0 = g.copy()
        blocks0 = dict((b.loc_key, list(b.lines)) for b in g.blocks)
        try:
            g2 = bbl_simplifier.apply_simp(g)
        except Exception as ex:     # noqa
            return "bbl_simplifier raises %s: %s" % (type(ex).__name__, str(ex)[:120]), what

        class Before(object):
            """the graph as it was (merging edits the blocks in place)"""
            loc_db = g0.loc_db

            @staticmethod
            def loc_key_to_block(lk):
                b = g0.loc_key_to_block(lk)
                if b is None or isinstance(b, AsmBlockBad):
                    return b
                fake = copy.copy(b)
                fake.lines = blocks0[lk]
                return fake

            @staticmethod
            def successors(lk):
                return g0.successors(lk)

        for b2 in g2.blocks:
            after = paths(g2, b2.loc_key)
            before = paths(Before, b2.loc_key)
            if after is None or before is None:
                continue
            if before != after:
                d = sorted(before ^ after, key=lambda x: (len(x), str(x)))[0]
                return "merging changes the instruction sequences of the paths from %#x: e.g. %s is a path %s merging only" % (
                    off_of(b2.loc_key), [hex(x) if isinstance(x, int) else x for x in d][:30], "before" if d in before else "after"), what
    return "", what


class DisCases(BoundedContract):
    BOUND = "seeded family of buffers, start offsets and engine options (props/C31.py)"
    CASE_SECONDS = 60

    def funcs(self):
        return [disasmEngine._dis_block, disasmEngine.dis_multiblock, disasmEngine.apply_splitting, asmblock.AsmBlock.split,
                asmblock.AsmBlock.fix_constraints, asmblock._merge_blocks]

    def cases(self):
        return list(range(600 if self.tier == "quick" else 4000))

    def arch(self, case):
        return ("x86_32", "x86_32", "arml", "mips32l")[case % 4]

    def show(self, case):
        why, what = check_case(random.Random(3100 + case), self.arch(case))
        return "case #%d: %s" % (case, what)

    def check(self, case):
        why, what = check_case(random.Random(3100 + case), self.arch(case))
        return (why == "", why, True)


def targets(tier):
    return chunked(DisCases, "C31/disasm-cfg", 16, tier)

