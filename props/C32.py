"""C32 -- the assembler lays out programs at their pinned addresses (core/asmblock.py, core/parse_asm.py).

A layout fix-point over encodings produced by the table-driven assembler: outside the Python subset of pyvc.  Bounded stand-in,
labelled: the contract of parse_txt + asm_resolve_final -- every pinned label at its address, patches disjoint and inside the
destination interval, fall-through chains contiguous, every patch decoding to the program's instruction with every label reference
resolved to the label's FINAL address (data directives included) -- is executed on the REAL functions for every program of a seeded
family of assembly texts with random pins (at any position of a fall-through chain) and destination intervals; the patches are
decoded again with the real disassembler and compared with the source instructions."""
import random

from miasm.analysis.machine import Machine
from miasm.core import asmblock, parse_asm
from miasm.core.bin_stream import bin_stream_str
from miasm.core.interval import interval
from miasm.core.locationdb import LocationDB
from miasm.expression.expression import ExprInt, ExprLoc
from miasm.expression.simplifications import expr_simp

from harness.bounded import BoundedContract, chunked

PROPERTY = {
    "id": "C32",
    "level": "exploration",
    "engine": "bounded-contract",
    "technique": "bounded stand-in: run-time contract check of the real parse_txt / asm_resolve_final over a seeded family of assembly "
                 "programs with random pinned labels and destination intervals; the produced patches are decoded with the real "
                 "disassembler and compared with the source",
    "explanation": "For every generated program (x86-32, ARM, MIPS32, MSP430: 3..9 labelled blocks of register / immediate / memory "
                   "instructions, label references in immediates, memory operands, branches, calls and data directives; "
                   "fall-through chains broken by unconditional branches and returns) with at most one pinned label per "
                   "fall-through chain, at any position of the chain, pins 0x1000 apart inside a destination interval that leaves "
                   "room for every unpinned chain: asm_resolve_final succeeds; every label has an offset and every pinned label "
                   "keeps its pinned one; the patches are pairwise disjoint and inside the destination interval; consecutive "
                   "blocks of a fall-through chain are contiguous; decoding the image at every instruction's offset gives an "
                   "instruction of the same name and length whose arguments equal the source arguments with every label replaced "
                   "by its final address (relative for branch destinations); every data directive holds the final value of its "
                   "expression. Bounded: exploration, not proof.",
    "rule": "one case = one generated program with one choice of pins and destination interval; plus, shape-bounded SYMBOLIC (pyvc + "
            "z3): BlockChain.fix_blocks on chains of 2..4 blocks with every pinned position keeps the pinned offset and makes the "
            "blocks contiguous, for all block sizes and pinned addresses",
    "trusted_base": ["CPython executes the real functions; the per-instruction encoder / decoder (cpu.py tables) are used as they "
                     "are: an encoding error that decodes back to the same instruction is not seen here (C15 is not applicable)",
                     "the generator, the layout checks and the comparison are written independently in props/C32.py"],
    "assumptions": ["seeded family of props/C32.py (600 quick / 4000 thorough programs)", "alignment 1 everywhere (no .align); data directives of 4 bytes only on ARM / MIPS (code stays aligned)", "MSP430: one pin and a 1 KiB destination, so that every jump is within the reach of its 10-bit offset",
                    "addresses above 0x10000 (below, the x86 assembler may choose 16-bit addressing forms that decode to a "
                    "different but equivalent operand)"],
}

ARCHS = {
    "x86_32": {
        "body": ["MOV EAX, EBX", "MOV ECX, 0x11223344", "ADD EAX, 0x10", "XOR EDX, EDX", "PUSH EAX", "POP EBX", "INC ECX", "CMP EAX, EBX",
                 "NOP", "LEA EAX, DWORD PTR [EBX + 0x4]", "MOV EAX, DWORD PTR [ESP + 0x8]", "SUB ESI, 0x1234"],
        "ref": ["MOV EAX, %s", "MOV EDX, DWORD PTR [%s]", "PUSH %s", "MOV DWORD PTR [%s], ECX", "CMP EBX, %s"],
        "jmp": "JMP %s", "cond": ["JZ %s", "JNZ %s", "JB %s"], "call": "CALL %s", "ret": "RET",
        "data": [".long", ".byte", ".word"], "ptr": ".long",
    },
    "arml": {
        "body": ["MOV R0, R1", "ADD R2, R2, 0x10", "EOR R3, R3, R4", "LDR R0, [SP, 0x8]", "STR R1, [R2, 0x4]", "CMP R0, R1", "SUB R5, R6, R7",
                 "MOV R7, 0xFF"],
        "ref": [],
        "jmp": "B %s", "cond": ["BEQ %s", "BNE %s", "BCC %s"], "call": "BL %s", "ret": "BX LR",
        "data": [".long"], "ptr": ".long",
    },
    "mips32l": {
        "body": ["ADDIU A0, A1, 0x10", "ADDU V0, A0, A1", "LW T0, 0x8(SP)", "SW T1, 0x4(A0)", "ORI A2, ZERO, 0x1234", "XOR T2, T3, T4", "NOP"],
        "ref": [],
        "jmp": "J %s\n    NOP", "cond": ["BEQ A0, A1, %s\n    NOP", "BNE V0, ZERO, %s\n    NOP"], "call": "JAL %s\n    NOP", "ret": "JR RA\n    NOP",
        "data": [".long"], "ptr": ".long",
    },
    "msp430": {
        "body": ["mov.w R4, R5", "add.w 0x10, R6", "xor.w R7, R8", "mov.w 0x2(R9), R10", "cmp.w R4, R5", "sub.w R15, R11", "mov.w 0x1234, R12",
                 "push.w R11"],
        "ref": ["mov.w %s, R4"],
        "jmp": "jmp %s", "cond": ["jz %s", "jnz %s"], "call": "call %s", "ret": "mov.w @SP+, PC",
        "data": [".word"], "ptr": ".word",
    },
}
QUICK_ARCHS = ["x86_32", "x86_32", "arml", "mips32l", "msp430"]


def gen(rng, arch):
    a = ARCHS[arch]
    n = rng.randint(3, 9)
    labels = ["L%d" % i for i in range(n)]
    code = [i for i in range(n)]
    ndata = rng.choice((0, 1, 1, 2))
    data = set(rng.sample(range(1, n), min(ndata, n - 1)))
    lines = []
    for i in range(n):
        lines.append("%s:" % labels[i])
        if i in data:
            for _ in range(rng.randint(1, 3)):
                d = rng.choice(a["data"])
                if rng.random() < 0.5:
                    lines.append("%s %s" % (a["ptr"], rng.choice(labels)))
                elif d == ".byte":
                    lines.append(".byte %s" % ", ".join(hex(rng.getrandbits(8)) for _ in range(rng.randint(1, 5))))
                elif d == ".word":
                    lines.append(".word %s" % hex(rng.getrandbits(16)))
                else:
                    lines.append(".long %s" % hex(rng.getrandbits(32)))
            continue
        targets = [labels[j] for j in range(n) if j not in data]
        for _ in range(rng.randint(1, 5)):
            if a["ref"] and rng.random() < 0.25:
                lines.append("    " + rng.choice(a["ref"]) % rng.choice(labels))
            else:
                lines.append("    " + rng.choice(a["body"]))
        k = rng.random()
        nxt_is_data = (i + 1) in data or i + 1 == n
        if k < 0.25 or (nxt_is_data and k < 0.6):
            lines.append("    " + a["jmp"] % rng.choice(targets))
        elif k < 0.45 and not nxt_is_data:
            lines.append("    " + rng.choice(a["cond"]) % rng.choice(targets))
        elif k < 0.6 and not nxt_is_data:
            lines.append("    " + a["call"] % rng.choice(targets))
        elif k < 0.8 or nxt_is_data:
            lines.append("    " + a["ret"])
    return "\n".join(lines) + "\n", labels


def chains_of(asmcfg):
    """fall-through chains as the constraint graph of the parsed program gives them: lists of blocks"""
    nxt = {}
    has_pred = set()
    for b in asmcfg.blocks:
        n = b.get_next()
        if n is not None and asmcfg.loc_key_to_block(n) is not None:
            nxt[b.loc_key] = n
            has_pred.add(n)
    out = []
    for b in asmcfg.blocks:
        if b.loc_key in has_pred:
            continue
        chain = [b]
        seen = {b.loc_key}
        while chain[-1].loc_key in nxt and nxt[chain[-1].loc_key] not in seen:
            nb = asmcfg.loc_key_to_block(nxt[chain[-1].loc_key])
            chain.append(nb)
            seen.add(nb.loc_key)
        out.append(chain)
    return out


def check_program(arch, text, labels, rng):
    machine = Machine(arch)
    mn = machine.mn
    attrib = {"x86_32": 32, "arml": "l", "mips32l": "l", "msp430": None}[arch]
    loc_db = LocationDB()
    try:
        asmcfg = parse_asm.parse_txt(mn, attrib, text, loc_db)
    except Exception as ex:     # noqa
        return "harness: parse_txt refuses the generated program (%s: %s)" % (type(ex).__name__, str(ex)[:120])
    chains = chains_of(asmcfg)
    covered = set(b.loc_key for c in chains for b in c)
    if covered != set(b.loc_key for b in asmcfg.blocks):
        return "harness: the fall-through chains do not cover the blocks (a cycle of fall-throughs)"
    # pins: at most one per chain, at any position; the first chain is always pinned (a program with no pin at all is placed too)
    pins = {}
    slot = 0
    base = rng.choice((0x10000, 0x400000, 0x80000000)) if arch != "msp430" else 0x4000
    order = list(range(len(chains)))
    rng.shuffle(order)
    for ci in order:
        if arch == "msp430" and pins:
            break           # one pin: the whole program stays within the reach of the 10-bit jump offsets (+-1 KiB)
        if rng.random() < 0.6 or not pins:
            b = rng.choice(chains[ci])
            pins[b.loc_key] = (base + 0x1000 * (slot + 1) + rng.choice((0, 0, 4, 0x10, 0x7F0))) if arch != "msp430" else base + rng.choice((0x100, 0x180, 0x204))
            slot += 1
    lo, hi = base, base + (0x1000 * (slot + 4) if arch != "msp430" else 0x3FF)
    for lk, off in pins.items():
        loc_db.set_location_offset(lk, off)
    dst = interval([(lo, hi)])
    name = loc_db.pretty_str
    what = "pins {%s}, destination [%#x, %#x]" % (", ".join("%s: %#x" % (name(k), v) for k, v in sorted(pins.items(), key=lambda x: x[1])), lo, hi)
    try:
        patches = asmblock.asm_resolve_final(mn, asmcfg, dst)
    except Exception as ex:     # noqa
        return "asm_resolve_final raises %s: %s (%s)" % (type(ex).__name__, str(ex)[:160], what)
    # 1. offsets
    for b in asmcfg.blocks:
        off = loc_db.get_location_offset(b.loc_key)
        if off is None:
            return "block %s has no offset after the layout (%s)" % (name(b.loc_key), what)
        if b.loc_key in pins and off != pins[b.loc_key]:
            return "the pinned label %s is at %#x, not at %#x (%s)" % (name(b.loc_key), off, pins[b.loc_key], what)
    # 2. patches: disjoint, inside the destination
    img = {}
    for off, data in patches.items():
        for i, byte in enumerate(bytearray(data)):
            a = off + i
            if not lo <= a <= hi:
                return "the patch at %#x leaves the destination interval (%s)" % (off, what)
            if a in img:
                return "two patches overlap at %#x (%s)" % (a, what)
            img[a] = byte
    # 3. chains contiguous
    for chain in chains:
        for b1, b2 in zip(chain, chain[1:]):
            end = loc_db.get_location_offset(b1.loc_key) + sum(l.l for l in b1.lines)
            if loc_db.get_location_offset(b2.loc_key) != end:
                return "%s falls through to %s, which is at %#x while %s ends at %#x (%s)" % (
                    name(b1.loc_key), name(b2.loc_key), loc_db.get_location_offset(b2.loc_key), name(b1.loc_key), end, what)
    # 4. decoding
    def resolve(e):
        return e.visit(lambda x: ExprInt(loc_db.get_location_offset(x.loc_key), x.size) if x.is_loc() else x)

    for b in asmcfg.blocks:
        off = loc_db.get_location_offset(b.loc_key)
        for ins in b.lines:
            if isinstance(ins, asmblock.AsmRaw):
                if isinstance(ins.raw, list):
                    want = b""
                    for e in ins.raw:
                        v = asmblock.fix_expr_val(e, loc_db)
                        want += int(v).to_bytes(v.size // 8, "little" if arch != "mips32b" else "big")
                else:
                    want = bytes(ins.raw)
                got = bytes(bytearray(img.get(off + i, -1) & 0xFF if (off + i) in img else 0 for i in range(len(want))))
                if any((off + i) not in img for i in range(len(want))) or got != want:
                    return "the data directive %s of %s at %#x holds %s, its final value is %s (%s)" % (
                        ins.raw if isinstance(ins.raw, list) else "<raw>", name(b.loc_key), off, got.hex(), want.hex(), what)
                off += len(want)
                continue
            window = bytes(bytearray(img.get(off + i, 0) for i in range(max(ins.l, 16))))
            try:
                dec = mn.dis(bin_stream_str(window, base_address=off), attrib, off)
            except Exception as ex:     # noqa
                return "the bytes at %#x (%s) do not decode: %s (%s)" % (off, ins, str(ex)[:80], what)
            exp_args = [resolve(x) for x in ins.args]
            dec_args = list(dec.args)
            if ins.dstflow():
                # the destination is read back the way the DISASSEMBLER understands the encoding (dstflow2label on a scratch
                # location database), not the way the assembler produced it
                tmp_db = LocationDB()
                try:
                    dec.dstflow2label(tmp_db)
                except Exception as ex:     # noqa
                    return "the destination of the bytes at %#x (%s) cannot be read back: %s (%s)" % (off, ins, str(ex)[:80], what)
                dec_args = [ExprInt(tmp_db.get_location_offset(x.loc_key), x.size) if x.is_loc() else x for x in dec.args]
            if dec.name != ins.name or dec.l != ins.l or [expr_simp(x) for x in dec_args] != [expr_simp(x) for x in exp_args]:
                return "the bytes at %#x decode to `%s` %s (length %d); the program has `%s` there, %s with the final addresses (length %d) (%s)" % (
                    off, dec, [str(x) for x in dec_args], dec.l, ins, [str(x) for x in exp_args], ins.l, what)
            off += ins.l
    return ""


class AsmCases(BoundedContract):
    BOUND = "seeded family of assembly programs (props/C32.py) with random pins and destination intervals"
    CASE_SECONDS = 60

    def funcs(self):
        return [asmblock.asm_resolve_final, asmblock.group_constrained_blocks, asmblock.resolve_symbol, asmblock.asmblock_final,
                asmblock.assemble_block, asmblock.BlockChain.place, asmblock.BlockChain.fix_blocks, asmblock.get_block_loc_keys,
                asmblock.fix_expr_val, parse_asm.parse_txt]

    def cases(self):
        return list(range(600 if self.tier == "quick" else 4000))

    def gen(self, case):
        rng = random.Random(3200 + case)
        arch = QUICK_ARCHS[case % len(QUICK_ARCHS)]
        text, labels = gen(rng, arch)
        return rng, arch, text, labels

    def show(self, case):
        rng, arch, text, labels = self.gen(case)
        return "program #%d (%s): %s" % (case, arch, " | ".join(l.strip() for l in text.splitlines()))

    def check(self, case):
        rng, arch, text, labels = self.gen(case)
        why = check_program(arch, text, labels, rng)
        return (why == "", why, True)


# ---------------------------------------------------------------------------------------------------------------------------------
# Deductive layer (pyvc, unbounded sizes and addresses; chain length and pinned position enumerated): BlockChain.fix_blocks

def _mk_chain_target(nblocks, pinned):
    def body(ctx):
        from vc.terms import And
        loc_db = LocationDB()
        blocks = []
        sizes = []
        for i in range(nblocks):
            lk = loc_db.add_location("c%d" % i)
            b = asmblock.AsmBlock(loc_db, lk)
            sz = ctx.int("size%d" % i, 1, None, rnd_hi=40)
            b.size = sz
            b.max_size = sz
            blocks.append(b)
            sizes.append(sz)
        base = ctx.int("pinned_offset", 0x100000, None, rnd_hi=0x200000)
        for sz in sizes:
            ctx.assume(sz <= 0x1000)
        r0 = ctx.call(LocationDB.set_location_offset, loc_db, blocks[pinned].loc_key, base)
        rc = ctx.call(asmblock.BlockChain, loc_db, blocks)
        if r0.raised or rc.raised:
            ctx.check("no-raise:setup", False, kind="no-raise")
            return
        chain = rc.value
        modified = set()
        r = ctx.call(asmblock.BlockChain.fix_blocks, chain, modified)
        if r.raised:
            ctx.check("no-raise:%s" % type(r.exc).__name__, False, kind="no-raise")
            return
        ctx.cover("ret")
        offs = [ctx.call(LocationDB.get_location_offset, loc_db, b.loc_key).value for b in blocks]
        ctx.check("pinned-kept", offs[pinned] == base)
        for i in range(nblocks - 1):
            ctx.check("contiguous-%d" % i, offs[i] + sizes[i] == offs[i + 1])
    return body


def proof_targets():
    from harness.core import Target
    ts = []
    for nblocks in (2, 3, 4):
        for pinned in range(nblocks):
            t = Target("C32/BlockChain.fix_blocks/blocks=%d,pinned=%d" % (nblocks, pinned),
                       [asmblock.BlockChain.fix_blocks, asmblock.BlockChain.place, asmblock.BlockChain._set_pinned_block_idx, asmblock.fix_loc_offset],
                       _mk_chain_target(nblocks, pinned), kind="bounded", bound="chains of 2..4 blocks, every pinned position; block sizes and the pinned address symbolic",
                       params={"blocks": nblocks, "pinned": pinned})
            t.expect_covers = ["ret"]
            ts.append(t)
    return ts


def targets(tier):
    return proof_targets() + chunked(AsmCases, "C32/asm-layout", 16, tier)

