"""C33 -- The patchable byte buffer behaves like a zero-padded growable string (miasm/loader/strpatchwork.py)."""
from miasm.loader.strpatchwork import StrPatchwork

from harness.core import Target
from vc.terms import And, Eq, Implies, Ite, Not, Or

PAD = 0

PROPERTY = {
    "id": "C33",
    "level": "other",
    "explanation": "Shape-bounded symbolic verification of StrPatchwork on the real source: buffer length n <= 3 (quick) / 4 "
                   "(thorough), written values of <= 2 bytes, every byte value, index and slice bound symbolic (indices up to "
                   "n+2 so that 'at the end' and 'past the end' are both covered). Abstract view: content = tobytes(s); "
                   "representation invariant: s_cache is falsy or equals content. Each operation is checked against the view "
                   "of a zero-padded growable byte string and must re-establish the invariant.",
    "trusted_base": ["pyvc interpreter + CPython differential", "byte-string / array('B') models of vc/sbytes.py (cross-checked)",
                     "z3 linear integer arithmetic"],
    "assumptions": ["padding byte is the default b'\\x00'", "indices are non-negative; slices have step 1",
                    "slice assignment is specified only when the value has the length of the slice",
                    "shape bounds: n <= 3/4, value length <= 2, index <= n+2"],
}


def build(ctx, n):
    sp = object.__new__(StrPatchwork)
    c = [ctx.int("c%d" % i, 0, 255) for i in range(n)]
    sp.s = ctx.mk_array(list(c))
    sp.paddingbyte = b"\x00"
    if ctx.decide(ctx.bool("cache_valid")):
        sp.s_cache = ctx.mk_bytes(list(c))
    else:
        sp.s_cache = None
    return sp, c


def content(ctx, sp):
    return list(sp.s.b) if hasattr(sp.s, "b") else list(sp.s)


def inv(ctx, sp):
    cache = sp.s_cache
    if cache is None:
        return True
    cl = ctx.byte_list(cache)
    if len(cl) == 0:
        return True
    cur = content(ctx, sp)
    if len(cl) != len(cur):
        return False
    return And(*[Eq(a, b) for a, b in zip(cl, cur)])


def seq_eq(a, b):
    if len(a) != len(b):
        return False
    return And(*[Eq(x, y) for x, y in zip(a, b)])


def padded(c, i):
    """byte i of the zero-padded view"""
    r = PAD
    for k in range(len(c) - 1, -1, -1):
        r = Ite(Eq(i, k), c[k], r)
    return r


def no_raise(ctx, r):
    if r.raised:
        ctx.check("no-raise:%s" % type(r.exc).__name__, False, kind="no-raise")
        return False
    return True


def t_get_index(n):
    def body(ctx):
        sp, c = build(ctx, n)
        i = ctx.int("i", 0, n + 2)
        r = ctx.call(StrPatchwork.__getitem__, sp, i)
        if not no_raise(ctx, r):
            return
        ctx.cover("ret")
        v = ctx.byte_list(r.value)
        ctx.check("one-byte", len(v) == 1)
        if len(v) == 1:
            ctx.check("value", Eq(v[0], padded(c, i)))
        ctx.check("invariant", inv(ctx, sp))
        ctx.check("frame", seq_eq(content(ctx, sp), c))
    return body


def t_get_slice(n, open_end):
    def body(ctx):
        sp, c = build(ctx, n)
        a = ctx.int("a", 0, n + 2)
        if open_end:
            b = None
            stop = n
        else:
            b = ctx.int("b", 0, n + 2)
            stop = b
        r = ctx.call(StrPatchwork.__getitem__, sp, slice(a, b))
        if not no_raise(ctx, r):
            return
        ctx.cover("ret")
        v = ctx.byte_list(r.value)
        # expected: (content + padding...)[a:b]
        for ln in range(0, n + 4):
            for a0 in range(0, n + 3):
                cond = And(a == a0, (stop - a0 == ln) if ln > 0 else (stop - a0 <= 0))
                want = [padded(c, a0 + k) for k in range(ln)]
                ctx.check("slice-value", Implies(cond, seq_eq(v, want) if len(v) == ln else False))
        ctx.check("invariant", inv(ctx, sp))
        ctx.check("frame", seq_eq(content(ctx, sp), c))
    return body


def t_set_index(n, m):
    def body(ctx):
        sp, c = build(ctx, n)
        i = ctx.int("i", 0, n + 2)
        val = [ctx.int("w%d" % k, 0, 255) for k in range(m)]
        r = ctx.call(StrPatchwork.__setitem__, sp, i, ctx.mk_bytes(list(val)))
        if not no_raise(ctx, r):
            return
        ctx.cover("ret")
        new = content(ctx, sp)
        for i0 in range(0, n + 3):
            want_len = max(n, i0 + m)
            want = []
            for k in range(want_len):
                if i0 <= k < i0 + m:
                    want.append(val[k - i0])
                else:
                    want.append(c[k] if k < n else PAD)
            ctx.check("exactly-targeted-bytes", Implies(i == i0, seq_eq(new, want)))
        ctx.check("invariant", inv(ctx, sp))
    return body


def t_set_slice(n, m):
    def body(ctx):
        sp, c = build(ctx, n)
        a = ctx.int("a", 0, n + 2)
        val = [ctx.int("w%d" % k, 0, 255) for k in range(m)]
        r = ctx.call(StrPatchwork.__setitem__, sp, slice(a, a + m), ctx.mk_bytes(list(val)))
        if not no_raise(ctx, r):
            return
        ctx.cover("ret")
        new = content(ctx, sp)
        for i0 in range(0, n + 3):
            want_len = max(n, i0 + m)
            want = []
            for k in range(want_len):
                if i0 <= k < i0 + m:
                    want.append(val[k - i0])
                else:
                    want.append(c[k] if k < n else PAD)
            ctx.check("exactly-targeted-bytes", Implies(a == i0, seq_eq(new, want)))
        ctx.check("invariant", inv(ctx, sp))
    return body


def t_iadd_find(n, m):
    def body(ctx):
        sp, c = build(ctx, n)
        val = [ctx.int("w%d" % k, 0, 255) for k in range(m)]
        pat = [ctx.int("p0", 0, 255)]
        # a search first (fills the cache), then the append, then the same search: must reflect the new content
        r0 = ctx.call(StrPatchwork.find, sp, ctx.mk_bytes(list(pat)))
        if not no_raise(ctx, r0):
            return
        ctx.check("find-before", Eq(r0.value, ref_find(c, pat)))
        r = ctx.call(StrPatchwork.__iadd__, sp, ctx.mk_bytes(list(val)))
        if not no_raise(ctx, r):
            return
        ctx.cover("ret")
        ctx.check("returns-self", r.value is sp)
        new = content(ctx, sp)
        ctx.check("appended", seq_eq(new, c + val))
        ctx.check("invariant", inv(ctx, sp))
        r1 = ctx.call(StrPatchwork.find, sp, ctx.mk_bytes(list(pat)))
        if not no_raise(ctx, r1):
            return
        ctx.check("find-after", Eq(r1.value, ref_find(c + val, pat)))
        r2 = ctx.call(StrPatchwork.rfind, sp, ctx.mk_bytes(list(pat)))
        if not no_raise(ctx, r2):
            return
        ctx.check("rfind-after", Eq(r2.value, ref_find(c + val, pat, reverse=True)))
        r3 = ctx.call(StrPatchwork.__len__, sp)
        ctx.check("len", (r3.value == n + m) if not r3.raised else False)
        r4 = ctx.call(StrPatchwork.__bytes__, sp)
        ctx.check("bytes", seq_eq(ctx.byte_list(r4.value), c + val) if not r4.raised else False)
        r5 = ctx.call(StrPatchwork.__contains__, sp, ctx.mk_bytes(list(pat)))
        ctx.check("contains", Eq(r5.value, Or(*[x == pat[0] for x in c + val])) if not r5.raised else False)
    return body


def ref_find(c, pat, reverse=False):
    """index of the first (last) occurrence of the 1-byte pattern, -1 if none (term)"""
    r = -1
    idx = range(len(c)) if reverse else range(len(c) - 1, -1, -1)
    for k in idx:
        r = Ite(Eq(c[k], pat[0]), k, r)
    return r


def t_find_after_set(n):
    def body(ctx):
        sp, c = build(ctx, n)
        pat = [ctx.int("p0", 0, 255)]
        i = ctx.int("i", 0, n - 1)
        w = ctx.int("w", 0, 255)
        r0 = ctx.call(StrPatchwork.find, sp, ctx.mk_bytes(list(pat)))
        if not no_raise(ctx, r0):
            return
        r = ctx.call(StrPatchwork.__setitem__, sp, i, ctx.mk_bytes([w]))
        if not no_raise(ctx, r):
            return
        ctx.cover("ret")
        new = [Ite(Eq(i, k), w, c[k]) for k in range(n)]
        r1 = ctx.call(StrPatchwork.find, sp, ctx.mk_bytes(list(pat)))
        if not no_raise(ctx, r1):
            return
        ctx.check("find-reflects-write", Eq(r1.value, ref_find(new, pat)))
        ctx.check("invariant", inv(ctx, sp))
    return body


def t_init(n):
    def body(ctx):
        c = [ctx.int("c%d" % i, 0, 255) for i in range(n)]
        r = ctx.call(StrPatchwork, ctx.mk_bytes(list(c)))
        if not no_raise(ctx, r):
            return
        ctx.cover("ret")
        sp = r.value
        ctx.check("content", seq_eq(content(ctx, sp), c))
        ctx.check("invariant", inv(ctx, sp))
    return body


def targets(tier):
    N = 3 if tier == "quick" else 4
    S = StrPatchwork
    ts = []
    for n in range(0, N + 1):
        b = "buffer length %d" % n
        ts.append(Target("C33/StrPatchwork.__init__/n=%d" % n, [S.__init__], t_init(n), kind="bounded", bound=b))
        ts.append(Target("C33/StrPatchwork.__getitem__(int)/n=%d" % n, [S.__getitem__], t_get_index(n), kind="bounded", bound=b))
        ts.append(Target("C33/StrPatchwork.__getitem__(slice)/n=%d" % n, [S.__getitem__], t_get_slice(n, False), kind="bounded",
                         bound=b))
        ts.append(Target("C33/StrPatchwork.__getitem__(slice-open)/n=%d" % n, [S.__getitem__], t_get_slice(n, True),
                         kind="bounded", bound=b))
        for m in (1, 2):
            ts.append(Target("C33/StrPatchwork.__setitem__(int)/n=%d,m=%d" % (n, m), [S.__setitem__], t_set_index(n, m),
                             kind="bounded", bound=b + ", value length %d" % m))
            ts.append(Target("C33/StrPatchwork.__setitem__(slice)/n=%d,m=%d" % (n, m), [S.__setitem__], t_set_slice(n, m),
                             kind="bounded", bound=b + ", value length %d" % m))
            ts.append(Target("C33/StrPatchwork.__iadd__+find+rfind+len+bytes+contains/n=%d,m=%d" % (n, m),
                             [S.__iadd__, S.find, S.rfind, S.__len__, S.__bytes__, S.__contains__], t_iadd_find(n, m),
                             kind="bounded", bound=b + ", value length %d" % m))
        if n >= 1:
            ts.append(Target("C33/StrPatchwork.find-after-__setitem__/n=%d" % n, [S.find, S.__setitem__], t_find_after_set(n),
                             kind="bounded", bound=b))
    for t in ts:
        t.expect_covers = ["ret"]
        t.params = {"bound": t.bound}
    return ts
