"""C34 -- typed memory views read back what they write and stay in bounds (core/types.py).

types.py builds its classes with metaclasses and serialises through struct: outside the Python subset of pyvc.  Bounded stand-in,
labelled: contracts of Type.set / get (Num, Ptr, Struct, Union, Array, BitField / Bits, Str) and of the MemType views over them are
executed on the REAL classes for every type of a seeded family of random type definitions and random values, against a byte-array
memory: the written extent and bytes, the read-back value, the untouched rest of the memory, and the reported sizes / offsets /
addresses are compared with a layout and a serialisation computed independently here."""
import random
import struct

from miasm.core import types as T

from harness.bounded import BoundedContract, chunked

PROPERTY = {
    "id": "C34",
    "level": "exploration",
    "engine": "bounded-contract",
    "technique": "bounded stand-in: run-time contract check of the real type system of core/types.py over a seeded family of random "
                 "type definitions and values against a byte-array memory, layout and serialisation computed independently",
    "explanation": "For every generated root type (nested Struct with anonymous members, Union, sized Array of any element type, "
                   "BitField over every integer width and byte order, Ptr of 32 / 64 bits to numbers, strings and structures, Num "
                   "of every struct format, Str with each built-in encoding) mapped at a random address of a memory filled with "
                   "random bytes: (1) Type.size, MemType.get_size / sizeof, get_offset and get_addr of every member equal the "
                   "independently computed packed layout; (2) every write through the views (attribute assignment, indexed and "
                   "negative-indexed and sliced array assignment, whole-array assignment, bit-field member assignment, pointer "
                   "value assignment, string assignment through a pointer) changes exactly the bytes of the member's extent to "
                   "the serialisation computed here (struct.pack of the format; masked read-modify-write of the backing number "
                   "for bits; encoded string plus terminator) and no other byte of the memory, and reading the member back "
                   "returns the written value (truncated to the bit width for bits); (3) indexing a sized array outside "
                   "[-len, len) raises IndexError and changes nothing; (4) raw() / bytes() of a view equal the memory of its "
                   "extent and memset fills exactly the extent. Bounded: exploration, not proof.",
    "rule": "one case = one generated root type: layout + 40 random accesses; plus, DEDUCTIVE (pyvc + z3, all array lengths and "
            "indices, element sizes 1 2 4 8): Array._normalize_idx / _check_bounds accept exactly -len <= idx < len, return the "
            "index in [0, len), and get_offset of it lies inside the array; shape-bounded SYMBOLIC: Bits.set / get change exactly the "
            "field's bits of the backing number to the truncated value, for all stored numbers and written values (10 shapes)",
    "trusted_base": ["CPython executes the real classes; the memory is a Python byte array with get_mem / set_mem (the VmMngr "
                     "contract itself is C24); layout, serialisation and comparisons are written independently in props/C34.py"],
    "assumptions": ["seeded family of props/C34.py (600 quick / 6000 thorough root types)", "Self / MemSelf recursion and the global "
                    "allocator are not exercised"],
}

BASE, MEMSIZE = 0x10000, 0x2000
INT_FMT = {"B": (1, False), "H": (2, False), "I": (4, False), "Q": (8, False), "b": (1, True), "h": (2, True), "i": (4, True), "q": (8, True)}


class Mem(object):
    """byte-array memory with the two VmMngr entry points types.py uses; accesses outside the mapped range raise"""
    def __init__(self, rng):
        self.data = bytearray(rng.getrandbits(8) for _ in range(MEMSIZE))
        self.free = MEMSIZE // 2

    def alloc(self, size):
        """room for a pointed object in the upper half (reset before every top-level access: the objects of one access path never
        overlap each other nor the root)"""
        a = BASE + self.free
        self.free += size + 3
        if self.free > MEMSIZE:
            raise RuntimeError("harness: upper half exhausted")
        return a

    def get_mem(self, addr, size):
        if not (BASE <= addr and addr + size <= BASE + MEMSIZE and size >= 0):
            raise RuntimeError("Cannot find address")
        return bytes(self.data[addr - BASE:addr - BASE + size])

    def set_mem(self, addr, raw):
        if not (BASE <= addr and addr + len(raw) <= BASE + MEMSIZE):
            raise RuntimeError("Cannot find address")
        self.data[addr - BASE:addr - BASE + len(raw)] = raw


class M(object):
    """model type"""
    def __init__(self, kind, **kw):
        self.kind = kind
        self.__dict__.update(kw)


_UNIQ = [0]


def uniq():
    _UNIQ[0] += 1
    return _UNIQ[0]


def gen_num(rng, ints_only=False):
    order = rng.choice("<>")
    c = rng.choice("BHIQbhiq" if ints_only or rng.random() < 0.85 else "fd")
    return M("num", fmt=order + c, size=struct.calcsize(order + c))


def gen_type(rng, depth=0):
    k = rng.random()
    if depth >= 3 or k < 0.30:
        return gen_num(rng)
    if k < 0.40:
        order = rng.choice("<>")
        c = rng.choice("IQ")
        kk = rng.random()
        dst = gen_num(rng) if kk < 0.4 else (M("str", enc=rng.choice(("ascii", "latin1", "ansi", "utf8", "utf16"))) if kk < 0.75 else
                                             gen_struct(rng, depth + 1))
        while dst.kind == "struct" and dst.size > 0x200:
            dst = gen_struct(rng, depth + 1)
        return M("ptr", fmt=order + c, size=struct.calcsize(order + c), dst=dst)
    if k < 0.60:
        return gen_struct(rng, depth + 1)
    if k < 0.70:
        fields = [("u%d_%d" % (i, uniq()), gen_type(rng, depth + 1)) for i in range(rng.randint(1, 4))]
        return M("union", fields=fields, size=max(f.size for _, f in fields))
    if k < 0.85:
        elt = gen_type(rng, depth + 1)
        n = rng.choice((1, 2, 3, 4, 7))
        return M("array", elt=elt, n=n, size=n * elt.size)
    num = gen_num(rng, ints_only=True)
    while num.fmt[1] in "bhiq":
        num = gen_num(rng, ints_only=True)
    total = num.size * 8
    bits = []
    used = 0
    i = 0
    while used < total and len(bits) < 5:
        b = rng.randint(1, min(total - used, rng.choice((1, 3, 8, 17, 64))))
        bits.append(("bf%d_%d" % (i, uniq()), b, used))
        used += b
        i += 1
    return M("bitfield", num=num, bits=bits, size=num.size)


def gen_struct(rng, depth):
    fields = []
    for i in range(rng.randint(1, 5)):
        ft = gen_type(rng, depth)
        anon = ft.kind in ("struct", "union", "bitfield") and rng.random() < 0.3
        _UNIQ[0] += 1
        fields.append(("" if anon else "f%d_%d_%d" % (depth, i, _UNIQ[0]), ft))
    _UNIQ[0] += 1
    return M("struct", name="S%d" % _UNIQ[0], fields=fields, size=sum(f.size for _, f in fields))


def build(m):
    """the miasm Type of a model type"""
    if m.kind == "num":
        return T.Num(m.fmt)
    if m.kind == "ptr":
        return T.Ptr(m.fmt, build(m.dst))
    if m.kind == "str":
        return T.Str(m.enc)
    if m.kind == "struct":
        return T.Struct(m.name, [(n, build(f)) for n, f in m.fields])
    if m.kind == "union":
        return T.Union([(n, build(f)) for n, f in m.fields])
    if m.kind == "array":
        return T.Array(build(m.elt), m.n)
    if m.kind == "bitfield":
        return T.BitField(T.Num(m.num.fmt), [(n, b) for n, b, _ in m.bits])
    raise ValueError(m.kind)


def members(m):
    """[(name, model, offset)] reachable by attribute from a view of a struct / union / bitfield (anonymous members flattened)"""
    out = []
    if m.kind == "struct":
        off = 0
        for n, f in m.fields:
            if n:
                out.append((n, f, off))
            else:
                out += [(n2, f2, off + o2) for n2, f2, o2 in members(f)]
            off += f.size
    elif m.kind == "union":
        for n, f in m.fields:
            if n:
                out.append((n, f, 0))
            else:
                out += members(f)
    elif m.kind == "bitfield":
        for n, b, o in m.bits:
            out.append((n, M("bits", num=m.num, bits=b, off=o, size=m.num.size), 0))
    return out


def rand_val(rng, m):
    if m.kind == "num":
        c = m.fmt[1]
        if c in INT_FMT:
            size, signed = INT_FMT[c]
            lo, hi = (-(1 << (8 * size - 1)), (1 << (8 * size - 1)) - 1) if signed else (0, (1 << (8 * size)) - 1)
            return rng.choice((lo, hi, 0, 1, rng.randint(lo, hi), rng.randint(lo, hi)))
        return rng.choice((0.0, 1.5, -2.25, 1e10, rng.uniform(-1e6, 1e6)))
    if m.kind == "bits":
        return rng.getrandbits(rng.choice((m.bits, m.bits, m.num.size * 8)))
    raise ValueError(m.kind)


ALPHABET = {"ascii": u"abcXYZ 019~!", "latin1": u"ab\xe9\xff\xa0Z", "ansi": u"ab\xe9\xff\xa0Z", "utf8": u"ab\xe9€\U0001f600z",
            "utf16": u"ab\xe9€zĀ"}
CODEC = {"ascii": "ascii", "latin1": "latin1", "ansi": "latin1", "utf8": "utf8", "utf16": "utf-16le"}


class Failure(Exception):
    pass


def expect_write(mem, before, addr, raw, what):
    """memory == before with raw at addr"""
    want = bytearray(before)
    want[addr - BASE:addr - BASE + len(raw)] = raw
    if mem.data != want:
        for i in range(MEMSIZE):
            if mem.data[i] != want[i]:
                inside = addr - BASE <= i < addr - BASE + len(raw)
                raise Failure("%s: byte at %#x is %#04x, expected %#04x (%s the extent [%#x, %#x) of the member)" % (
                    what, BASE + i, mem.data[i], want[i], "inside" if inside else "OUTSIDE", addr, addr + len(raw)))


def check_layout(view, m, addr, path):
    ty = view.get_type()
    if m.kind != "str":
        if ty.size != m.size:
            raise Failure("%s: Type.size is %d, the members add up to %d" % (path, ty.size, m.size))
        if view.get_size() != m.size:
            raise Failure("%s: get_size() is %d, expected %d" % (path, view.get_size(), m.size))
    if view.get_addr() != addr:
        raise Failure("%s: get_addr() is %#x, the member is stored at %#x" % (path, view.get_addr(), addr))
    if m.kind in ("struct", "union", "bitfield"):
        for n, f, off in members(m):
            if ty.get_offset(n) != off:
                raise Failure("%s: get_offset(%r) is %d, the member is stored at offset %d" % (path, n, ty.get_offset(n), off))
            if view.get_addr(n) != addr + off:
                raise Failure("%s: get_addr(%r) is %#x, expected %#x" % (path, n, view.get_addr(n), addr + off))
    if m.kind == "array":
        for i in range(m.n):
            if ty.get_offset(i) != i * m.elt.size or view.get_addr(i) != addr + i * m.elt.size:
                raise Failure("%s: element %d is reported at offset %d, expected %d" % (path, i, ty.get_offset(i), i * m.elt.size))


def pack_num(m, v):
    return struct.pack(m.fmt, v)


def access(rng, mem, view, m, addr, path, setter, depth=0):
    """one random access below the view of model m at addr.  setter(value) assigns the member in its parent (None for the root)."""
    k = m.kind
    if k == "num":
        v = rand_val(rng, m)
        before = bytearray(mem.data)
        setter(v)
        expect_write(mem, before, addr, pack_num(m, v), "%s = %r" % (path, v))
        return ("num", struct.unpack(m.fmt, pack_num(m, v))[0])
    if k == "bits":
        v = rand_val(rng, m)
        before = bytearray(mem.data)
        old = struct.unpack(m.num.fmt, bytes(before[addr - BASE:addr - BASE + m.size]))[0]
        mask = ((1 << m.bits) - 1) << m.off
        new = (old & ~mask) | ((v << m.off) & mask)
        setter(v)
        expect_write(mem, before, addr, struct.pack(m.num.fmt, new), "%s = %#x (bits %d..%d)" % (path, v, m.off, m.off + m.bits))
        return ("num", v & ((1 << m.bits) - 1))
    if k in ("struct", "union", "bitfield"):
        check_layout(view, m, addr, path)
        if k == "bitfield" and rng.random() < 0.2 and setter is not None:
            # the whole backing number
            v = rand_val(rng, m.num)
            before = bytearray(mem.data)
            setter(v)
            expect_write(mem, before, addr, pack_num(m.num, v), "%s = %#x" % (path, v))
            return None
        n, f, off = rng.choice(members(m))
        sub = "%s.%s" % (path, n)
        if f.kind in ("num", "bits"):
            kind, want = access(rng, mem, None, f, addr + off, sub, lambda v: setattr(view, n, v))
            got = getattr(view, n)
            if got != want:
                raise Failure("%s reads back %r after %r was written" % (sub, got, want))
            if view.get_field(n) != want:
                raise Failure("get_field(%r) of %s reads %r after %r was written" % (n, path, view.get_field(n), want))
            return None
        child = getattr(view, n)
        return access(rng, mem, child, f, addr + off, sub, lambda v: setattr(view, n, v), depth + 1)
    if k == "array":
        check_layout(view, m, addr, path)
        kk = rng.random()
        if kk < 0.15:
            # out of bounds
            i = rng.choice((m.n, m.n + 1, -m.n - 1, m.n * max(m.elt.size, 1), 1 << 20))
            before = bytearray(mem.data)
            for what, op in (("reading", lambda: view[i]), ("writing", lambda: view.__setitem__(i, view[0]))):
                try:
                    op()
                except IndexError:
                    pass
                except Exception as ex:     # noqa
                    raise Failure("%s %s[%d] (array of %d) raises %s, not IndexError" % (what, path, i, m.n, type(ex).__name__))
                else:
                    raise Failure("%s %s[%d] is accepted although the array has %d elements" % (what, path, i, m.n))
            if mem.data != before:
                raise Failure("an out-of-bounds access to %s[%d] changed the memory" % (path, i))
            return None
        if m.elt.kind == "num" and kk < 0.35:
            # whole array / slice assignment
            if rng.random() < 0.5:
                vals = [rand_val(rng, m.elt) for _ in range(m.n)]
                before = bytearray(mem.data)
                if setter is None:
                    view[0:m.n] = vals
                else:
                    setter(vals)
                lo, hi = 0, m.n
                what = "%s = %r" % (path, vals)
            else:
                lo = rng.randrange(m.n)
                hi = rng.randint(lo, m.n)
                vals = [rand_val(rng, m.elt) for _ in range(hi - lo)]
                before = bytearray(mem.data)
                view[lo:hi] = vals
                what = "%s[%d:%d] = %r" % (path, lo, hi, vals)
            expect_write(mem, before, addr + lo * m.elt.size, b"".join(pack_num(m.elt, v) for v in vals), what)
            want = [struct.unpack(m.elt.fmt, pack_num(m.elt, v))[0] for v in vals]
            if view[lo:hi] != want:
                raise Failure("%s[%d:%d] reads back %r after %r was written" % (path, lo, hi, view[lo:hi], want))
            return None
        i = rng.randrange(m.n)
        idx = i - m.n if rng.random() < 0.3 else i
        sub = "%s[%d]" % (path, idx)
        if m.elt.kind == "num":
            kind, want = access(rng, mem, None, m.elt, addr + i * m.elt.size, sub, lambda v: view.__setitem__(idx, v))
            if view[idx] != want or view[i] != want:
                raise Failure("%s reads back %r after %r was written" % (sub, view[idx], want))
            return None
        return access(rng, mem, view[idx], m.elt, addr + i * m.elt.size, sub, lambda v: view.__setitem__(idx, v), depth + 1)
    if k == "ptr":
        # the pointer value, then the pointed object in a second area
        target = mem.alloc(m.dst.size if m.dst.kind != "str" else 64) + rng.randrange(0, 3)
        before = bytearray(mem.data)
        if setter is not None and rng.random() < 0.5:
            setter(target)
        else:
            view.val = target
        expect_write(mem, before, addr, struct.pack(m.fmt, target), "%s = %#x" % (path, target))
        if view.val != target:
            raise Failure("%s.val reads back %#x after %#x was written" % (path, view.val, target))
        d = m.dst
        if d.kind == "num":
            kind, want = access(rng, mem, None, d, target, "*%s" % path, lambda v: setattr(view.deref, "val", v))
            if view.deref.val != want:
                raise Failure("*%s reads back %r after %r was written" % (path, view.deref.val, want))
            return None
        if d.kind == "str":
            s = u"".join(rng.choice(ALPHABET[d.enc]) for _ in range(rng.randint(0, 12)))
            raw = (s + u"\x00").encode(CODEC[d.enc])
            before = bytearray(mem.data)
            view.deref.val = s
            expect_write(mem, before, target, raw, "*%s = %r (%s)" % (path, s, d.enc))
            if view.deref.val != s:
                raise Failure("*%s (%s string) reads back %r after %r was written" % (path, d.enc, view.deref.val, s))
            if view.deref.get_size() != len(raw):
                raise Failure("*%s (%s string %r): get_size() is %d, %d bytes were written" % (path, d.enc, s, view.deref.get_size(), len(raw)))
            return None
        return access(rng, mem, view.deref, d, target, "(*%s)" % path, None, depth + 1)
    raise ValueError(k)


def check_raw(rng, mem, view, m, addr, path):
    if m.kind in ("struct", "union", "bitfield", "array"):
        want = mem.get_mem(addr, m.size)
        if bytes(view) != want or view.raw() != want:
            raise Failure("raw() / bytes() of %s differ from the %d bytes of its extent" % (path, m.size))
        if rng.random() < 0.3:
            b = bytes([rng.getrandbits(8)])
            before = bytearray(mem.data)
            view.memset(b)
            expect_write(mem, before, addr, b * m.size, "%s.memset(%r)" % (path, b))


def describe(m):
    k = m.kind
    if k == "num":
        return "Num(%r)" % m.fmt
    if k == "ptr":
        return "Ptr(%r, %s)" % (m.fmt, describe(m.dst))
    if k == "str":
        return "Str(%r)" % m.enc
    if k == "struct":
        return "Struct(%s)" % ", ".join("%s: %s" % (n or "<anon>", describe(f)) for n, f in m.fields)
    if k == "union":
        return "Union(%s)" % ", ".join("%s: %s" % (n or "<anon>", describe(f)) for n, f in m.fields)
    if k == "array":
        return "Array(%s, %d)" % (describe(m.elt), m.n)
    return "BitField(%s, %s)" % (describe(m.num), [(n, b) for n, b, _ in m.bits])


class TypeCases(BoundedContract):
    BOUND = "seeded family of random type definitions (props/C34.py), 40 random accesses each"
    CASE_SECONDS = 30

    def funcs(self):
        return [T.Type.set, T.Type.get, T.Num._pack, T.Num._unpack, T.Struct._gen_fields, T.Struct._next_offset, T.Struct.get_field,
                T.Struct.set_field, T.Struct.get_offset, T.Union._next_offset, T.Array.set, T.Array.get_item, T.Array.set_item,
                T.Array._normalize_idx, T.Array._normalize_slice, T.Array._check_bounds, T.Bits.set, T.Bits.get, T.BitField.__init__,
                T.Ptr.set, T.Ptr.deref_get, T.Str.set, T.Str.get, T.get_str, T.set_str, T.MemType.memset, T.MemStruct.get_addr]

    def cases(self):
        return list(range(600 if self.tier == "quick" else 6000))

    def gen(self, case):
        rng = random.Random(3400 + case)
        _UNIQ[0] = case * 1000
        m = gen_struct(rng, 0) if rng.random() < 0.7 else gen_type(rng, 0)
        while m.kind in ("num", "str") or m.size > MEMSIZE // 8:
            m = gen_struct(rng, 0)
        return rng, m

    def show(self, case):
        return "type #%d: %s" % (case, describe(self.gen(case)[1])[:900])

    def check(self, case):
        rng, m = self.gen(case)
        mem = Mem(rng)
        addr = BASE + rng.randrange(0, MEMSIZE // 8)
        try:
            ty = build(m)
            view = ty.lval(mem, addr)
            check_layout(view, m, addr, "root")
            for _ in range(40):
                mem.free = MEMSIZE // 2
                access(rng, mem, view, m, addr, "root", None)
                check_raw(rng, mem, view, m, addr, "root")
        except Failure as f:
            return (False, str(f), True)
        except Exception as ex:     # noqa
            import traceback
            tb = traceback.extract_tb(ex.__traceback__)[-1]
            return (False, "raises %s: %s (%s:%d)" % (type(ex).__name__, str(ex)[:160], tb.filename.split("/")[-1], tb.lineno), True)
        return (True, "", True)


# ---------------------------------------------------------------------------------------------------------------------------------
# Deductive layer (pyvc, unbounded): index normalisation and bounds of sized arrays, for ALL lengths and indices

def _mk_index_target(fmt):
    def body(ctx):
        from vc.terms import And, Or
        n = ctx.int("array_len", 1, None, rnd_hi=40)
        idx = ctx.int("idx", None, None, rnd_hi=60)
        arr = T.Array(T.Num(fmt), n)
        esize = struct.calcsize(fmt)
        inside = And(idx >= -n, idx < n)
        r = ctx.call(T.Array._normalize_idx, arr, idx)
        if ctx.decide(inside):
            if r.raised:
                ctx.check("accepts-valid-index", False, kind="no-raise")
                return
            ctx.cover("accepted")
            ctx.check("normalised-in-range", And(r.value >= 0, r.value < n))
            ctx.check("normalised-value", Or(And(idx >= 0, r.value == idx), And(idx < 0, r.value == n + idx)))
            off = ctx.call(T.Array.get_offset, arr, r.value)
            if not off.raised:
                ctx.check("offset-inside-array", And(off.value == esize * r.value, off.value + esize <= esize * n))
        else:
            ctx.cover("rejected")
            ctx.check("rejects-out-of-bounds", r.raised and isinstance(r.exc, IndexError), kind="raises-post")
    return body


class _Cell(object):
    """memory cell of the backing number (the vm argument of Bits.set / get)"""
    def __init__(self, value):
        self.value = value

    def __repr__(self):
        return "<cell>"


class _CellNum(T.Num):
    """a Num whose get / set read and write the cell: the contract of Num.get / Num.set (struct round trip of an in-range value) is
    what the bounded layer checks; here only the bit arithmetic of Bits is under proof"""
    def __init__(self, nbytes):
        super(_CellNum, self).__init__({1: "<B", 2: "<H", 4: "<I", 8: "<Q"}[nbytes])

    def get(self, vm, addr):
        return vm.value

    def set(self, vm, addr, val):
        vm.value = val

    def __repr__(self):
        return "<cell num>"


def _mk_bits_target(nbytes, bits, off):
    def body(ctx):
        from vc.terms import And
        total = 8 * nbytes
        old = ctx.int("cell", 0, (1 << total) - 1)
        val = ctx.int("val", 0, (1 << (total + 8)) - 1)         # wider than the field and than the backing number
        cell = _Cell(old)
        f = T.Bits(_CellNum(nbytes), bits, off)
        r = ctx.call(T.Bits.set, f, cell, 0x1000, val)
        if r.raised:
            ctx.check("no-raise", False, kind="no-raise")
            return
        ctx.cover("ret")
        new = cell.value
        mask = ((1 << bits) - 1) << off
        ctx.check("stays-in-the-backing-number", And(new >= 0, new < (1 << total)))
        ctx.check("field-holds-the-truncated-value", (new // (1 << off)) % (1 << bits) == val % (1 << bits))
        ctx.check("bits-below-unchanged", new % (1 << off) == old % (1 << off))
        ctx.check("bits-above-unchanged", new // (1 << (off + bits)) == old // (1 << (off + bits)))
        g = ctx.call(T.Bits.get, f, cell, 0x1000)
        if not g.raised:
            ctx.check("reads-back", g.value == val % (1 << bits))
    return body


def proof_targets():
    from harness.core import Target
    ts = []
    for nbytes, bits, off in ((1, 1, 0), (1, 3, 2), (1, 2, 6), (2, 5, 3), (2, 16, 0), (4, 7, 25), (4, 12, 10), (8, 1, 63), (8, 33, 17), (8, 64, 0)):
        t = Target("C34/Bits.set-get/num=%d,bits=%d,offset=%d" % (8 * nbytes, bits, off), [T.Bits.set, T.Bits.get], _mk_bits_target(nbytes, bits, off),
                   kind="bounded", bound="10 (width, bit count, bit offset) shapes; the stored number and the written value are symbolic",
                   params={"num_bits": 8 * nbytes, "bits": bits, "offset": off})
        t.expect_covers = ["ret"]
        ts.append(t)
    for fmt in ("<B", "<H", "<I", "<Q"):
        t = Target("C34/Array.index-normalisation/%s" % fmt[1], [T.Array._normalize_idx, T.Array._check_bounds, T.Array.get_offset, T.Array.is_sized],
                   _mk_index_target(fmt), params={"element": fmt})
        t.expect_covers = ["accepted", "rejected"]
        ts.append(t)
    return ts


def targets(tier):
    return proof_targets() + chunked(TypeCases, "C34/typed-views", 16, tier)

