"""C35 -- C type layout matches the platform ABI (core/objc.py, core/ctypesmngr.py, arch/x86/ctype.py).

objc.py / ctypesmngr.py sit on pycparser ASTs and ExprReducer rule tables: outside the Python subset of pyvc.  Bounded stand-in,
labelled: the contract of CTypesManagerNotPacked / CTypesManagerPacked.get_objc (size, alignment and member offsets are those GCC
computes for the same declarations -- plain for the x86-64 System V ABI, __attribute__((packed)) on every aggregate for the packed
manager) and of CHandler.c_to_expr_and_type / expr_to_c_and_types (a member access translates to the memory access at the offset
and of the size GCC gives, and the expression translates back to an access that yields the same expression and the same type) is
executed on the REAL classes for every declaration set of a seeded family; GCC is run on every case to obtain the reference."""
import os
import random
import shutil
import subprocess
import tempfile

from miasm.arch.x86.ctype import CTypeAMD64_unk
from miasm.core.ctypesmngr import CAstTypes, CTypePtr, CTypeStruct, CTypeUnion
from miasm.core.objc import (CHandler, CTypesManager, CTypesManagerNotPacked, CTypesManagerPacked, ExprCToExpr, ExprToAccessC, ObjCArray,
                             ObjCPtr, ObjCStruct, ObjCUnion)
from miasm.expression.expression import ExprId, ExprInt, ExprMem, ExprOp
from miasm.expression.simplifications import expr_simp

from harness.bounded import BoundedContract, chunked

PROPERTY = {
    "id": "C35",
    "level": "exploration",
    "engine": "bounded-contract",
    "technique": "bounded stand-in: run-time contract check of the real C type managers and CHandler over a seeded family of C "
                 "declarations, with the sizes, alignments and member offsets printed by a program GCC compiles from the same "
                 "declarations on every case as the reference",
    "explanation": "For every generated declaration set (2..5 struct / union types with 1..6 members: the integer spellings the "
                   "manager knows, float, double, long double, enums, typedef names, pointers to scalars and to earlier / later / "
                   "the same aggregate, 1- and 2-dimensional arrays, aggregates by value): (1) for both managers, every aggregate's "
                   "size and alignment and every member's offset and size equal what GCC reports (sizeof, _Alignof, "
                   "__builtin_offsetof; packed manager against the declarations with __attribute__((packed)) on every "
                   "aggregate), and the members plus the padding entries tile the aggregate without gap or overlap; (2) for "
                   "random member-access paths from a pointer to an aggregate (-> . [i] and dereferences), c_to_expr_and_type "
                   "simplifies to the access written independently from GCC's offsets (memory of the member's size at the "
                   "address for scalars and pointers, the address itself for arrays and aggregates) with a type of the member's "
                   "size and kind, and expr_to_c_and_types of that expression contains an access which c_to_expr_and_type maps "
                   "back to the same expression, one of them with the same type when the access denotes a value (scalars and pointers; an "
                   "access denoting the address of an array or aggregate is compared by expression only: the address of a first "
                   "member is the address of the enclosing object, which is what is handed back). Bounded: exploration, not "
                   "proof.",
    "rule": "one case = one declaration set: layout under both managers + up to 12 access paths; plus, DEDUCTIVE (pyvc + z3, all "
            "offsets and sizes, alignments 1..32): struct_compute_field_offset / struct_compute_align_size / union_compute_align_size "
            "of both managers return the least aligned value not below their argument (packed: the argument itself)",
    "trusted_base": ["GCC (x86-64) is the layout oracle; CPython executes the real classes; the generator, the expected access "
                     "expressions and the comparisons are written independently in props/C35.py"],
    "assumptions": ["seeded family of props/C35.py (300 quick / 2500 thorough declaration sets)", "no bit-fields, no flexible array "
                    "members, no anonymous members, no _Bool / complex / vector types (not supported by the leaf tables)"],
}

LEAVES = [  # spelling, size
    ("char", 1), ("signed char", 1), ("unsigned char", 1), ("short", 2), ("unsigned short", 2), ("short int", 2), ("int", 4), ("unsigned int", 4),
    ("unsigned", 4), ("long", 8), ("unsigned long", 8), ("long long", 8), ("unsigned long long", 8), ("long int", 8), ("float", 4),
    ("double", 8), ("long double", 16),
]


class T(object):
    """generator-side type: kind in leaf / ptr / arr / agg / enum"""
    def __init__(self, kind, **kw):
        self.kind = kind
        self.__dict__.update(kw)


def gen_decls(rng):
    """-> (aggs, typedefs): aggs = list of {"kw": struct|union, "name", "fields": [(name, T)]}"""
    nagg = rng.randint(2, 5)
    names = ["%s%d" % (rng.choice("stuvw"), i) for i in range(nagg)]
    kws = [rng.choice(("struct", "struct", "struct", "union")) for _ in range(nagg)]
    typedefs = []
    if rng.random() < 0.5:
        sp, sz = rng.choice(LEAVES)
        typedefs.append(("td_leaf", T("leaf", spelling=sp, size=sz)))
    aggs = []

    def leaf():
        k = rng.random()
        if k < 0.1:
            return T("enum", size=4)
        if k < 0.2 and typedefs:
            n, t = rng.choice(typedefs)
            return T("typedef", name=n, target=t)
        sp, sz = rng.choice(LEAVES)
        return T("leaf", spelling=sp, size=sz)

    def field_type(i, depth=0):
        k = rng.random()
        if k < 0.40:
            return leaf()
        if k < 0.58:
            # pointer
            kk = rng.random()
            if kk < 0.5:
                return T("ptr", target=T("agg", index=rng.randrange(nagg)))
            if kk < 0.9:
                return T("ptr", target=leaf())
            return T("ptr", target=T("ptr", target=leaf()))
        if k < 0.80 and depth < 2:
            return T("arr", n=rng.choice((1, 2, 3, 5, 7)), target=field_type(i, depth + 1))
        if i > 0:
            return T("agg", index=rng.randrange(i))
        return leaf()

    for i in range(nagg):
        fields = [("f%d" % j, field_type(i)) for j in range(rng.randint(1, 6))]
        aggs.append({"kw": kws[i], "name": names[i], "fields": fields})
        if rng.random() < 0.25:
            typedefs.append(("td_%s" % names[i], T("agg", index=i)))
    return aggs, typedefs


def decl(t, name, aggs):
    """C declarator text of `name` with type t"""
    suffix = ""
    while t.kind == "arr":
        suffix += "[%d]" % t.n
        t = t.target
    stars = ""
    while t.kind == "ptr":
        stars += "*"
        t = t.target
        if t.kind == "arr":
            raise ValueError("pointer to array is not generated")
    if t.kind == "leaf":
        base = t.spelling
    elif t.kind == "enum":
        base = "enum e0"
    elif t.kind == "typedef":
        base = t.name
    else:
        base = "%s %s" % (aggs[t.index]["kw"], aggs[t.index]["name"])
    return "%s %s%s%s" % (base, stars, name, suffix)


def text(aggs, typedefs, packed):
    out = ["enum e0 { E0_A, E0_B = 70000 };"]
    done_td = set()
    for n, t in typedefs:
        if t.kind == "leaf":
            out.append("typedef %s;" % decl(t, n, aggs))
            done_td.add(n)
    for i, a in enumerate(aggs):
        attr = " __attribute__((packed))" if packed else ""
        out.append("%s%s %s {" % (a["kw"], attr, a["name"]))
        for fn, ft in a["fields"]:
            out.append("    %s;" % decl(ft, fn, aggs))
        out.append("};")
        for n, t in typedefs:
            if n not in done_td and t.kind == "agg" and t.index == i:
                out.append("typedef %s;" % decl(t, n, aggs))
                done_td.add(n)
    return "\n".join(out) + "\n"


_DIR = {}


def workdir():
    if _DIR.get("pid") != os.getpid():
        d = tempfile.mkdtemp(prefix="c35_")
        import atexit
        atexit.register(shutil.rmtree, d, True)
        _DIR.update({"pid": os.getpid(), "d": d})
    return _DIR["d"]


def gcc_layout(aggs, typedefs, packed, tag):
    """{agg name: (size, align, {field: (offset, size)})} as GCC computes it"""
    lines = ["#include <stdio.h>", text(aggs, typedefs, packed), "int main(void) {"]
    for a in aggs:
        ty = "%s %s" % (a["kw"], a["name"])
        lines.append('  printf("A %s %%zu %%zu\\n", sizeof(%s), _Alignof(%s));' % (a["name"], ty, ty))
        for fn, _ in a["fields"]:
            lines.append('  printf("F %s %s %%zu %%zu\\n", __builtin_offsetof(%s, %s), sizeof(((%s *)0)->%s));' % (a["name"], fn, ty, fn, ty, fn))
    lines += ["  return 0;", "}"]
    d = workdir()
    src, exe = os.path.join(d, "%s.c" % tag), os.path.join(d, "%s.exe" % tag)
    with open(src, "w") as f:
        f.write("\n".join(lines) + "\n")
    p = subprocess.run(["gcc", "-w", "-O0", "-o", exe, src], stdout=subprocess.PIPE, stderr=subprocess.PIPE)
    if p.returncode:
        raise RuntimeError("gcc refuses the generated declarations: " + p.stderr.decode(errors="replace")[:300])
    out = subprocess.run([exe], stdout=subprocess.PIPE).stdout.decode()
    res = {}
    for l in out.splitlines():
        w = l.split()
        if w[0] == "A":
            res[w[1]] = (int(w[2]), int(w[3]), {})
        else:
            res[w[1]][2][w[2]] = (int(w[3]), int(w[4]))
    return res


def size_of(t, lay, aggs):
    while t.kind == "typedef":
        t = t.target
    if t.kind in ("leaf", "enum"):
        return t.size
    if t.kind == "ptr":
        return 8
    if t.kind == "arr":
        return t.n * size_of(t.target, lay, aggs)
    return lay[aggs[t.index]["name"]][0]


def check_layout(mngr, lay, aggs, what):
    for a in aggs:
        ctype = (CTypeStruct if a["kw"] == "struct" else CTypeUnion)(a["name"])
        objc = mngr.get_objc(ctype)
        size, align, fields = lay[a["name"]]
        if (objc.size, objc.align) != (size, align):
            return "%s: %s %s has size %d alignment %d, GCC computes size %d alignment %d" % (what, a["kw"], a["name"], objc.size, objc.align,
                                                                                        size, align)
        seen = {}
        cover = []
        for name, fobj, off, fsize in objc.fields:
            if fsize != fobj.size:
                return "%s: member %s.%s is recorded with size %d but its type has size %d" % (what, a["name"], name, fsize, fobj.size)
            cover.append((off, off + fsize, name))
            if not name.startswith("__PAD__"):
                seen[name] = (off, fsize)
        if seen != fields:
            for k in fields:
                if seen.get(k) != fields[k]:
                    return "%s: member %s.%s is at offset/size %s, GCC computes %s" % (what, a["name"], k, seen.get(k), fields[k])
            return "%s: members of %s are %s, GCC has %s" % (what, a["name"], sorted(seen), sorted(fields))
        if a["kw"] == "struct":
            pos = 0
            for lo, hi, name in sorted(cover):
                if lo != pos:
                    return "%s: members and padding of struct %s do not tile it: %s starts at %d, the previous one ends at %d" % (
                        what, a["name"], name, lo, pos)
                pos = hi
            if pos > size:
                return "%s: members of struct %s end at %d beyond its size %d" % (what, a["name"], pos, size)
    return ""


def kind_of(t):
    while t.kind == "typedef":
        t = t.target
    return t


def gen_path(rng, root, aggs, lay):
    """random access path from `ptr` (pointer to aggregate #root) -> (C text, expected expression, final generator type, is lvalue of
    an aggregate/array (address) or a value (memory))"""
    ptr = ExprId("ptr", 64)
    c = "ptr"
    cur = T("ptr", target=T("agg", index=root))
    val = ptr                    # expression of the VALUE of `c` when cur is scalar / pointer; of its ADDRESS when cur is agg / arr
    for _ in range(rng.randint(1, 6)):
        t = kind_of(cur)
        if t.kind == "ptr":
            tt = kind_of(t.target)
            if tt.kind == "agg":
                a = aggs[tt.index]
                fn, ft = rng.choice(a["fields"])
                c = "%s->%s" % (c, fn) if not c.startswith("*") else "(%s)->%s" % (c, fn)
                addr = ExprOp("+", val, ExprInt(lay[a["name"]][2][fn][0], 64))
                cur = ft
            elif tt.kind == "ptr" or tt.kind in ("leaf", "enum"):
                if rng.random() < 0.5:
                    c = "*(%s)" % c
                    addr = val
                else:
                    i = rng.randrange(4)
                    c = "%s[%d]" % (c, i) if not c.startswith("*") else "(%s)[%d]" % (c, i)
                    addr = ExprOp("+", val, ExprInt(i * size_of(tt, lay, aggs), 64))
                cur = tt
            else:
                break
        elif t.kind == "agg":
            a = aggs[t.index]
            fn, ft = rng.choice(a["fields"])
            c = "%s.%s" % (c, fn) if not c.startswith("*") else "(%s).%s" % (c, fn)
            addr = ExprOp("+", val, ExprInt(lay[a["name"]][2][fn][0], 64))
            cur = ft
        elif t.kind == "arr":
            i = rng.randrange(t.n)
            c = "%s[%d]" % (c, i) if not c.startswith("*") else "(%s)[%d]" % (c, i)
            addr = ExprOp("+", val, ExprInt(i * size_of(t.target, lay, aggs), 64))
            cur = t.target
        else:
            break
        k = kind_of(cur)
        if k.kind in ("agg", "arr"):
            val = addr
        else:
            val = ExprMem(addr, 8 * size_of(k, lay, aggs))
    return c, expr_simp(val), kind_of(cur)


def check_access(rng, mngr, aggs, lay):
    """-> (why, number of paths)"""
    n = 0
    for _ in range(12):
        root = rng.randrange(len(aggs))
        a = aggs[root]
        ctype = (CTypeStruct if a["kw"] == "struct" else CTypeUnion)(a["name"])
        pt = mngr.get_objc(CTypePtr(ctype))
        ptr = ExprId("ptr", 64)
        h = CHandler(mngr, expr_types={ptr: set([pt])}, C_types={"ptr": pt})
        c, want, t = gen_path(rng, root, aggs, lay)
        if c == "ptr":
            continue
        n += 1
        try:
            e, ty = h.c_to_expr_and_type(c)
        except Exception as ex:     # noqa
            return "c_to_expr_and_type(%r) on a pointer to %s %s raises %s: %s" % (c, a["kw"], a["name"], type(ex).__name__, str(ex)[:160]), n
        e = expr_simp(e)
        if e != want:
            return "c_to_expr(%r) is %s, the access GCC's layout gives is %s" % (c, e, want), n
        wsize = size_of(t, lay, aggs)
        wkind = {"ptr": ObjCPtr, "arr": ObjCArray}.get(t.kind)
        if t.kind == "agg":
            wkind = ObjCStruct if aggs[t.index]["kw"] == "struct" else ObjCUnion
        if ty.size != wsize or (wkind is not None and not isinstance(ty, wkind)):
            return "c_to_type(%r) is %s (size %d), the member has size %d and kind %s" % (c, ty, ty.size, wsize, t.kind), n
        try:
            back = h.expr_to_c_and_types(e)
        except Exception as ex:     # noqa
            return "expr_to_c_and_types(%s) (from %r) raises %s: %s" % (e, c, type(ex).__name__, str(ex)[:160]), n
        found = False
        for c2, ty2 in back:
            try:
                e2, ty3 = h.c_to_expr_and_type(c2)
            except Exception as ex:     # noqa
                return "the access %r generated for %s does not parse back: %s: %s" % (c2, e, type(ex).__name__, str(ex)[:160]), n
            if expr_simp(e2) != e:
                return "the access %r generated for %s translates back to %s" % (c2, e, expr_simp(e2)), n
            found = found or ty2 == ty
        # an access that denotes an address (array, aggregate) is compared by expression only: the address of the first member /
        # element of an object is the address of the object, and the enclosing object is what is handed back
        if not found and t.kind not in ("agg", "arr"):
            return "no access generated for %s (from %r, type %s) has that type: %s" % (e, c, ty, sorted((x, str(y)) for x, y in back)), n
    return "", n


class CTypeCases(BoundedContract):
    BOUND = "seeded family of C declaration sets (props/C35.py), GCC x86-64 as the reference on every case"
    CASE_SECONDS = 60

    def funcs(self):
        return [CTypesManager._get_objc, CTypesManager.get_objc, CTypesManagerNotPacked.struct_compute_field_offset,
                CTypesManagerNotPacked.struct_compute_align_size, CTypesManagerNotPacked.union_compute_align_size,
                CTypesManagerPacked.struct_compute_field_offset, CTypesManagerPacked.struct_compute_align_size,
                CTypesManagerPacked.union_compute_align_size, CHandler.c_to_expr_and_type, CHandler.expr_to_c_and_types,
                ExprCToExpr.reduce_op_field, ExprCToExpr.reduce_op_memberof, ExprCToExpr.reduce_op_array, ExprCToExpr.reduce_op_deref,
                ExprToAccessC.cgen_access, ExprToAccessC.reduce_mem, ExprToAccessC.reduce_op, CAstTypes.add_c_decl]

    def cases(self):
        return list(range(300 if self.tier == "quick" else 2500))

    def show(self, case):
        aggs, tds = gen_decls(random.Random(3500 + case))
        return "declarations #%d: %s" % (case, " ".join(text(aggs, tds, False).split()))

    def check(self, case):
        rng = random.Random(3500 + case)
        aggs, tds = gen_decls(rng)
        src = text(aggs, tds, False)
        lay = gcc_layout(aggs, tds, False, "n%d" % case)
        layp = gcc_layout(aggs, tds, True, "p%d" % case)
        try:
            ast = CAstTypes()
            ast.add_c_decl(src)
            mn = CTypesManagerNotPacked(ast, CTypeAMD64_unk())
            mp = CTypesManagerPacked(ast, CTypeAMD64_unk())
            why = check_layout(mn, lay, aggs, "not-packed manager") or check_layout(mp, layp, aggs, "packed manager")
        except Exception as ex:     # noqa
            return (False, "the type manager raises %s: %s" % (type(ex).__name__, str(ex)[:200]), True)
        if why:
            return (False, why, True)
        why, n = check_access(rng, mn, aggs, lay)
        if not why:
            why, n2 = check_access(rng, mp, aggs, layp)
            n += n2
        return (why == "", why, n > 0)


# ---------------------------------------------------------------------------------------------------------------------------------
# Deductive layer (pyvc, unbounded): the three arithmetic helpers every layout goes through, for ALL offsets / sizes

class _Obj(object):
    """stands for an ObjC* member: the helpers only read .align"""
    def __init__(self, align):
        self.align = align


class _NP(CTypesManagerNotPacked):
    def __repr__(self):
        return "<manager (not packed)>"


class _P(CTypesManagerPacked):
    def __repr__(self):
        return "<manager (packed)>"


_STABLE = {CTypesManagerNotPacked: _NP, CTypesManagerPacked: _P}        # a stable repr for the interpreter / CPython differential


def _mk_align_target(cls, align):
    def body(ctx):
        from vc.terms import And
        off = ctx.int("offset", 0, None, rnd_hi=5000)
        m = _STABLE[cls].__new__(_STABLE[cls])
        r = ctx.call(cls.struct_compute_field_offset, m, _Obj(align), off)
        if r.raised:
            ctx.check("no-raise", False, kind="no-raise")
            return
        ctx.cover("ret")
        if cls is CTypesManagerNotPacked:
            # the least multiple of the member's alignment that is not below the running offset
            ctx.check("not-below", r.value >= off)
            ctx.check("least", r.value - off < align)
            ctx.check("aligned", r.value % align == 0)
        else:
            ctx.check("packed-identity", r.value == off)
        size = ctx.int("size", 0, None, rnd_hi=5000)
        r2 = ctx.call(cls.struct_compute_align_size, m, align, size)
        r3 = ctx.call(cls.union_compute_align_size, m, align, size)
        for nm, rr in (("struct", r2), ("union", r3)):
            if rr.raised:
                ctx.check("no-raise-%s" % nm, False, kind="no-raise")
                continue
            a, sz = rr.value
            if cls is CTypesManagerNotPacked:
                ctx.check("%s-align" % nm, a == align)
                ctx.check("%s-size-padded" % nm, And(sz >= size, sz - size < align, sz % align == 0))
            else:
                ctx.check("%s-align-1" % nm, a == 1)
                ctx.check("%s-size-exact" % nm, sz == size)
    return body


def proof_targets():
    from harness.core import Target
    ts = []
    for cls in (CTypesManagerNotPacked, CTypesManagerPacked):
        for align in (1, 2, 4, 8, 16, 32):
            t = Target("C35/%s.layout-arithmetic/align=%d" % (cls.__name__, align),
                       [cls.struct_compute_field_offset, cls.struct_compute_align_size, cls.union_compute_align_size],
                       _mk_align_target(cls, align), params={"align": align})
            t.expect_covers = ["ret"]
            ts.append(t)
    return ts


def targets(tier):
    return proof_targets() + chunked(CTypeCases, "C35/ctype-layout", 16, tier)

