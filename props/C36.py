"""C36 -- IR graph simplification preserves observable behaviour (analysis/simplifier.py, analysis/data_flow.py).

Whole-graph rewriting pipelines (dead code removal, block merging, jump threading, expression propagation, phi clean-up, SSA and
out-of-SSA): an unbounded proof would need a simulation argument per pass.  Stand-in, labelled: the contract of
IRCFGSimplifierCommon.simplify and IRCFGSimplifierSSA.simplify -- the simplified graph has the observable behaviour of the input
graph -- is executed on the REAL pipelines for every program of a seeded family of structured IR graphs; behaviour is judged by an
independent concrete interpreter (props/irsem.py) on several initial states per program."""
import random

from miasm.analysis.data_flow import (DeadRemoval, DelDummyPhi, PropagateExpressions, del_unused_edges, merge_blocks,
                                      remove_empty_assignblks)
from miasm.analysis.simplifier import IRCFGSimplifierCommon, IRCFGSimplifierSSA

from harness.bounded import BoundedContract, chunked
from props import irsem

PROPERTY = {
    "id": "C36",
    "level": "exploration",
    "engine": "bounded-contract",
    "technique": "bounded stand-in: run-time contract check of the real IRCFGSimplifierCommon / IRCFGSimplifierSSA pipelines "
                 "(behaviour preserved, judged by an independent concrete IR interpreter) over a seeded family of structured IR "
                 "graphs and initial states",
    "explanation": "Contract of IRCFGSimplifierCommon(lifter).simplify(ircfg, head) and IRCFGSimplifierSSA(lifter).simplify(ircfg, "
                   "head): executed from the head on any initial state, the returned graph performs the same effective memory "
                   "writes in the same order, reaches the same exit and leaves the same return register and stack pointer at "
                   "that exit as the input graph, each register being read through the variable that stands for it "
                   "(lifter.ssa_var); the pipeline terminates and raises nothing. Executed on the real pipelines for every "
                   "program of a seeded family (1200 quick / 4000 thorough structured graphs: diamonds, counted loops, inner "
                   "back edges, loops through the head, parallel swaps, lost-copy shapes, dead assignments, memory reads and "
                   "writes) on 6 initial states each. Bounded: exploration, not proof.",
    "rule": "one case = one generated IR graph through both pipelines, 6 initial states each",
    "trusted_base": ["CPython executes the real pipelines; the IR interpreter (SPEC's concrete evaluator) and the comparison are "
                     "written independently in props/irsem.py"],
    "assumptions": ["program family of props/irsem.py; a store of the value the cells already hold is not an observation (the "
                    "pipelines drop `x = x` assignments)", "executions longer than 400 assignment blocks of the input graph are "
                    "not compared", "the lifter is the fake analysis lifter of test/analysis/unssa.py (return register r, stack "
                    "pointer sp); calls are not generated"],
}


class SimpCases(BoundedContract):
    BOUND = "seeded family of structured IR graphs (props/irsem.py), both pipelines, 6 initial states each"
    CASE_SECONDS = 60

    def funcs(self):
        return [IRCFGSimplifierCommon.simplify_ircfg, IRCFGSimplifierCommon.do_dead_simp_ircfg, IRCFGSimplifierSSA.simplify,
                IRCFGSimplifierSSA.do_simplify_loop, IRCFGSimplifierSSA.do_propagate_expressions, IRCFGSimplifierSSA.do_dead_simp_ssa,
                DeadRemoval.__call__, DeadRemoval.get_useful_assignments, merge_blocks, remove_empty_assignblks, del_unused_edges,
                PropagateExpressions.propagate, DelDummyPhi.del_dummy_phi]

    def cases(self):
        # ids >= 100000: the family with push / pop / post-increment blocks (a register assigned in the block that uses its old
        # value as an address)
        if self.tier == "quick":
            return list(range(1200)) + list(range(100000, 100400))
        return list(range(4000)) + list(range(100000, 101500))

    def prog(self, case):
        return irsem.gen_program(random.Random(3600 + case), stack=(case >= 100000))

    def show(self, case):
        return "program #%d: %s" % (case, irsem.show_prog(self.prog(case)))

    def check(self, case):
        prog = self.prog(case)
        for name, cls in (("IRCFGSimplifierCommon", IRCFGSimplifierCommon), ("IRCFGSimplifierSSA", IRCFGSimplifierSSA)):
            rng = random.Random(9100 + case)
            lifter, ircfg, locs = irsem.build_ircfg(prog)
            orig = irsem.copy_ircfg(lifter, ircfg)
            head = locs[0]
            simp = cls(lifter)
            try:
                out = simp.simplify(ircfg, head)
            except Exception as ex:     # noqa
                return (False, "%s raises %s: %s" % (name, type(ex).__name__, str(ex)[:200]), True)
            g = out if cls is IRCFGSimplifierSSA else ircfg
            why = irsem.compare(prog, lifter, orig, g, head, rng, what="graph simplified by %s" % name)
            if why:
                return (False, "%s: %s" % (name, why), True)
        return (True, "", True)


def targets(tier):
    return chunked(SimpCases, "C36/simplifier-pipelines", 16, tier)


