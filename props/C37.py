"""C37 -- SSA construction is valid and out-of-SSA preserves behaviour (analysis/ssa.py, analysis/outofssa.py).

Graph-inductive transformations: no unbounded proof is within reach of the home-made verifier.  Stand-in, labelled: contracts on
SSADiGraph.transform (postcondition = the structural definition of SSA form, checked with dominators computed here by node
removal) and on the pair transform / UnSSADiGraph (postcondition = same observable behaviour as the input graph) are executed on
the REAL classes for every program of a seeded family of structured IR graphs (branches, counted loops, loops through the head,
swap and lost-copy shapes, memory reads and writes); behaviour is compared by an independent concrete interpreter on several
initial states per program."""
import random

from miasm.analysis.outofssa import UnSSADiGraph
from miasm.analysis.simplifier import IRCFGSimplifierSSA
from miasm.analysis.ssa import SSADiGraph

from harness.bounded import BoundedContract, chunked
from props import irsem

PROPERTY = {
    "id": "C37",
    "level": "exploration",
    "engine": "bounded-contract",
    "technique": "bounded stand-in: run-time contract check of the real SSADiGraph.transform (structural SSA validity with "
                 "independently computed dominators) and of transform + UnSSADiGraph (behaviour preserved, judged by an "
                 "independent concrete IR interpreter) over a seeded family of structured IR graphs and initial states",
    "explanation": "Contract of SSADiGraph.transform(head): every SSA variable has exactly one definition; the definition of a "
                   "variable used by an ordinary assignment dominates the use (an earlier assignment block of the same block, or "
                   "a strictly dominating block); every argument of a phi is defined in a block that dominates one of the "
                   "predecessors (or is that predecessor), or is an initial value; the blocks and edges of the graph are those "
                   "of the input. Contract of out-of-SSA (ircfg_to_ssa then ssa_to_unssa as IRCFGSimplifierSSA drives them): the "
                   "resulting graph contains no phi and, executed from the head, performs the same memory writes, reaches the "
                   "same exit and leaves the same return register and stack pointer as the input graph. Executed for every "
                   "program of a seeded family (1500 quick / 12000 thorough structured graphs with diamonds, counted loops, "
                   "inner back edges, loops through the head, parallel swaps and lost-copy shapes) on 6 initial states each. "
                   "Bounded: exploration, not proof.",
    "rule": "one case = one generated IR graph: structural contract + behaviour on 6 initial states",
    "trusted_base": ["CPython executes the real classes; dominators (node removal), the IR interpreter (SPEC's concrete evaluator) "
                     "and the contracts are written independently in props/C37.py and props/irsem.py"],
    "assumptions": ["program family of props/irsem.py (<= ~12 blocks, 32-bit registers a b c d r sp, inputs x, memory at constant "
                    "and sp-relative addresses)", "executions longer than 400 assignment blocks of the input graph are not "
                    "compared", "the lifter is the fake analysis lifter of test/analysis/unssa.py (return register r, stack "
                    "pointer sp)"],
}


def dominators(blocks, succ, head):
    """{node: set of dominators} for nodes reachable from head, by node removal"""
    def reach(avoid):
        if head == avoid:
            return set()
        seen = {head}
        todo = [head]
        while todo:
            v = todo.pop()
            for w in succ.get(v, ()):
                if w != avoid and w not in seen:
                    seen.add(w)
                    todo.append(w)
        return seen
    r = reach(None)
    dom = dict((n, {n}) for n in r)
    for d in r:
        rd = reach(d)
        for n in r:
            if n != d and n not in rd:
                dom[n].add(d)
    return dom


def ssa_contract(lifter, ssa, head, immutable):
    g = ssa.graph
    defs = {}
    for lk, blk in g.blocks.items():
        for idx, ab in enumerate(blk):
            for dst in ab:
                if dst.is_id() and dst not in immutable:
                    if dst in defs:
                        return "variable %s is defined twice (%s and %s)" % (dst, defs[dst], (str(lk), idx))
                    defs[dst] = (lk, idx)
    succ = dict((lk, [s for s in g.successors(lk) if s in g.blocks]) for lk in g.blocks)
    pred = dict((lk, [p for p in g.predecessors(lk) if p in g.blocks]) for lk in g.blocks)
    dom = dominators(g.blocks, succ, head)
    for lk, blk in g.blocks.items():
        if lk not in dom:
            continue
        for idx, ab in enumerate(blk):
            for dst, src in ab.items():
                if src.is_op("Phi"):
                    if idx != 0:
                        return "phi for %s is not in the first assignment block of %s" % (dst, lk)
                    for arg in src.args:
                        if not arg.is_id() or arg not in defs:
                            continue        # an initial value
                        dlk = defs[arg][0]
                        if not any(p in dom and dlk in dom[p] for p in pred[lk]):
                            return "phi argument %s of %s (block %s) is not defined on a path from a predecessor" % (arg, dst, lk)
                    continue
                used = set(x for x in src.get_r(mem_read=True) if x.is_id())
                if dst.is_mem():
                    used |= set(x for x in dst.ptr.get_r(mem_read=True) if x.is_id())
                for u in used:
                    if u not in defs:
                        continue            # an input / initial value
                    dlk, didx = defs[u]
                    if dlk == lk:
                        if didx >= idx:
                            return "%s is used in assignment block %d of %s but defined in block %d of it" % (u, idx, lk, didx)
                    elif dlk not in dom[lk]:
                        return "the definition of %s (block %s) does not dominate its use in %s" % (u, dlk, lk)
    return ""


class SsaCases(BoundedContract):
    BOUND = "seeded family of structured IR graphs (props/irsem.py), 6 initial states each"
    CASE_SECONDS = 30

    def funcs(self):
        return [SSADiGraph.transform, SSADiGraph._place_phi, SSADiGraph._rename, SSADiGraph._rename_phi_rhs, SSADiGraph._fix_no_def_var,
                UnSSADiGraph.__init__, IRCFGSimplifierSSA.ircfg_to_ssa, IRCFGSimplifierSSA.ssa_to_unssa]

    def cases(self):
        return list(range(1500 if self.tier == "quick" else 12000))

    def prog(self, case):
        return irsem.gen_program(random.Random(3700 + case), stack=(case % 2 == 1))

    def show(self, case):
        return "program #%d: %s" % (case, irsem.show_prog(self.prog(case)))

    def check(self, case):
        prog = self.prog(case)
        rng = random.Random(9000 + case)
        lifter, ircfg, locs = irsem.build_ircfg(prog)
        orig = irsem.copy_ircfg(lifter, ircfg)
        head = locs[0]
        simp = IRCFGSimplifierSSA(lifter)
        ssa = simp.ircfg_to_ssa(ircfg, head)
        why = ssa_contract(lifter, ssa, head, simp.ssa_forbidden_regs)
        if why:
            return (False, "SSA form: " + why, True)
        g = simp.ssa_to_unssa(ssa, head)
        for blk in g.blocks.values():
            for ab in blk:
                for dst, src in ab.items():
                    if src.is_op("Phi"):
                        return (False, "out-of-SSA left the phi %s = %s" % (dst, src), True)
        why = irsem.compare(prog, lifter, orig, g, head, rng, what="graph after SSA and out-of-SSA")
        return (why == "", why and "out-of-SSA: " + why, True)


def targets(tier):
    return chunked(SsaCases, "C37/ssa-unssa", 16, tier)

