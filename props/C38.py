"""C38 -- Data-flow analyses match their path-based definitions (miasm/analysis/data_flow.py).

ReachingDefinitions, DiGraphDefUse and DiGraphLiveness / DiGraphLivenessIRA are fixpoint computations over arbitrary IR graphs
(same situation as C27): the contracts are the path-based definitions, evaluated by brute-force search over program points
(written here, independently of data_flow.py), and they are executed on the REAL classes for every IR graph of a small scope.
Bounded stand-in, labelled."""
import itertools
import random

from miasm.analysis.data_flow import (AssignblkNode, DiGraphDefUse, DiGraphLiveness, DiGraphLivenessIRA, ReachingDefinitions)
from miasm.core.locationdb import LocationDB
from miasm.expression.expression import ExprCond, ExprId, ExprInt, ExprLoc, ExprMem, ExprOp
from miasm.ir.ir import AssignBlock, IRBlock, IRCFG

from harness.bounded import BoundedContract, chunked

PROPERTY = {
    "id": "C38",
    "level": "exploration",
    "engine": "bounded-contract",
    "technique": "bounded stand-in: run-time contract check of the real ReachingDefinitions / DiGraphDefUse / DiGraphLiveness(IRA) "
                 "(postcondition = path-based definition by brute-force search over program points) over every IR graph of a "
                 "small scope",
    "explanation": "Contract of ReachingDefinitions(ircfg): for every block and every index 0..len(block), the recorded definitions "
                   "of a variable are exactly the assignments (block, index) from which some execution path reaches the point "
                   "without another assignment to the variable. Contract of DiGraphDefUse: an edge (definition of v) -> "
                   "(assignment reading v) exactly when that definition reaches the reading assignment; every assignment is a "
                   "node. Contract of DiGraphLiveness.compute_liveness / DiGraphLivenessIRA (with out registers on the leaves): "
                   "var_in / var_out of every assignment block are exactly the variables that some path from the point reads "
                   "before writing (a read by the leaf's out-register set counting as a read at the end of a leaf). "
                   "Executed on the real classes for every IR graph with <= 3 blocks (quick; 8 bodies x every choice of "
                   "fall-through / conditional / leaving destination per block, including destinations without a block), a "
                   "sampled 4-block family and random 5..6-block graphs in thorough. Bounded: exploration, not proof.",
    "rule": "one case = one IR graph; reaching definitions, def-use links and liveness (with and without out registers) are all "
            "compared with the path-based values; non-trivial = the graph has an edge between two blocks",
    "trusted_base": ["CPython executes the real classes; the path-based definitions are written independently in props/C38.py",
                     "IRCFG.add_irblock derives the edges from IRDst (real code, not under contract here)"],
    "assumptions": ["variables are identifiers (a, b, the condition c, IRDst, ret) and one memory cell @32[a] treated as a "
                    "variable of its own with its pointer counted as read, as AssignBlock.get_r/get_w define it",
                    "<= 3 blocks exhaustive over the body/destination pools (quick), out-degree <= 2 (an IRDst is a location "
                    "or a two-way condition)", "DiGraphLivenessSSA (phi-aware liveness) is not covered"],
}

A, B, C, RET = ExprId("a", 32), ExprId("b", 32), ExprId("c", 32), ExprId("ret", 32)
IRDST = ExprId("IRDst", 32)
MEM = ExprMem(A, 32)
I1, I2 = ExprInt(1, 32), ExprInt(2, 32)

BODIES = [
    [],
    [{A: I1}],
    [{A: B}],
    [{A: A + B}],
    [{B: A}, {A: I1}],
    [{A: B, B: A}],
    [{B: I2}, {A: B}],
    [{A: I1}, {A: B}],
]
BODIES_MORE = BODIES + [
    [{MEM: B}],
    [{B: MEM}, {A: I2}],
    [{C: A}],
    [{A: I1, B: I2}, {C: A + B}],
]


def build(spec):
    """spec: tuple per block of (body index into pool, destination) with destination = None (leaves through `ret`) |
    ('j', k) | ('c', k1, k2); location index >= len(spec) denotes a location without block"""
    db = LocationDB()
    n = len(spec)
    locs = [db.add_location() for _ in range(n + 1)]
    ircfg = IRCFG(IRDST, db)
    progs = []
    for i, (body, dst) in enumerate(spec):
        abs_ = [dict(d) for d in BODIES_MORE[body]]
        if dst is None:
            d = RET
        elif dst[0] == "j":
            d = ExprLoc(locs[dst[1]], 32)
        else:
            d = ExprCond(C, ExprLoc(locs[dst[1]], 32), ExprLoc(locs[dst[2]], 32))
        abs_.append({IRDST: d})
        progs.append(abs_)
    for i, abs_ in enumerate(progs):
        ircfg.add_irblock(IRBlock(db, locs[i], [AssignBlock(d) for d in abs_]))
    return db, locs, ircfg, progs


class Model(object):
    """independent view of the program: reads / writes per assignment block, successor blocks"""

    def __init__(self, spec, progs):
        self.n = len(spec)
        self.progs = progs
        self.succ = {}
        for i, (body, dst) in enumerate(spec):
            if dst is None:
                s = []
            elif dst[0] == "j":
                s = [dst[1]]
            else:
                s = [dst[1], dst[2]]
            self.succ[i] = sorted(set(s))           # may include an index without block (>= n)
        self.rw = {}
        for i, p in enumerate(progs):
            for j, ab in enumerate(p):
                reads, writes = set(), set()
                for d, s in ab.items():
                    writes.add(d)
                    reads |= ids_of(s)
                    if d.is_mem():
                        reads |= ids_of(d.ptr)
                self.rw[(i, j)] = (reads, writes)

    def next_points(self, pt):
        i, j = pt
        if j < len(self.progs[i]):
            return [(i, j + 1)]
        return [(s, 0) for s in self.succ[i] if s < self.n]

    def is_leaf(self, i):
        return not self.succ[i]


def ids_of(e):
    """variables read by evaluating e: identifiers and memory cells (a cell's pointer is read too)"""
    out = set()

    def walk(x):
        if x.is_id():
            out.add(x)
        elif x.is_mem():
            out.add(x)
            walk(x.ptr)
        elif x.is_op() or x.is_compose():
            for y in x.args:
                walk(y)
        elif x.is_cond():
            walk(x.cond), walk(x.src1), walk(x.src2)
        elif x.is_slice():
            walk(x.arg)
    walk(e)
    return out


def spec_reaching(m):
    """{point: {var: set((blk, idx))}}"""
    out = dict(((i, j), {}) for i in range(m.n) for j in range(len(m.progs[i]) + 1))
    for (i, j), (reads, writes) in m.rw.items():
        for v in writes:
            seen = set()
            todo = [(i, j + 1)]
            while todo:
                pt = todo.pop()
                if pt in seen:
                    continue
                seen.add(pt)
                out[pt].setdefault(v, set()).add((i, j))
                bi, bj = pt
                if bj < len(m.progs[bi]) and v in m.rw[(bi, bj)][1]:
                    continue                # redefinition: the path stops carrying this definition
                todo.extend(m.next_points(pt))
    return out


def spec_live(m, out_regs):
    """{point: set(var)}: v live at a point iff some path from it reads v before writing it"""
    vars_ = set()
    for r, w in m.rw.values():
        vars_ |= r | w
    vars_ |= set(out_regs)
    res = {}
    for i in range(m.n):
        for j in range(len(m.progs[i]) + 1):
            live = set()
            for v in vars_:
                seen = set()
                todo = [(i, j)]
                found = False
                while todo and not found:
                    pt = todo.pop()
                    if pt in seen:
                        continue
                    seen.add(pt)
                    bi, bj = pt
                    if bj < len(m.progs[bi]):
                        r, w = m.rw[(bi, bj)]
                        if v in r:
                            found = True
                            break
                        if v in w:
                            continue
                    elif m.is_leaf(bi) and v in out_regs:
                        found = True
                        break
                    todo.extend(m.next_points(pt))
                if found:
                    live.add(v)
            res[(i, j)] = live
    return res


class FakeLifter(object):
    def __init__(self, regs):
        self.regs = set(regs)

    def get_out_regs(self, irblock):
        return set(self.regs)


def check_graph(spec):
    db, locs, ircfg, progs = build(spec)
    m = Model(spec, progs)
    idx = dict((l, i) for i, l in enumerate(locs))
    # ---- reaching definitions ----
    rd = ReachingDefinitions(ircfg)
    want = spec_reaching(m)
    got = {}
    for (lk, j), defs in rd.items():
        got[(idx[lk], j)] = dict((v, set((idx[b], k) for (b, k) in ds)) for v, ds in defs.items() if ds)
    if got != want:
        for pt in sorted(set(got) | set(want)):
            if got.get(pt) != want.get(pt):
                return "ReachingDefinitions at (block %d, index %d) = %s, path-based definition gives %s" % (
                    pt[0], pt[1], show_defs(got.get(pt)), show_defs(want.get(pt)))
    # ---- def-use ----
    for deref in (False, True):
        du = DiGraphDefUse(rd, deref_mem=deref)
        want_nodes = set()
        want_edges = set()
        for (i, j), (reads, writes) in m.rw.items():
            ab = progs[i][j]
            for d, s in ab.items():
                node = (i, j, d)
                want_nodes.add(node)
                r = s.get_r(mem_read=deref)
                if deref and d.is_mem():
                    r = r | d.ptr.get_r(mem_read=True)
                for v in r:
                    for (bi, bj) in want[(i, j)].get(v, ()):
                        want_edges.add(((bi, bj, v), node))
                        want_nodes.add((bi, bj, v))
        got_nodes = set((idx[n.label], n.index, n.var) for n in du.nodes())
        got_edges = set(((idx[a.label], a.index, a.var), (idx[b.label], b.index, b.var)) for a, b in du.edges())
        if got_edges != want_edges or len(du.edges()) != len(got_edges):
            return "DiGraphDefUse(deref_mem=%r) edges %s, definition gives %s" % (deref, show_edges(got_edges), show_edges(want_edges))
        if got_nodes != want_nodes:
            return "DiGraphDefUse(deref_mem=%r) nodes %r, expected %r" % (deref, sorted(map(str, got_nodes)), sorted(map(str, want_nodes)))
    # ---- liveness ----
    for regs in ((), (A,), (A, B)):
        if regs:
            lv = DiGraphLivenessIRA(ircfg)
            lv.init_var_info(FakeLifter(regs))
        else:
            lv = DiGraphLiveness(ircfg)
        lv.compute_liveness()
        wantl = spec_live(m, set(regs))
        for i in range(m.n):
            infos = lv.blocks[locs[i]].infos
            if len(infos) != len(progs[i]):
                return "liveness block %d has %d entries for %d assignment blocks" % (i, len(infos), len(progs[i]))
            for j, info in enumerate(infos):
                if set(info.var_in) != wantl[(i, j)]:
                    return "liveness%s: var_in of (block %d, index %d) = %s, path-based definition gives %s" % (
                        "" if not regs else " with out registers %s" % ",".join(map(str, regs)), i, j,
                        show_set(info.var_in), show_set(wantl[(i, j)]))
                if set(info.var_out) != wantl[(i, j + 1)]:
                    return "liveness%s: var_out of (block %d, index %d) = %s, path-based definition gives %s" % (
                        "" if not regs else " with out registers %s" % ",".join(map(str, regs)), i, j,
                        show_set(info.var_out), show_set(wantl[(i, j + 1)]))
    return None


def show_set(s):
    return "{%s}" % ", ".join(sorted(map(str, s)))


def show_defs(d):
    if d is None:
        return "<missing>"
    return "{%s}" % ", ".join("%s: %s" % (v, sorted(ds)) for v, ds in sorted(d.items(), key=lambda kv: str(kv[0])))


def show_edges(es):
    return "[%s]" % ", ".join("(%d,%d,%s)->(%d,%d,%s)" % (a + b) for a, b in sorted(es, key=str))


def dests(n, extern=True):
    out = [None]
    top = n + 1 if extern else n
    for k in range(top):
        out.append(("j", k))
    for k1 in range(top):
        for k2 in range(k1 + 1, top):
            out.append(("c", k1, k2))
    return out


class FlowCases(BoundedContract):
    BOUND = "IR graphs with <= 3 blocks over the body / destination pools of props/C38.py (thorough: + sampled 4-block and random " \
            "5..6-block graphs)"
    CASE_SECONDS = 10

    def funcs(self):
        return [ReachingDefinitions.compute, ReachingDefinitions.process_block, ReachingDefinitions.process_assignblock,
                DiGraphDefUse._compute_def_use_block, DiGraphLiveness.__init__, DiGraphLiveness.back_propagate_compute,
                DiGraphLiveness.back_propagate_to_parent, DiGraphLiveness.compute_liveness, DiGraphLivenessIRA.init_var_info]

    def cases(self):
        out = []
        nb = len(BODIES)
        for n in (1, 2, 3):
            ds = dests(n, extern=(n < 3))
            per_block = [(b, d) for b in range(nb) for d in ds]
            if n < 3:
                out.extend(itertools.product(per_block, repeat=n))
            else:
                # block 0 takes every body and destination; blocks 1 and 2 every destination with 4 of the bodies (quick)
                small = [(b, d) for b in ((1, 3, 5, 6) if self.tier == "quick" else range(nb)) for d in ds]
                out.extend(itertools.product(per_block, small, small))
        # memory cells and wider bodies on two blocks
        ds = dests(2)
        wide = [(b, d) for b in range(len(BODIES), len(BODIES_MORE)) for d in ds]
        base = [(b, d) for b in range(len(BODIES_MORE)) for d in ds]
        out.extend(itertools.product(wide, base))
        if self.tier == "thorough":
            rng = random.Random(3838)
            for _ in range(60000):
                n = rng.choice((4, 4, 5, 6))
                ds = dests(n)
                out.append(tuple((rng.randrange(len(BODIES_MORE)), rng.choice(ds)) for _ in range(n)))
        return out

    def show(self, case):
        parts = []
        for i, (b, d) in enumerate(case):
            body = " ; ".join("{%s}" % ", ".join("%s=%s" % kv for kv in ab.items()) for ab in BODIES_MORE[b])
            dst = "ret" if d is None else ("goto L%d" % d[1] if d[0] == "j" else "c ? L%d : L%d" % (d[1], d[2]))
            parts.append("L%d: %s ; %s" % (i, body or "-", dst))
        return " | ".join(parts)

    def check(self, case):
        why = check_graph(case)
        nontrivial = any(d is not None for _, d in case)
        return (why is None, why or "", nontrivial)


def targets(tier):
    return chunked(FlowCases, "C38/data-flow", 16, tier)
