"""C39 -- dependency-graph slices are faithful to the program (analysis/depgraph.py).

Whole-graph backward analysis with a symbolic engine and a solver in the loop: no unbounded proof is within reach of the home-made
verifier.  Bounded stand-in, labelled: the contract of DependencyGraph.get / DependencyResult.emul (the slice, evaluated along the
solution's block history, gives the tracked elements the values the FULL blocks give along the same history) and of
DependencyResultImplicit.emul / is_satisfiable (a concrete input satisfies the path constraints exactly when the concrete
execution follows that history) is executed on the REAL classes for every program of a seeded family of loop-free IR graphs, every
solution, and several concrete inputs; the reference values come from an independent concrete IR interpreter."""
import random

from miasm.analysis.depgraph import DependencyGraph, DependencyResult, DependencyResultImplicit
from miasm.expression.expression import ExprId, ExprInt, ExprMem

from harness.bounded import BoundedContract, chunked
from props import irsem
from vc import spec

PROPERTY = {
    "id": "C39",
    "level": "exploration",
    "engine": "bounded-contract",
    "technique": "bounded stand-in: run-time contract check of the real DependencyGraph (explicit and implicit modes) over a seeded "
                 "family of loop-free IR graphs, every solution and several concrete inputs, against an independent concrete IR "
                 "interpreter that evaluates the full blocks along the solution's history",
    "explanation": "For every generated loop-free graph (diamonds, if-then, parallel swaps, lost-copy shapes, memory reads and writes of "
                   "8/16/32 bits at constant and sp-relative addresses), a random program point (block and line) and a random set of "
                   "tracked elements (registers and memory cells): explicit mode -- for every solution of DependencyGraph.get and 4 "
                   "concrete inputs, DependencyResult.emul with the concrete input as context returns, for every tracked element, the "
                   "constant an independent interpreter computes by executing ALL assignments of the blocks of the solution's history, "
                   "in history order, up to the program point; at least one solution exists, and the block sequence of every solution "
                   "is a path of the graph ending at the program point. Implicit mode -- for every solution and input, after emul the "
                   "path constraints are satisfiable exactly when the concrete execution from the head reaches the program point "
                   "through exactly that history, and then the returned values are those of the concrete execution. Bounded: "
                   "exploration, not proof.",
    "rule": "one case = one generated graph, one program point, both modes, 4 inputs",
    "trusted_base": ["CPython and z3 (through miasm's own translator) execute the real classes; the IR interpreter (SPEC's concrete "
                     "evaluator) and the comparisons are written independently in props/C39.py and props/irsem.py"],
    "assumptions": ["seeded loop-free family of props/irsem.py (800 quick / 5000 thorough graphs)", "memory is given to emul as byte "
                    "cells for the address ranges the family uses", "follow_mem=True, follow_call=True, apply_simp=True (defaults)",
                    "a mismatch in a program where a store overlaps a differently shaped read of the same history is attributed to the "
                    "known finding C39-memory-tracked-syntactically"],
}

W = 32
MEM_RANGES = [(0x1000, 0x1014), (0x2000, 0x2004)]


def make_input(rng):
    st = irsem.rand_state(rng)
    return st


def ctx_of(st):
    ctx = {}
    for name, v in st["ids"].items():
        ctx[ExprId(name, W)] = ExprInt(v, W)
    sp = st["ids"]["sp"]
    for lo, hi in MEM_RANGES + [(sp, sp + 0x14)]:
        for a in range(lo, hi):
            ctx[ExprMem(ExprInt(a & 0xFFFFFFFF, W), 8)] = ExprInt(st["mem"](a & 0xFFFFFFFF), 8)
    return ctx


class Machine(object):
    """concrete state + evaluation of assignment blocks (parallel semantics)"""

    def __init__(self, st):
        self.regs = dict(st["ids"])
        self.mem = {}
        self.init_mem = st["mem"]

    def mem_byte(self, addr, aw=None):
        return self.mem[addr] if addr in self.mem else self.init_mem(addr)

    def ev(self, e):
        ids = {}
        for x in e.get_r(mem_read=True):
            if x.is_id():
                ids[(x.name, x.size)] = self.regs[x.name]
        return spec.eval_concrete(e, ids=ids, mem=self.mem_byte)[0]

    def exec_assignblk(self, ab):
        """-> the evaluated IRDst (loc key / int) if the block assigns it"""
        new = []
        dst = None
        for d, s in ab.items():
            if d == irsem.IRDST:
                e = s
                while e.is_cond():
                    e = e.src1 if self.ev(e.cond) != 0 else e.src2
                dst = e
                continue
            if d.is_mem():
                new.append(("mem", self.ev(d.ptr), d.size, self.ev(s)))
            else:
                new.append(("reg", d.name, self.ev(s)))
        for n in new:
            if n[0] == "reg":
                self.regs[n[1]] = n[2]
            else:
                _, addr, size, val = n
                for i in range(size // 8):
                    self.mem[(addr + i) & 0xFFFFFFFF] = (val >> (8 * i)) & 0xFF
        return dst

    def value(self, elt):
        return self.ev(elt)


def exec_history(ircfg, order, line_nb, st):
    """all assignments of the blocks of `order`, in that order, the last one up to line_nb -> (machine, followed): followed tells
    whether the evaluated destination of every block is the next block of the order"""
    m = Machine(st)
    followed = True
    for k, lk in enumerate(order):
        blk = ircfg.blocks[lk]
        last = k == len(order) - 1
        dst = None
        for i, ab in enumerate(blk):
            if last and i >= line_nb:
                break
            d = m.exec_assignblk(ab)
            if d is not None:
                dst = d
        if not last:
            nxt = order[k + 1]
            ok = dst is not None and ((dst.is_loc() and dst.loc_key == nxt) or
                                      (dst.is_int() and ircfg.loc_db.get_offset_location(int(dst)) == nxt))
            followed = followed and ok
    return m, followed


def aliasing(ircfg, order, elts, st):
    """a store of the history blocks whose cell overlaps a memory cell read there (or tracked) without being the same cell:
    DependencyGraph follows memory syntactically (its documented follow_mem behaviour) and does not link the two"""
    m = Machine(st)
    reads, stores = [], []
    for e in elts:
        if e.is_mem():
            reads.append((m.ev(e.ptr), e.size // 8, str(e)))
    for lk in order:
        for ab in ircfg.blocks[lk]:
            for d, s in ab.items():
                for x in list(s.get_r(mem_read=True)) + (list(d.ptr.get_r(mem_read=True)) if d.is_mem() else []):
                    if x.is_mem() and not x.ptr.get_r(mem_read=True) - set([irsem.SP]):
                        reads.append((m.ev(x.ptr), x.size // 8, str(x)))
                if d.is_mem() and not d.ptr.get_r(mem_read=True) - set([irsem.SP]):
                    stores.append((m.ev(d.ptr), d.size // 8, str(d)))
    for sa, sn, ss in stores:
        for ra, rn, rs in reads:
            if (sa, sn) != (ra, rn) and sa < ra + rn and ra < sa + sn:
                return "%s overlaps %s" % (ss, rs)
    return ""


def pick_target(rng, prog, ircfg, locs):
    k = rng.randrange(len(prog))
    if rng.random() < 0.5:
        k = len(prog) - 1 if prog[-1][1] == ("end",) else k
    blk = ircfg.blocks[locs[k]]
    line = rng.randint(0, len(blk))
    regs = [irsem.A, irsem.B, irsem.D, irsem.R, irsem.C]
    elts = set(rng.sample(regs, rng.randint(1, 3)))
    if rng.random() < 0.3:
        elts.add(ExprMem(ExprInt(rng.choice((0x1000, 0x1004, 0x2000)), W), 32))
    return locs[k], line, elts


class DepCases(BoundedContract):
    BOUND = "seeded family of loop-free IR graphs (props/irsem.py), one program point each, both modes, 4 concrete inputs"
    CASE_SECONDS = 60

    def funcs(self):
        return [DependencyGraph.get, DependencyGraph._compute_intrablock, DependencyGraph._track_exprs, DependencyResult.irblock_slice,
                DependencyResult.emul, DependencyResultImplicit.emul, DependencyResultImplicit._gen_path_constraints]

    def cases(self):
        return list(range(800 if self.tier == "quick" else 5000))

    def prog(self, case):
        return irsem.gen_program(random.Random(3900 + case), loops=False)

    def show(self, case):
        prog = self.prog(case)
        lifter, ircfg, locs = irsem.build_ircfg(prog)
        lk, line, elts = pick_target(random.Random(9900 + case), prog, ircfg, locs)
        return "program #%d: %s ; point: %s line %d, elements %s" % (case, irsem.show_prog(prog), ircfg.loc_db.pretty_str(lk), line,
                                                                   sorted(str(e) for e in elts))

    def check(self, case):
        prog = self.prog(case)
        rng = random.Random(9900 + case)
        lifter, ircfg, locs = irsem.build_ircfg(prog)
        head = locs[0]
        target, line, elts = pick_target(rng, prog, ircfg, locs)
        inputs = [make_input(rng) for _ in range(4)]
        name = ircfg.loc_db.pretty_str
        nsol = 0
        for implicit in (False, True):
            dg = DependencyGraph(ircfg, implicit=implicit)
            try:
                sols = list(dg.get(target, set(elts), line, set([head])))
            except Exception as ex:     # noqa
                return (False, "DependencyGraph(implicit=%s).get raises %s: %s" % (implicit, type(ex).__name__, str(ex)[:160]), True)
            if not sols:
                return (False, "DependencyGraph(implicit=%s).get yields no solution for a reachable program point" % implicit, True)
            for sol in sols:
                nsol += 1
                order = list(reversed(sol.history))
                if order[-1] != target:
                    return (False, "the history %s does not end at the program point" % [name(x) for x in order], True)
                for a, b in zip(order, order[1:]):
                    if b not in ircfg.successors(a):
                        return (False, "the history %s is not a path of the graph (%s -> %s)" % ([name(x) for x in order], name(a), name(b)), True)
                for k, st in enumerate(inputs):
                    m, followed = exec_history(ircfg, order, line, st)
                    try:
                        vals = sol.emul(lifter, ctx=ctx_of(st))
                    except Exception as ex:     # noqa
                        return (False, "%s.emul raises %s: %s (history %s)" % (type(sol).__name__, type(ex).__name__, str(ex)[:160],
                                                                           [name(x) for x in order]), True)
                    if implicit:
                        sat = sol.is_satisfiable
                        if sat != followed:
                            al = aliasing(ircfg, order, elts, st)
                            return (False, "implicit mode: the path constraints of the history %s are %s for input #%d (%s), but the "
                                    "concrete execution %s that history%s" % ([name(x) for x in order], "satisfiable" if sat else
                                                                            "unsatisfiable", k, irsem.short(st),
                                                                            "follows" if followed else "does not follow",
                                                                            " [memory tracked syntactically: %s]" % al if al else ""), True)
                        if not followed:
                            continue
                    for e in elts:
                        want = m.value(e)
                        got = vals.get(e)
                        if got is None or not got.is_int() or int(got) != want:
                            tag = " [memory tracked syntactically: %s]" % aliasing(ircfg, order, elts, st) if aliasing(ircfg, order, elts, st) else ""
                            return (False, "%s mode, history %s, input #%d (%s): the slice gives %s = %s, the full blocks give %#x%s" % (
                                "implicit" if implicit else "explicit", [name(x) for x in order], k, irsem.short(st), e, got, want, tag), True)
        return (True, "", nsol > 0)


def targets(tier):
    return chunked(DepCases, "C39/depgraph", 16, tier)

