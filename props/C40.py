"""C40 -- Constant propagation preserves behaviour (analysis/cst_propag.py, ir/symbexec.py: SymbolicState.merge).

An abstract-interpretation fixpoint followed by rewriting: an unbounded proof needs a simulation argument over arbitrary graphs.
Stand-in, labelled: the contract of propagate_cst_expr -- the rewritten graph, started from any state in which each register
holds its initial value, computes the same register values, memory writes and destinations as the original graph -- is executed
on the REAL function for every program of a seeded family of structured IR graphs; behaviour is judged by an independent
concrete interpreter (props/irsem.py) on several initial states per program."""
import random

from miasm.analysis.cst_propag import (SymbExecStateFix, compute_cst_propagation_states, is_expr_cst, propagate_cst_expr)
from miasm.ir.symbexec import SymbolicState

from harness.bounded import BoundedContract, chunked
from props import irsem

PROPERTY = {
    "id": "C40",
    "level": "exploration",
    "engine": "bounded-contract",
    "technique": "bounded stand-in: run-time contract check of the real propagate_cst_expr (behaviour preserved, judged by an "
                 "independent concrete IR interpreter) over a seeded family of structured IR graphs and initial states",
    "explanation": "Contract of propagate_cst_expr(lifter, ircfg, head, regs_init): the function returns normally and the rewritten "
                   "graph, executed from the head on any state in which every register holds its initial value (X_init == X), "
                   "performs the same effective memory writes in the same order, reaches the same exit and leaves the same value "
                   "in every architecture register at that exit as the original graph. Executed on the real function for every "
                   "program of a seeded family (1500 quick / 10000 thorough structured graphs: diamonds, counted loops, loops "
                   "through the head, parallel swaps, memory reads and writes at constant and stack-relative addresses) on 6 "
                   "initial states each. Bounded: exploration, not proof.",
    "rule": "one case = one generated IR graph, 6 initial states",
    "trusted_base": ["CPython executes the real function; the IR interpreter (SPEC's concrete evaluator) and the comparison are "
                     "written independently in props/irsem.py"],
    "assumptions": ["program family of props/irsem.py; a store of the value the cells already hold is not an observation",
                    "executions longer than 400 assignment blocks of the input graph are not compared"],
}


class CstCases(BoundedContract):
    BOUND = "seeded family of structured IR graphs (props/irsem.py), 6 initial states each"
    CASE_SECONDS = 60

    def funcs(self):
        return [propagate_cst_expr, compute_cst_propagation_states, is_expr_cst, SymbExecStateFix.propag_expr_cst,
                SymbExecStateFix.eval_updt_irblock, SymbolicState.merge]

    def cases(self):
        return list(range(1500 if self.tier == "quick" else 10000))

    def prog(self, case):
        return irsem.gen_program(random.Random(4000 + case), stack=(case % 2 == 1))

    def show(self, case):
        return "program #%d: %s" % (case, irsem.show_prog(self.prog(case)))

    def check(self, case):
        prog = self.prog(case)
        rng = random.Random(9400 + case)
        lifter, ircfg, locs = irsem.build_ircfg(prog)
        orig = irsem.copy_ircfg(lifter, ircfg)
        head = locs[0]
        try:
            propagate_cst_expr(lifter, ircfg, lifter.loc_db.get_location_offset(head), dict(lifter.arch.regs.regs_init))
        except Exception as ex:     # noqa
            return (False, "propagate_cst_expr raises %s: %s" % (type(ex).__name__, str(ex)[:200]), True)
        why = irsem.compare(prog, lifter, orig, ircfg, head, rng, what="graph after constant propagation", all_regs=True)
        return (why == "", why, True)


def targets(tier):
    return chunked(CstCases, "C40/constant-propagation", 16, tier)
