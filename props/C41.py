"""C41 -- dynamic symbolic execution stays in step and yields valid new inputs (analysis/dse.py, jitter/emulatedsymbexec.py,
ir/translators/z3_ir.py).

Dynamic symbolic execution of x86 programs under a jitter with a solver in the loop: decided on the real system.  Bounded stand-in,
labelled: for every program of a seeded family of x86-32 programs with input-dependent branches and every initial input, the real
DSEPathConstraint engine attached to the real jitter (extensions compiled from the tree) runs with the input registers and a few
memory bytes symbolized: no DriftException may be raised, the final symbolic state evaluated on the concrete input must equal the
final concrete state, and every new solution it produces for an unexplored branch, replayed on a fresh jitter, must make the
concrete execution follow exactly the recorded path prefix and then take that branch."""
import random

from harness.bounded import BoundedContract, chunked
from props import jitrun

PROPERTY = {
    "id": "C41",
    "level": "exploration",
    "engine": "bounded-contract",
    "technique": "bounded stand-in: run-time check of the real DSEPathConstraint engine on the real jitter (extensions compiled from the "
                 "tree) over a seeded family of x86-32 programs and inputs; every produced solution is replayed on a fresh jitter",
    "explanation": "For every generated program (props/jitrun.py: blocks of ALU / memory / stack instructions ending with conditional "
                   "branches on register comparisons, bounded by a fuel counter; in 60 % of the programs a first branch depends on a table "
                   "entry loaded through an input-dependent index, so its constraint reads memory at a symbolic address) and initial input: the registers EAX EBX ECX EDX "
                   "ESI and 8 bytes of the data page are symbolized, the path-coverage strategy is used. (1) The run raises no "
                   "DriftException (the engine's own check of the concrete parts of its state against the jitter, before every "
                   "instruction) and no other exception; (2) at the end, every general register's symbolic value, with the "
                   "symbols replaced by the concrete input, simplifies to the jitter's concrete value; (3) for every entry of "
                   "new_solutions (key = addresses of the path followed so far + the unexplored destination; value = z3 model), "
                   "the input built from the model (the current input for symbols the model leaves free) is run on a fresh "
                   "jitter in single-step mode, and the sequence of executed addresses must start with exactly that key. Bounded: exploration, not proof.",
    "rule": "one case = one program and input: one DSE run + one replay per produced solution (at most 12)",
    "trusted_base": ["CPython, z3 (through miasm's translator), gcc for the extensions; the replay uses the same jitter concretely; "
                     "generator and comparisons are written in props/jitrun.py / props/C41.py"],
    "assumptions": ["x86-32 guests, python back end; seeded family: 32 quick / 300 thorough programs, fuel 3..8"],
}

SYM_REGS = ["EAX", "EBX", "ECX", "EDX", "ESI"]
SYM_MEM = (jitrun.DATA + 0x100, jitrun.DATA + 0x107)


def setup(code, st):
    b = jitrun.build_exts()
    r = jitrun.Run("python", code, st)
    return r


class DseCases(BoundedContract):
    BOUND = "seeded family of x86-32 programs with input-dependent branches and initial inputs (props/jitrun.py, props/C41.py)"
    CASE_SECONDS = 600

    def funcs(self):
        jitrun.build_exts()
        from miasm.analysis.dse import DSEEngine, DSEPathConstraint, ESETrackModif
        return [DSEEngine._check_state, DSEEngine.callback, DSEEngine.update_state, DSEEngine.symbolize_memory, DSEPathConstraint.handle,
                DSEPathConstraint.produce_solution, DSEPathConstraint.handle_solution, DSEPathConstraint.handle_correct_destination,
                ESETrackModif.mem_read, ESETrackModif.mem_write]

    def cases(self):
        return list(range(32 if self.tier == "quick" else 300))

    def gen(self, case):
        rng = random.Random(4100 + case)
        text = jitrun.gen_body(rng, nblocks=rng.randint(2, 5))
        st = jitrun.init_state(rng)
        st["fuel"] = rng.randint(3, 8)
        if rng.random() < 0.6:
            # a table lookup with an input-dependent index decides a branch: the constraint reads memory at a symbolic address
            # (the table is concrete data; the compared constant is one of its entries, or the last entry with one byte changed)
            tab = jitrun.DATA + 0x120
            entries = [int.from_bytes(st["data"][0x20 + 4 * k:0x24 + 4 * k], "little") for k in range(4)]
            k = rng.randrange(4)
            cst = entries[k] if rng.random() < 0.6 else entries[3] ^ (rng.choice((0x01, 0x80, 0xFF)) << (8 * rng.randrange(4)))
            lookup = ("    MOV ECX, EAX\n    AND ECX, 0x3\n    MOV EDX, DWORD PTR [0x%x + ECX * 0x4]\n    CMP EDX, 0x%x\n    JZ b%d\n" % (
                tab, cst, rng.randrange(2)))
            text = text.replace("b0:\n", lookup + "b0:\n", 1)
        return rng, text, st

    def show(self, case):
        rng, text, st = self.gen(case)
        return "program #%d: %s ; initial %s" % (case, jitrun.show_program(text), dict((k, hex(v)) for k, v in st.items() if isinstance(v, int)))

    def check(self, case):
        jitrun.build_exts()
        import z3
        from miasm.analysis.dse import DriftException, DSEPathConstraint
        from miasm.analysis.machine import Machine
        from miasm.core.interval import interval
        from miasm.expression.expression import ExprId, ExprInt, ExprMem
        from miasm.expression.simplifications import expr_simp
        rng, text, st = self.gen(case)
        code, labels, instrs = jitrun.assemble(text)
        r = jitrun.Run("python", code, st)
        j = r.j
        machine = Machine("x86_32")
        dse = DSEPathConstraint(machine, j.lifter.loc_db, produce_solution=DSEPathConstraint.PRODUCE_SOLUTION_PATH_COV)
        j.cpu.EIP = jitrun.CODE         # attach() takes the symbolic program counter from the cpu
        dse.attach(j)
        dse.update_state_from_concrete()
        regs = dse.lifter.arch.regs
        syms = {}
        for name in SYM_REGS:
            syms[name] = ExprId("IN_" + name, 32)
        dse.update_state(dict((getattr(regs, n), s) for n, s in syms.items()))
        dse.symbolize_memory(interval([SYM_MEM]))
        concrete = dict((syms[n], ExprInt(getattr(j.cpu, n), 32)) for n in SYM_REGS)
        for a in range(SYM_MEM[0], SYM_MEM[1] + 1):
            concrete[dse.memory_to_expr(a)] = ExprInt(j.vm.get_mem(a, 1)[0], 8)
        steps = [0]
        inner = j.exec_cb

        def cb(jj):
            steps[0] += 1
            if steps[0] > 600:
                return False
            return inner(jj)
        j.exec_cb = cb
        try:
            res = r.go()
        except DriftException as ex:
            return (False, "DriftException after %d instructions: %s" % (steps[0], str(ex)[:300]), True)
        except Exception as ex:     # noqa
            import traceback
            tb = traceback.extract_tb(ex.__traceback__)[-1]
            return (False, "the DSE run raises %s: %s (%s:%d)" % (type(ex).__name__, str(ex)[:200], tb.filename.split("/")[-1], tb.lineno), True)
        if res is not False or r.hits != [jitrun.END]:
            return (False, "harness: the DSE run does not reach the return address (result %r, %d steps)" % (res, steps[0]), True)
        # (2) symbolic state on the concrete input
        def load(e):
            # a read the engine left symbolic (input-dependent address): the table it reads is never written by the program
            if e.is_mem() and e.ptr.is_int() and jitrun.DATA + 0x120 <= int(e.ptr) < jitrun.DATA + 0x130:
                return ExprInt(int.from_bytes(j.vm.get_mem(int(e.ptr), e.size // 8), "little"), e.size)
            return e

        for name in ["EAX", "EBX", "ECX", "EDX", "ESI", "EDI", "EBP"]:
            v = expr_simp(dse.eval_expr(getattr(regs, name)).replace_expr(concrete))
            v = expr_simp(expr_simp(v.visit(load)))
            if not v.is_int() or int(v) != getattr(j.cpu, name):
                return (False, "at the end %s is %s symbolically, which gives %s on the concrete input; the jitter has %#x" % (
                    name, str(dse.eval_expr(getattr(regs, name)))[:200], v if not v.is_int() else hex(int(v)), getattr(j.cpu, name)), True)
        # (3) replay of the solutions
        n = 0
        for key, model in list(dse.new_solutions.items())[:12]:
            n += 1
            st2 = dict(st)
            for name in SYM_REGS:
                val = model.eval(dse.z3_trans.from_expr(syms[name]), model_completion=False)
                if z3.is_bv_value(val):
                    st2[name] = val.as_long()
            data = bytearray(st["data"])
            for a in range(SYM_MEM[0], SYM_MEM[1] + 1):
                val = model.eval(dse.z3_trans.from_expr(dse.memory_to_expr(a)), model_completion=False)
                if z3.is_bv_value(val):
                    data[a - (jitrun.DATA + 0x100)] = val.as_long()
            st2["data"] = bytes(data)
            want = []
            for d in key:
                if d.is_loc():
                    want.append(dse.lifter.loc_db.get_location_offset(d.loc_key))
                else:
                    want.append(int(d))
            rr = jitrun.Run("python", code, st2)
            rr.reference_mode()
            rr.go()
            got = rr.trace[:len(want)]
            if got != want:
                i = next((i for i in range(min(len(got), len(want))) if got[i] != want[i]), min(len(got), len(want)))
                return (False, "solution #%d (inputs %s): the concrete run leaves the predicted path at step %d: it goes to %s, the solution "
                        "was produced for %s (%s)" % (n, dict((k, hex(v)) for k, v in st2.items() if k in SYM_REGS), i, got[i:i + 1] and hex(got[i]),
                                                      want[i:i + 1] and hex(want[i]),
                                                      "the unexplored branch itself" if i == len(want) - 1 else "a branch of the recorded prefix"), True)
        return (True, "", n > 0)


def targets(tier):
    return chunked(DseCases, "C41/dse", 16, tier)

