"""C42 -- PE images round-trip through build and parse (loader/pe_init.py, loader/pe.py).

The serialisers are cstruct-metaclass classes over struct / StrPatchwork: outside the Python subset of pyvc.  Bounded stand-in,
labelled: the contract of PE.build_content / PE.parse_content (`PE(bytes(pe))` has the same headers, sections, import and export
tables and relocations), of the address maps (off <-> rva <-> virt are mutually inverse inside sections, virtual writes read
back) and of PE.reloc_to (every relocated 32-bit value moves by exactly the base difference, nothing else changes) is executed on
the REAL loader for every image of a seeded family built through the loader API."""
import random
import struct

from miasm.loader import pe
from miasm.loader.pe_init import PE

from harness.bounded import BoundedContract, chunked

PROPERTY = {
    "id": "C42",
    "level": "exploration",
    "engine": "bounded-contract",
    "technique": "bounded stand-in: run-time contract check of the real PE builder / parser / address maps / reloc_to over a seeded "
                 "family of images built through the loader API",
    "explanation": "For every generated image (32 and 64 bit; 1..4 sections with random sizes, raw sizes, contents and flags; 0..3 "
                   "imported libraries with names and ordinals-free functions, optional explicit first thunks; 0..6 exports; 0..8 "
                   "base relocations over 1..2 pages; random entry point / image base / subsystem) built with PE(), "
                   "SHList.add_section, DirImport.add_dlldesc / set_rva, DirExport.create / add_name / set_rva, DirReloc.add_reloc "
                   "/ set_rva: (1) p2 = PE(bytes(p1)) has the same COFF / optional-header fields, the same sections (name, "
                   "address, size, raw size, flags, data), the same import descriptors (library names, function names, thunk "
                   "RVAs), the same exports (names -> RVAs) and the same relocation set; bytes(p2) == bytes(p1); (2) for every "
                   "section and sampled offsets: off2rva(rva2off(r)) == r, virt2rva(rva2virt(r)) == r, virt2off(rva2virt(r)) == "
                   "rva2off(r), and pe.virt.set / get, pe.rva.set / get read back what was written and change no other byte of "
                   "the image; (3) after reloc_to(new_base) the 32-bit value at every relocation site is the old one plus the base "
                   "difference (mod 2^32), every other section byte is unchanged and the image base is the new one. Bounded: "
                   "exploration, not proof.",
    "rule": "one case = one generated image, all three contracts; plus, shape-bounded SYMBOLIC (pyvc + z3): rva2off / off2rva / "
            "virt2rva / rva2virt / virt2off / off2virt / getsectionbyrva over two aligned disjoint sections with symbolic addresses, "
            "sizes, file offsets and image base are mutually inverse on every file-backed address of a section",
    "trusted_base": ["CPython executes the real loader; the generator and the comparisons are written independently in props/C42.py"],
    "assumptions": ["seeded family of props/C42.py (800 quick / 6000 thorough images)", "relocation sites are 4-byte aligned, "
                    "lie inside section data and do not overlap each other; type 3 (HIGHLOW) only, as reloc_to supports",
                    "resources, delay imports, TLS and certificates are not generated"],
}

NAMES = ["kernel32.dll", "USER32.dll", "a.dll", "msvcrt.dll", "ntdll.dll"]
FUNCS = ["CreateFileA", "WriteFile", "f", "GetMenu", "HideCaret", "ExitProcess", "x_y_z", "A" * 20, "malloc", "free"]


def gen(rng):
    """description of an image (plain data, no loader object)"""
    wsize = rng.choice((32, 32, 64))
    nsec = rng.randint(1, 4)
    secs = []
    for i in range(nsec):
        raw = rng.choice((0x200, 0x400, 0x1000, 0x1200, 0x2000))
        data = bytes(rng.getrandbits(8) for _ in range(rng.choice((1, 16, 0x80, raw // 2, raw))))
        secs.append({"name": rng.choice((".text", ".data", "sec%d" % i, ".rsrc", "UPX0"))[:8], "rawsize": raw, "data": data,
                     "flags": rng.choice((0xE0000020, 0x60000020, 0xC0000040, 0x40000040))})
    imports = []
    for _ in range(rng.choice((0, 1, 1, 2, 3))):
        name = rng.choice(NAMES)
        if name in [x[0] for x in imports]:
            continue
        imports.append((name, rng.sample(FUNCS, rng.randint(1, 4)), rng.random() < 0.4))
    exports = rng.sample(FUNCS, rng.choice((0, 0, 1, 3, 6)))
    nrel = rng.choice((0, 0, 1, 3, 8))
    return {"wsize": wsize, "secs": secs, "imports": imports, "exports": exports, "nrel": nrel,
            "base": rng.choice((0x400000, 0x10000000, 0x140000000 if wsize == 64 else 0x1000000)),
            "entry": rng.randrange(0x10), "rel_seed": rng.getrandbits(32), "new_base": rng.choice((0x500000, 0x20000000, 0x10000, 0x7FFF0000))}


def build(desc):
    p = PE(wsize=desc["wsize"])
    p.NThdr.ImageBase = desc["base"]
    sections = []
    for s in desc["secs"]:
        sections.append(p.SHList.add_section(name=s["name"], rawsize=s["rawsize"], data=s["data"], flags=s["flags"]))
    p.Opthdr.AddressOfEntryPoint = sections[0].addr + desc["entry"]
    if desc["imports"]:
        new_dll = []
        # the import address table lives in zero-filled space of its own (as in example/loader/build_pe.py, where the thunks
        # land in the zero padding of the code section)
        s_iat = p.SHList.add_section(name="iat", rawsize=0x1000)
        for k, (name, funcs, explicit) in enumerate(desc["imports"]):
            # the first descriptor must carry its first thunk (add_dlldesc's documented precondition: "set fthunk")
            new_dll.append(({"name": name, "firstthunk": (s_iat.addr + 0x100 + 0x80 * k) if (explicit or k == 0) else None},
                            list(funcs)))
        p.DirImport.add_dlldesc(new_dll)
        s_imp = p.SHList.add_section(name="myimp", rawsize=0x1000)
        p.DirImport.set_rva(s_imp.addr)
    if desc["exports"]:
        p.DirExport.create(name="me.dll")
        for k, f in enumerate(desc["exports"]):
            p.DirExport.add_name(f, rva=sections[0].addr + 4 * k)
        s_exp = p.SHList.add_section(name="myexp", rawsize=0x1000)
        p.DirExport.set_rva(s_exp.addr)
    rels = []
    if desc["nrel"]:
        rng = random.Random(desc["rel_seed"])
        sec = sections[-1] if len(desc["secs"][-1]["data"]) >= 0x40 else sections[0]
        room = min(sec.rawsize, 0x1800)
        sites = sorted(set(4 * rng.randrange(max(room // 4 - 1, 1)) for _ in range(desc["nrel"])))
        rels = [sec.addr + o for o in sites]
        if p.DirReloc.reldesc is None:
            p.DirReloc.reldesc = []         # a fresh image has no relocation table yet (add_reloc appends to it)
            p.NThdr.optentries[pe.DIRECTORY_ENTRY_BASERELOC].size = 0
        p.DirReloc.add_reloc(list(rels))
        s_rel = p.SHList.add_section(name="myrel", rawsize=0x1000)
        p.DirReloc.set_rva(s_rel.addr)
    return p, rels


def view(p):
    """the structures the statement names, as plain data"""
    out = {}
    out["coff"] = (p.Coffhdr.machine, p.Coffhdr.numberofsections, p.Coffhdr.characteristics)
    out["opt"] = (p.Opthdr.magic, p.Opthdr.AddressOfEntryPoint, p.NThdr.ImageBase, p.NThdr.sectionalignment, p.NThdr.filealignment,
                  p.NThdr.sizeofimage, p.NThdr.sizeofheaders, p.NThdr.subsystem, p.NThdr.numberofrvaandsizes)
    out["dirs"] = tuple((e.rva or 0, e.size or 0) for e in p.NThdr.optentries)
    out["sections"] = tuple(((s.name if isinstance(s.name, bytes) else str(s.name).encode()).rstrip(b"\x00"), s.addr, s.size,
                             s.rawsize, s.offset, s.flags, bytes(s.data)) for s in p.SHList.shlist)
    imps = []
    if p.DirImport.impdesc:
        for d in p.DirImport.impdesc:
            funcs = []
            for f in d.impbynames:
                funcs.append(f.name if hasattr(f, "name") else f)
            imps.append((d.dlldescname.name, d.firstthunk, d.originalfirstthunk, tuple(repr(x) for x in funcs)))
    out["imports"] = tuple(imps)
    exps = []
    if p.DirExport.expdesc is not None:
        for i, e in enumerate(p.DirExport.f_names):
            o = p.DirExport.f_nameordinals[i].ordinal
            nm = e.name.name
            exps.append((nm if isinstance(nm, bytes) else str(nm).encode(), o, p.DirExport.f_address[o].rva))
        exps.append(("<desc>", p.DirExport.expdesc.base, p.DirExport.expdesc.numberoffunctions, p.DirExport.expdesc.numberofnames,
                     p.DirExport.dlldescname.name if isinstance(p.DirExport.dlldescname.name, bytes) else
                     str(p.DirExport.dlldescname.name).encode()))
    out["exports"] = tuple(exps)
    rel = []
    if p.DirReloc.reldesc:
        for r in p.DirReloc.reldesc:
            rel.append((r.rva, tuple(x.rel for x in r.rels)))
    out["relocs"] = tuple(rel)
    return out


def first_diff(a, b):
    for k in a:
        if a[k] != b.get(k):
            if isinstance(a[k], tuple) and isinstance(b.get(k), tuple) and len(a[k]) == len(b[k]):
                for i, (x, y) in enumerate(zip(a[k], b[k])):
                    if x != y:
                        return "%s[%d]: built %s, parsed back %s" % (k, i, short(x), short(y))
            return "%s: built %s, parsed back %s" % (k, short(a[k]), short(b.get(k)))
    return None


def short(x):
    if isinstance(x, tuple):
        x = tuple(("<%d bytes %s..>" % (len(y), y[:8].hex()) if isinstance(y, bytes) and len(y) > 24 else y) for y in x)
    s = repr(x)
    return s if len(s) < 300 else s[:300] + "..."


def check_image(desc):
    try:
        p1, rels = build(desc)
        raw = bytes(p1)
    except Exception as ex:     # noqa
        return "building the image raises %s: %s" % (type(ex).__name__, str(ex)[:200])
    try:
        p2 = PE(raw)
    except Exception as ex:     # noqa
        return "parsing the built image raises %s: %s" % (type(ex).__name__, str(ex)[:200])
    v1, v2 = view(p1), view(p2)
    # the directory tables (import thunks and names, export and relocation tables) are laid out by build_content inside the
    # sections that host them: p1's section DATA predates that, so data is compared between the parsed image and its own
    # re-parse below, and here for the sections that host no table
    hosts = set()
    nuser = len(desc["secs"])
    for k in range(nuser, len(v1["sections"])):
        hosts.add(k)
    v1s = tuple(x[:6] + ((x[6],) if k not in hosts else ()) for k, x in enumerate(v1["sections"]))
    v2s = tuple(x[:6] + ((x[6],) if k not in hosts else ()) for k, x in enumerate(v2["sections"]))
    v1 = dict(v1, sections=v1s)
    d = first_diff(v1, dict(v2, sections=v2s))
    if d:
        return "round trip: " + d
    try:
        p2b = PE(bytes(p2))
    except Exception as ex:     # noqa
        return "parsing the re-serialised image raises %s: %s" % (type(ex).__name__, str(ex)[:200])
    d = first_diff(v2, view(p2b))
    if d:
        return "second round trip: " + d
    try:
        raw2 = bytes(p2)
    except Exception as ex:     # noqa
        return "re-serialising the parsed image raises %s: %s" % (type(ex).__name__, str(ex)[:200])
    if raw2 != raw:
        i = next((k for k in range(min(len(raw), len(raw2))) if raw[k] != raw2[k]), min(len(raw), len(raw2)))
        return "bytes(PE(bytes(pe))) differs from bytes(pe) at offset %#x (lengths %d / %d)" % (i, len(raw), len(raw2))
    # ---- address maps ----
    rng = random.Random(desc["rel_seed"] ^ 0x42)
    for s in p2.SHList.shlist:
        for r in sorted(set([s.addr, s.addr + 1, s.addr + min(s.rawsize, s.size) - 1] + [s.addr + rng.randrange(max(min(s.rawsize, s.size), 1))
                                                                                        for _ in range(3)])):
            if not (s.addr <= r < s.addr + min(s.rawsize, s.size)):
                continue
            off = p2.rva2off(r)
            if p2.off2rva(off) != r:
                return "off2rva(rva2off(%#x)) = %r in section %r" % (r, p2.off2rva(off), s.name)
            v = p2.rva2virt(r)
            if p2.virt2rva(v) != r or p2.virt2off(v) != off or p2.off2virt(off) != v:
                return "virtual / rva / offset maps disagree at rva %#x: virt %#x -> rva %r, off %r, off2virt %r" % (
                    r, v, p2.virt2rva(v), p2.virt2off(v), p2.off2virt(off))
            if not p2.is_in_virt_address(v):
                return "is_in_virt_address(%#x) is false inside section %r" % (v, s.name)
    s = p2.SHList.shlist[0]
    n = min(s.rawsize, s.size)
    if n >= 16:
        before = [bytes(x.data) for x in p2.SHList.shlist]
        o = rng.randrange(n - 8)
        payload = bytes(rng.getrandbits(8) for _ in range(5))
        v = p2.rva2virt(s.addr + o)
        p2.virt.set(v, payload)
        if bytes(p2.virt.get(v, v + 5)) != payload or bytes(p2.rva.get(s.addr + o, s.addr + o + 5)) != payload:
            return "a virtual write of %r at %#x reads back %r" % (payload, v, bytes(p2.virt.get(v, v + 5)))
        after = [bytes(x.data) for x in p2.SHList.shlist]
        want0 = before[0][:o] + payload + before[0][o + 5:]
        if after[0] != want0 or after[1:] != before[1:]:
            return "a 5-byte virtual write at %#x changed other bytes of the image" % v
    # ---- relocation ----
    if rels:
        p3 = PE(raw)
        old = dict((r, struct.unpack("<I", bytes(p3.rva.get(r, r + 4)))[0]) for r in rels)
        snap = [bytearray(bytes(x.data)) for x in p3.SHList.shlist]
        delta = desc["new_base"] - p3.NThdr.ImageBase
        try:
            p3.reloc_to(desc["new_base"])
        except Exception as ex:     # noqa
            return "reloc_to raises %s: %s" % (type(ex).__name__, str(ex)[:200])
        if p3.NThdr.ImageBase != desc["new_base"]:
            return "reloc_to leaves ImageBase %#x" % p3.NThdr.ImageBase
        for r in rels:
            got = struct.unpack("<I", bytes(p3.rva.get(r, r + 4)))[0]
            if got != (old[r] + delta) & 0xFFFFFFFF:
                return "relocated value at rva %#x is %#x, expected %#x + %#x" % (r, got, old[r], delta & 0xFFFFFFFF)
        for k, sec in enumerate(p3.SHList.shlist):
            now = bytearray(bytes(sec.data))
            for r in rels:
                if sec.addr <= r < sec.addr + len(now):
                    now[r - sec.addr:r - sec.addr + 4] = snap[k][r - sec.addr:r - sec.addr + 4]
            if now != snap[k]:
                return "reloc_to changed bytes of section %d that are not relocation sites" % k
    return None


class PeCases(BoundedContract):
    BOUND = "seeded family of images built through the loader API (props/C42.py)"
    CASE_SECONDS = 60

    def funcs(self):
        return [PE.build_content, PE.parse_content, PE.rva2off, PE.off2rva, PE.virt2rva, PE.rva2virt, PE.virt2off, PE.off2virt,
                PE.reloc_to, pe.DirImport.add_dlldesc, pe.DirExport.add_name, pe.DirReloc.add_reloc, pe.SHList.add_section]

    def cases(self):
        return list(range(800 if self.tier == "quick" else 6000))

    def desc(self, case):
        return gen(random.Random(4200 + case))

    def show(self, case):
        d = self.desc(case)
        return "image #%d: %d-bit, sections %s, imports %s, exports %s, %d relocations, base %#x" % (
            case, d["wsize"], [(s["name"], hex(s["rawsize"]), len(s["data"])) for s in d["secs"]],
            [(n, f, e) for n, f, e in d["imports"]], d["exports"], d["nrel"], d["base"])

    def check(self, case):
        why = check_image(self.desc(case))
        return (why is None, why or "", True)


# ---------------------------------------------------------------------------------------------------------------------------------
# Shape-bounded SYMBOLIC layer (pyvc + z3): the address maps of PE over two sections whose addresses, sizes and file offsets are
# symbolic (aligned, disjoint, in order), for every address inside the file-backed part of a section

class _Sec(object):
    def __init__(self, name, addr, size, offset, rawsize):
        self.name, self.addr, self.size, self.offset, self.rawsize = name, addr, size, offset, rawsize

    def __repr__(self):
        return "<section %s>" % self.name


class _Holder(object):
    def __init__(self, **kw):
        self.__dict__.update(kw)

    def __repr__(self):
        return "<holder>"


class _PE(PE):
    def __repr__(self):
        return "<pe>"


def _mk_maps_target(which):
    def body(ctx):
        from vc.terms import And
        a0 = ctx.int("page0", 2, None, rnd_hi=40)
        n0 = ctx.int("size0", 1, None, rnd_hi=0x3000)
        gap = ctx.int("gap_pages", 0, None, rnd_hi=4)
        n1 = ctx.int("size1", 1, None, rnd_hi=0x3000)
        o0 = ctx.int("fblock0", 2, None, rnd_hi=40)
        r0 = ctx.int("rawsize0", 1, None, rnd_hi=0x3000)
        og = ctx.int("fgap_blocks", 0, None, rnd_hi=4)
        r1 = ctx.int("rawsize1", 1, None, rnd_hi=0x3000)
        base = ctx.int("image_base", 0x10000, None, rnd_hi=0x7FFF0000)
        for v in (n0, n1, r0, r1):
            ctx.assume(v <= 0x100000)
        addr0 = 0x1000 * a0
        # the second section starts on the first page boundary after the first one, plus a gap
        pages0 = ctx.int("pages0", 1, None, rnd_hi=4)
        ctx.assume(And(0x1000 * (pages0 - 1) < n0, n0 <= 0x1000 * pages0))
        addr1 = addr0 + 0x1000 * (pages0 + gap)
        off0 = 0x200 * o0
        blocks0 = ctx.int("blocks0", 1, None, rnd_hi=30)
        ctx.assume(And(0x200 * (blocks0 - 1) < r0, r0 <= 0x200 * blocks0))
        off1 = off0 + 0x200 * (blocks0 + og)
        pe = _PE.__new__(_PE)
        secs = [_Sec("s0", addr0, n0, off0, r0), _Sec("s1", addr1, n1, off1, r1)]
        pe.SHList = _Holder(shlist=secs)
        pe.NThdr = _Holder(sectionalignment=0x1000, filealignment=0x200, sizeofheaders=0x400, ImageBase=base)
        k = 0 if which == "first" else 1
        sec = secs[k]
        d = ctx.int("delta", 0, None, rnd_hi=0x3000)
        ctx.assume(And(d < sec.size, d < sec.rawsize))          # an address of the section that has file data behind it
        rva = sec.addr + d
        r = ctx.call(PE.rva2off, pe, rva)
        if r.raised:
            ctx.check("rva2off-no-raise", False, kind="no-raise")
            return
        ctx.cover("ret")
        ctx.check("rva2off-value", r.value == sec.offset + d)
        back = ctx.call(PE.off2rva, pe, r.value)
        ctx.check("off2rva-inverse", (not back.raised) and back.value == rva)
        v = ctx.call(PE.rva2virt, pe, rva)
        ctx.check("rva2virt-value", v.value == base + rva)
        ctx.check("virt2rva-inverse", ctx.call(PE.virt2rva, pe, v.value).value == rva)
        ctx.check("virt2off", ctx.call(PE.virt2off, pe, v.value).value == r.value)
        ctx.check("off2virt", ctx.call(PE.off2virt, pe, r.value).value == v.value)
        hit = ctx.call(PE.getsectionbyrva, pe, rva)
        ctx.check("section-of-rva", hit.value is sec)
    return body


def proof_targets():
    from harness.core import Target
    ts = []
    for which in ("first", "second"):
        t = Target("C42/PE.address-maps/%s-section" % which,
                   [PE.rva2off, PE.off2rva, PE.virt2rva, PE.rva2virt, PE.virt2off, PE.off2virt, PE.getsectionbyrva, PE.getsectionbyoff],
                   _mk_maps_target(which), kind="bounded",
                   bound="two sections, page / file-block aligned, disjoint and in order; addresses, sizes, offsets and the image base symbolic")
        t.expect_covers = ["ret"]
        ts.append(t)
    return ts


def targets(tier):
    return proof_targets() + chunked(PeCases, "C42/pe-roundtrip", 16, tier)


