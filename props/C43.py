"""C43 -- ELF files round-trip through parse and build (loader/elf_init.py, loader/elf.py).

cstruct-metaclass serialisers over struct: outside the Python subset of pyvc.  Bounded stand-in, labelled: the contract of
ELF.parse_content / ELF.build_content -- bytes(ELF(raw)) == raw, and after a section-content change that keeps the size the
re-parsed file has the same sections, segments, symbols, dynamic entries and relocations with the new contents -- is executed on
the REAL loader for every file of a family produced by the local toolchain on every run (gcc on generated C sources: executables,
PIE / non-PIE, shared objects, relocatable objects, several optimisation and debug options) and for same-size mutations of them."""
import hashlib
import os
import random
import shutil
import subprocess
import tempfile

from miasm.loader import elf as elf_csts
from miasm.loader.elf_init import ELF

from harness.bounded import BoundedContract, chunked

PROPERTY = {
    "id": "C43",
    "level": "exploration",
    "engine": "bounded-contract",
    "technique": "bounded stand-in: run-time contract check of the real ELF parser / builder over files produced by the local "
                 "toolchain on every run and over same-size content mutations of them",
    "explanation": "For every ELF of the family (gcc -O0/-O2/-g, executables PIE, non-PIE and static-pie, shared objects, "
                   "relocatable objects, 64- and 32-bit, and clang cross-target objects of both byte orders, from generated C sources with globals, statics, arrays, "
                   "function pointers, string literals and external calls): (1) bytes(ELF(raw)) == raw; (2) after every section is given its own content again through the loader API the file serialises to the "
                   "same bytes and re-parses to the same structures; (3) for a section of the "
                   "file (.data / .rodata / .text / .comment...) whose content is replaced by other bytes of the same length "
                   "through the loader API, e2 = ELF(bytes(e1)) has the same section headers (name, type, flags, address, "
                   "offset, size, link, info, alignment, entry size), the same program headers, the same symbols (name, value, "
                   "size, info, other, section index), dynamic entries and relocations as the original, the new content in the "
                   "mutated section and the original content everywhere else, and bytes(e2) == bytes(e1). Bounded: exploration, "
                   "not proof.",
    "rule": "one case = one (source, compiler options) pair: identity + one same-size mutation per eligible section",
    "trusted_base": ["gcc produces the inputs; CPython executes the real loader; the structural view and the comparisons are "
                     "written independently in props/C43.py"],
    "assumptions": ["executables and shared objects: x86-64 and libc-free i386 only (no cross linker in the sandbox); 32/64-bit big-endian "
                    "and the other little-endian machines (MIPS, PowerPC, AArch64_be, ARM, AArch64, RISC-V) as relocatable objects from "
                    "clang's cross targets", "family: 8 generated sources x 25 option sets (quick: 6 x 15); a (source, options) pair the "
                    "toolchain refuses (libc call with -nostdlib) is counted as not executed"],
}

SOURCES = [
    "int g = 3; static int h[4]; int f(int x) { return x * g + h[x & 3]; } int main(int c, char **v) { return f(c); }",
    "extern int puts(const char *); const char *msg = \"hello\"; static char buf[100] = {1,2,3}; int main(void) { puts(msg); return buf[2]; }",
    "typedef int (*fp)(int); static int a(int x) { return x + 1; } static int b(int x) { return x * 2; } fp tab[2] = {a, b};\n"
    "int run(int i, int x) { return tab[i & 1](x); } int main(int c, char **v) { return run(c, 5); }",
    "struct s { long a; char b; short c[3]; }; struct s gs[3] = {{1, 2, {3, 4, 5}}}; __thread int tls = 7; long sum(void) { long r = tls; "
    "for (int i = 0; i < 3; i++) r += gs[i].a + gs[i].c[i]; return r; } int main(void) { return (int)sum(); }",
    "extern void *malloc(unsigned long); extern void free(void *); int main(int c, char **v) { char *p = malloc(c + 10); p[0] = 1; "
    "int r = p[0]; free(p); return r; } __attribute__((section(\".mysec\"))) int in_my_section[8] = {9, 8, 7};",
    "static const double k = 1.5; double scale(double x) { return x * k; } int w __attribute__((weak)); "
    "int main(void) { return (int)scale(2.0) + w; }",
    # large sections (more than 64 KiB of initialised data, a large table of relocated pointers)
    "char big[70000] = {1, 2, 3}; static const short tab[5000] = {[17] = 5, [4999] = 7}; int sel(int i) { return tab[i % 5000] + big[i % 70000]; }\n"
    "int (*ptrs[600])(int) = {[0 ... 599] = sel}; int main(int c, char **v) { return ptrs[c % 600](c); }",
    # a zero-initialised area of several pages after the file data of its segment
    "char zeros[50000]; static int cnt[3000]; int bump(int i) { cnt[i % 3000]++; return zeros[i % 50000] + cnt[0]; } int main(int c, char **v) { return bump(c); }",
]
OPTIONS = [
    (["gcc", "-O0"], "exe"), (["gcc", "-O2"], "exe"), (["gcc", "-O0", "-g"], "exe"), (["gcc", "-O1", "-no-pie", "-fno-pie"], "exe"),
    (["gcc", "-O2", "-shared", "-fPIC"], "so"), (["gcc", "-O0", "-shared", "-fPIC", "-g"], "so"), (["gcc", "-O2", "-c"], "obj"),
    (["gcc", "-O0", "-c", "-g", "-ffunction-sections", "-fdata-sections"], "obj"),
    # 32-bit little-endian (no 32-bit libc in the sandbox: objects, and libc-free shared objects / executables)
    (["gcc", "-m32", "-O1", "-c"], "obj"), (["gcc", "-m32", "-O0", "-g", "-c"], "obj"),
    (["gcc", "-m32", "-O1", "-nostdlib", "-shared", "-fPIC"], "so"), (["gcc", "-m32", "-O1", "-nostdlib", "-no-pie", "-fno-pie", "-e", "main"], "exe"),
    (["gcc", "-O1", "-nostdlib", "-static-pie", "-e", "main"], "exe"),
    # other classes / byte orders: relocatable objects from clang's cross targets (no cross linker in the sandbox)
    (["clang-14", "--target=mips-linux-gnu", "-O1", "-c"], "obj"), (["clang-14", "--target=mips64-linux-gnuabi64", "-O0", "-g", "-c"], "obj"),
    (["clang-14", "--target=powerpc-linux-gnu", "-O1", "-c"], "obj"), (["clang-14", "--target=powerpc64-linux-gnu", "-O1", "-c"], "obj"),
    (["clang-14", "--target=aarch64_be-linux-gnu", "-O1", "-c"], "obj"), (["clang-14", "--target=arm-linux-gnueabi", "-O1", "-g", "-c"], "obj"),
    (["clang-14", "--target=aarch64-linux-gnu", "-O2", "-c"], "obj"), (["clang-14", "--target=mipsel-linux-gnu", "-O1", "-c"], "obj"),
    (["clang-14", "--target=riscv64-linux-gnu", "-O1", "-c"], "obj"),
    # post-processed by binutils
    (["gcc", "-O1"], "exe+strip"), (["gcc", "-O1", "-shared", "-fPIC"], "so+strip"), (["gcc", "-O1", "-g", "-c"], "obj+strip-debug"),
]
QUICK_OPTIONS = (0, 2, 3, 4, 6, 7, 8, 10, 11, 13, 14, 16, 17, 22, 24)

_DIR = {}


def workdir():
    if _DIR.get("pid") != os.getpid():
        d = tempfile.mkdtemp(prefix="c43_")
        import atexit
        atexit.register(shutil.rmtree, d, True)
        _DIR.update({"pid": os.getpid(), "d": d})
    return _DIR["d"]


def compile_case(si, oi):
    d = workdir()
    src = os.path.join(d, "s%d.c" % si)
    with open(src, "w") as f:
        f.write(SOURCES[si] + "\n")
    out = os.path.join(d, "o%d_%d" % (si, oi))
    opts, kind = OPTIONS[oi]
    p = subprocess.run(opts[:1] + ["-w"] + opts[1:] + ["-o", out, src], stdout=subprocess.PIPE, stderr=subprocess.PIPE)
    if p.returncode != 0:
        return None, p.stderr.decode(errors="replace")[:200]
    if "+" in kind:
        p = subprocess.run(["strip", "--" + kind.split("+")[1].replace("strip", "strip-all").replace("strip-all-debug", "strip-debug"), out],
                           stdout=subprocess.PIPE, stderr=subprocess.PIPE)
        if p.returncode != 0:
            return None, p.stderr.decode(errors="replace")[:200]
    with open(out, "rb") as f:
        return f.read(), None


def name_of(x):
    return x if isinstance(x, (bytes, str)) else repr(x)


def view(e):
    """the structures the statement names, as plain data"""
    out = {}
    eh = e.Ehdr
    out["ehdr"] = tuple(getattr(eh, k) for k in ("type", "machine", "version", "entry", "phoff", "shoff", "flags", "ehsize", "phentsize",
                                                 "phnum", "shentsize", "shnum", "shstrndx"))
    secs = []
    syms = []
    dyn = []
    rels = []
    for s in e.sh:
        sh = s.sh
        secs.append((name_of(sh.name), sh.type, sh.flags, sh.addr, sh.offset, sh.size, sh.link, sh.info, sh.addralign, sh.entsize,
                     hashlib.sha256(bytes(s.content)).hexdigest() if sh.type != elf_csts.SHT_NOBITS else ""))
        cls = type(s).__name__
        if cls in ("SymTable", "DynSymTable"):
            for sym in s.symtab:
                syms.append((cls, name_of(sym.name), sym.value, sym.size, sym.info, sym.other, sym.shndx))
        elif cls == "Dynamic":
            for d in s.dyntab:
                dyn.append((d.type, d.name if isinstance(d.name, int) else name_of(d.name)))
        elif cls in ("RelTable", "RelATable"):
            for r in s.reltab:
                rels.append((name_of(sh.name), r.offset, r.info, getattr(r, "addend", None)))
    out["sections"] = tuple(secs)
    out["symbols"] = tuple(syms)
    out["dynamic"] = tuple(dyn)
    out["relocations"] = tuple(rels)
    out["segments"] = tuple(tuple(getattr(p.ph, k) for k in ("type", "flags", "offset", "vaddr", "paddr", "filesz", "memsz", "align"))
                            for p in e.ph)
    return out


def first_diff(a, b):
    for k in a:
        if a[k] != b.get(k):
            if len(a[k]) == len(b[k]):
                for i, (x, y) in enumerate(zip(a[k], b[k])):
                    if x != y:
                        return "%s[%d]: %r became %r" % (k, i, x, y)
            return "%s: %d entries became %d" % (k, len(a[k]), len(b[k]))
    return None


MUTABLE = (b".data", b".rodata", b".text", b".comment", b".mysec", b".data.rel.ro", b".tdata", ".data", ".rodata", ".text", ".comment",
           ".mysec", ".data.rel.ro", ".tdata")


def check_file(raw, seed):
    try:
        e = ELF(raw)
        out = bytes(e)
    except Exception as ex:     # noqa
        return "parsing / serialising raises %s: %s" % (type(ex).__name__, str(ex)[:200])
    if out != raw:
        i = next((k for k in range(min(len(raw), len(out))) if raw[k] != out[k]), min(len(raw), len(out)))
        return "bytes(ELF(raw)) differs from raw at offset %#x (lengths %d / %d)" % (i, len(out), len(raw))
    base = view(e)
    rng = random.Random(seed)
    # the smallest content change that keeps sizes: every section is given its own content again (tables are re-parsed from it)
    e1 = ELF(raw)
    for idx, s in enumerate(e1.sh):
        if idx == 0:
            continue
        try:
            s.content = bytes(s.content)
        except Exception as ex:     # noqa
            return "giving section %s its own content again raises %s: %s" % (name_of(s.sh.name), type(ex).__name__, str(ex)[:200])
    try:
        raw1 = bytes(e1)
        v1 = view(ELF(raw1))
    except Exception as ex:     # noqa
        return "after giving every section its own content again, serialising / parsing raises %s: %s" % (type(ex).__name__, str(ex)[:200])
    d = first_diff(base, v1)
    if d:
        return "after giving every section its own content again: %s" % d
    if raw1 != raw:
        return "after giving every section its own content again the serialised file differs from the original"
    for idx, s in enumerate(e.sh):
        nm = s.sh.name
        if nm not in MUTABLE or s.sh.type == elf_csts.SHT_NOBITS or s.sh.size == 0:
            continue
        e1 = ELF(raw)
        sec = e1.sh[idx]
        old = bytes(sec.content)
        new = bytes((b ^ rng.choice((0x01, 0x80, 0xFF))) if rng.random() < 0.3 else b for b in old)
        if new == old:
            new = bytes([old[0] ^ 0xFF]) + old[1:]
        try:
            sec.content = new
            raw1 = bytes(e1)
            e2 = ELF(raw1)
        except Exception as ex:     # noqa
            return "changing the content of %s (same size) raises %s: %s" % (name_of(nm), type(ex).__name__, str(ex)[:200])
        if len(raw1) != len(raw):
            return "a same-size content change of %s changed the file length (%d -> %d)" % (name_of(nm), len(raw), len(raw1))
        v2 = view(e2)
        want = dict(base)
        secs = list(base["sections"])
        secs[idx] = secs[idx][:-1] + (hashlib.sha256(new).hexdigest(),)
        want["sections"] = tuple(secs)
        # a table stored in the mutated section itself is allowed to change (none of the mutable sections holds one)
        d = first_diff(want, v2)
        if d:
            return "after a same-size change of %s: %s" % (name_of(nm), d)
        if bytes(e2.sh[idx].content) != new:
            return "the new content of %s does not read back" % name_of(nm)
        if bytes(e2) != raw1:
            return "bytes(ELF(x)) != x for the file with the changed %s" % name_of(nm)
    return None


class ElfCases(BoundedContract):
    BOUND = "ELF files produced by gcc on the sources / option sets of props/C43.py, plus same-size mutations of their sections"
    CASE_SECONDS = 120

    def funcs(self):
        return [ELF.parse_content, ELF.build_content, ELF.__bytes__]

    def cases(self):
        if self.tier == "quick":
            return [(s, o) for s in (0, 1, 3, 4, 6, 7) for o in QUICK_OPTIONS]
        return [(s, o) for s in range(len(SOURCES)) for o in range(len(OPTIONS))]

    def show(self, case):
        s, o = case
        return "%s [%s] on source #%d (%s)" % (" ".join(OPTIONS[o][0]), OPTIONS[o][1], s, SOURCES[s][:60])

    def check(self, case):
        s, o = case
        raw, err = compile_case(s, o)
        if raw is None:
            return (True, "", False)        # the toolchain refuses this combination: no input, nothing to check
        why = check_file(raw, 4300 + 17 * s + o)
        return (why is None, why or "", True)


def targets(tier):
    return chunked(ElfCases, "C43/elf-roundtrip", 8, tier)

