"""C44 -- loading a binary maps its sections and imports faithfully (jitter/loader/pe.py, jitter/loader/elf.py).

The loaders drive the PE / ELF parsers (C42 / C43) and the VmMngr C extension (C24): cross-language, file-format driven, outside the
subset of pyvc.  Bounded stand-in, labelled: the contract of vm_load_pe / preload_pe and vm_load_elf / preload_elf -- every section
(loadable segment) readable at its virtual address, file data then zero padding up to the virtual size, write permission as the
header requests, every resolved import slot holding a stub address that maps back to the imported function -- is executed on the
REAL loaders, with a VmMngr compiled from the tree's C sources on every run, for every image of a seeded family of generated PE
files (aligned and unaligned sections, 32 / 64 bit) and for every executable / shared object of the toolchain family of C43."""
import random
import re
import struct
import subprocess
import os

from miasm.jitter.csts import PAGE_READ, PAGE_WRITE
from miasm.jitter.loader.elf import libimp_elf, preload_elf, vm_load_elf, get_import_address_elf
from miasm.jitter.loader.pe import libimp_pe, preload_pe, vm_load_pe, get_import_address_pe
from miasm.jitter.loader.utils import canon_libname_libfunc, libimp
from miasm.loader import elf as elf_csts
from miasm.loader.elf_init import ELF
from miasm.loader.pe_init import PE

from harness.bounded import BoundedContract, chunked
from props import C24, C42, C43

PROPERTY = {
    "id": "C44",
    "level": "exploration",
    "engine": "bounded-contract",
    "technique": "bounded stand-in: run-time contract check of the real PE / ELF loaders into a VmMngr compiled from the tree's C "
                 "sources, over a seeded family of generated PE images (aligned and unaligned) and the toolchain ELF family of C43",
    "explanation": "PE: for every generated image (C42's generator: 32 / 64 bit, 1..4 sections with random virtual and raw sizes, "
                   "contents and flags, 0..3 imported libraries; sections page aligned or packed at 0x200) loaded with vm_load_pe: "
                   "every byte of every section's virtual extent reads, at image base + RVA, the file data where the section has "
                   "raw data and zero beyond; the page holding it is writable iff the section header has IMAGE_SCN_MEM_WRITE "
                   "(aligned images); the header page holds the first bytes of the file; after preload_pe with a fresh libimp_pe "
                   "every import slot (first thunk + index * word) holds an address a with fad2info[a] == (library base, function "
                   "name), equal to the returned dyn_funcs entry, and distinct imported functions get distinct addresses. ELF: "
                   "for every executable and shared object of C43's toolchain family loaded with vm_load_elf at base 0 and at "
                   "0x10000000: every PT_LOAD segment reads, at base + p_vaddr, its p_filesz file bytes followed by zeros up to "
                   "p_memsz; after preload_elf (base 0, the only base its interface supports) every slot of "
                   "get_import_address_elf holds a stub address that maps back to the symbol name through fad2info, distinct names "
                   "get distinct stubs, and every function `readelf -r` lists with a JUMP_SLOT / GLOB_DAT relocation against an "
                   "undefined symbol has such a slot at one of its relocation offsets. Bounded: exploration, not proof.",
    "rule": "one case = one image: load + preload + all byte / permission / import-slot comparisons",
    "trusted_base": ["CPython and gcc (VmMngr is compiled from the tree's vm_mngr.c / vm_mngr_py.c / bn.c on every run; the ELF "
                     "inputs come from gcc; readelf lists the import relocations); the PE / ELF parsers are used to read the "
                     "reference section tables (their own contracts are C42 / C43); comparisons are written independently in "
                     "props/C44.py"],
    "assumptions": ["family: 500 quick / 3000 thorough PE images, C43's executables and shared objects", "at most 4 imported "
                    "functions per library (the 256-entry stub window is C45's known finding)",
                    "ELF write permissions and unaligned-PE write permissions are known findings (the loaders map read-write)"],
}

IMAGE_SCN_MEM_WRITE = 0x80000000


def new_vm():
    mod, _ = C24.build()
    vm = mod.Vm()
    vm.set_little_endian()
    return vm


def page_access(vm, addr):
    for a, info in vm.get_all_memory().items():
        if a <= addr < a + info["size"]:
            return info["access"]
    return None


# PE ----------------------------------------------------------------------------------------------------------------------------------

def gen_pe(rng):
    desc = C42.gen(rng)
    desc["exports"] = []
    desc["nrel"] = 0
    desc["unaligned"] = rng.random() < 0.35
    desc["vsizes"] = [rng.choice((None, None, 0x10, 0x234, 0x1000, 0x1800, 0x3000)) for _ in desc["secs"]]
    desc["imports"] = [(n, fs[:4], ex) for n, fs, ex in desc["imports"]]
    if desc["imports"] and rng.random() < 0.3:
        # the same function of the same library behind more than one slot: listed twice, or through a second descriptor whose
        # library name differs by case only
        k = rng.randrange(len(desc["imports"]))
        n, fs, ex = desc["imports"][k]
        if rng.random() < 0.5:
            desc["imports"][k] = (n, fs + [rng.choice(fs)], ex)
        else:
            n2 = n.upper() if n.upper() != n else n.lower()
            if n2 != n:
                desc["imports"].append((n2, [rng.choice(fs)] + [f for f in ("Sleep",) if rng.random() < 0.5], rng.random() < 0.4))
    return desc


def build_pe(desc):
    """aligned: sections on 0x1000 boundaries (C42's layout, with virtual sizes of their own).  Unaligned: a low-alignment image
    (SectionAlignment == FileAlignment == 0x200, every section at RVA == file offset), which vm_load_pe maps as one block"""
    p = PE(wsize=desc["wsize"])
    p.NThdr.ImageBase = desc["base"]
    un = desc["unaligned"]
    if un:
        p.NThdr.sectionalignment = 0x200
        p.NThdr.filealignment = 0x200
    al = (lambda a: (a + 0x1FF) & ~0x1FF) if un else (lambda a: (a + 0xFFF) & ~0xFFF)
    addr = 0x2200 if un else 0x2000

    def add(name, **kw):
        if un:
            kw["offset"] = kw["addr"]
        sec = p.SHList.add_section(name=name, **kw)
        if un:
            sec.size = sec.rawsize
        return sec

    for s, vs in zip(desc["secs"], desc["vsizes"]):
        sec = add(s["name"], rawsize=s["rawsize"], data=s["data"], flags=s["flags"], addr=addr)
        if vs is not None and (not un or vs <= sec.rawsize):
            # a virtual size of its own: smaller than the raw data (the tail of the file data is not part of the image) or larger
            # (zero padding)
            sec.size = vs
        addr = al(sec.addr + max(sec.size, sec.rawsize if un else 1, 1))
    if desc["imports"]:
        new_dll = []
        s_iat = add("iat", rawsize=0x1000, addr=addr)
        for k, (name, funcs, explicit) in enumerate(desc["imports"]):
            new_dll.append(({"name": name, "firstthunk": (s_iat.addr + 0x100 + 0x80 * k) if (explicit or k == 0) else None}, list(funcs)))
        p.DirImport.add_dlldesc(new_dll)
        s_imp = add("myimp", rawsize=0x1000, addr=al(s_iat.addr + s_iat.size))
        p.DirImport.set_rva(s_imp.addr)
    p.Opthdr.AddressOfEntryPoint = p.SHList[0].addr
    return bytes(p)


def check_pe(desc):
    raw = build_pe(desc)
    ref = PE(raw)
    base = ref.NThdr.ImageBase
    secs = [(s.name, s.addr, s.size, s.rawsize, s.flags, bytes(s.data)) for s in ref.SHList]
    aligned = all(not (a & 0xFFF) for _, a, _, _, _, _ in secs)
    if aligned == desc["unaligned"]:
        return "harness: the generated image does not have the requested alignment", False
    vm = new_vm()
    known = ""
    try:
        pe = vm_load_pe(vm, raw, name="img")
    except Exception as ex:     # noqa
        return "vm_load_pe raises %s: %s" % (type(ex).__name__, str(ex)[:200]), False
    for name, addr, vsize, rawsize, flags, data in secs:
        want = (data[:vsize] + b"\x00" * max(vsize - len(data), 0))
        try:
            got = vm.get_mem(base + addr, vsize)
        except Exception as ex:     # noqa
            return "section %r: its virtual extent [%#x, %#x) is not readable after loading (%s)" % (name, base + addr, base + addr + vsize,
                                                                                                  str(ex)[:80]), False
        if got != want:
            i = next(k for k in range(vsize) if got[k] != want[k])
            return "section %r (rva %#x, virtual size %#x, %#x bytes of file data): byte at %#x is %#04x, expected %#04x (%s)" % (
                name, addr, vsize, len(data), base + addr + i, got[i], want[i], "file data" if i < len(data) else "zero padding"), False
        acc = page_access(vm, base + addr)
        wr = bool(flags & IMAGE_SCN_MEM_WRITE)
        if acc is None or not acc & PAGE_READ:
            return "section %r is not readable (access %r)" % (name, acc), False
        if bool(acc & PAGE_WRITE) != wr:
            msg = "section %r (flags %#x) is mapped %s although its header %s write access" % (
                name, flags, "writable" if acc & PAGE_WRITE else "read-only", "requests" if wr else "does not request")
            if aligned or wr:
                return msg, False
            known = known or msg        # the one-block mapping of a low-alignment image: reported once every other check has passed
    if aligned:
        hdr = vm.get_mem(base, 0x200)
        if hdr != raw[:0x200]:
            return "the header page does not hold the first bytes of the file", False
    rl = libimp_pe()
    try:
        dyn = preload_pe(vm, pe, rl)
    except Exception as ex:     # noqa
        return "preload_pe raises %s: %s" % (type(ex).__name__, str(ex)[:200]), False
    w = desc["wsize"] // 8
    fmt = "<I" if w == 4 else "<Q"
    stubs = {}
    n = 0
    ref_imps = []
    for d in (ref.DirImport.impdesc or []):
        lib = d.dlldescname.name
        lib = (lib.decode() if isinstance(lib, bytes) else lib).lower()
        for i, f in enumerate(d.impbynames):
            fn = f.name if hasattr(f, "name") else f
            fn = fn.decode() if isinstance(fn, bytes) else fn
            ref_imps.append((lib, fn, base + d.firstthunk + i * w))
    want_names = sorted((l.lower(), f) for l, fs, _ in desc["imports"] for f in fs)
    if sorted((l, f) for l, f, _ in ref_imps) != want_names:
        return "harness: the parsed import table %r is not the generated one %r" % (sorted((l, f) for l, f, _ in ref_imps), want_names), False
    for lib, fn, slot in ref_imps:
        a = struct.unpack(fmt, vm.get_mem(slot, w))[0]
        info = rl.fad2info.get(a)
        if info is None or info != (rl.name2off.get(lib), fn):
            return "import slot %#x of %s!%s holds %#x, which maps back to %r" % (slot, lib, fn, a, info), False
        if dyn.get(canon_libname_libfunc(lib, fn)) != a:
            return "preload_pe reports %r for %s!%s, the slot holds %#x" % (dyn.get(canon_libname_libfunc(lib, fn)), lib, fn, a), False
        if stubs.setdefault(a, (lib, fn)) != (lib, fn):
            return "%s!%s and %s!%s share the stub address %#x" % (stubs[a] + (lib, fn, a)), False
        n += 1
    if known:
        return known, True
    return "", False


# ELF ---------------------------------------------------------------------------------------------------------------------------------

def readelf_imports(path):
    """{symbol name: set of relocation offsets} for JUMP_SLOT / GLOB_DAT relocations, as binutils prints them"""
    out = subprocess.run(["readelf", "-rW", path], stdout=subprocess.PIPE, stderr=subprocess.PIPE).stdout.decode(errors="replace")
    res = {}
    for l in out.splitlines():
        w = l.split()
        if len(w) >= 5 and re.match(r"^[0-9a-f]+$", w[0]) and ("JUMP_SLO" in w[2] or "GLOB_DAT" in w[2] or "JMP_SLOT" in w[2]):
            name = w[4].split("@")[0]
            res.setdefault(name, set()).add(int(w[0], 16))
    return res


def check_elf(case):
    s, o = case
    raw, err = C43.compile_case(s, o)
    if raw is None:
        return None, False
    path = os.path.join(C43.workdir(), "o%d_%d" % (s, o))
    ref = ELF(raw)
    segs = [(p.ph.vaddr, p.ph.offset, p.ph.filesz, p.ph.memsz, p.ph.flags) for p in ref.ph.phlist if p.ph.type == elf_csts.PT_LOAD]
    if not segs:
        return None, False
    known = False
    for base in (0, 0x10000000):
        vm = new_vm()
        try:
            elf = vm_load_elf(vm, raw, name="img", base_addr=base)
        except Exception as ex:     # noqa
            return "vm_load_elf(base_addr=%#x) raises %s: %s" % (base, type(ex).__name__, str(ex)[:200]), False
        for vaddr, off, filesz, memsz, flags in segs:
            want = raw[off:off + filesz] + b"\x00" * (memsz - filesz)
            try:
                got = vm.get_mem(base + vaddr, memsz)
            except Exception as ex:     # noqa
                return "segment at %#x (memsz %#x) is not readable at base %#x (%s)" % (vaddr, memsz, base, str(ex)[:80]), False
            if got != want:
                i = next(k for k in range(memsz) if got[k] != want[k])
                return "segment at %#x (filesz %#x, memsz %#x), base %#x: byte at %#x is %#04x, expected %#04x (%s)" % (
                    vaddr, filesz, memsz, base, base + vaddr + i, got[i], want[i], "file data" if i < filesz else "zero padding"), False
        if base == 0:
            for vaddr, off, filesz, memsz, flags in segs:
                acc = page_access(vm, vaddr)
                # a page shared with a writable segment may be writable
                shared = any((v2 & ~0xFFF) <= vaddr < ((v2 + m2 + 0xFFF) & ~0xFFF) and f2 & 2 for v2, _, _, m2, f2 in segs)
                if acc is not None and acc & PAGE_WRITE and not flags & 2 and not shared:
                    known = "segment at %#x (flags %#x) is mapped writable although its header does not request write access" % (vaddr, flags)
            rl = libimp_elf()
            try:
                _, dyn = preload_elf(vm, elf, rl)
            except Exception as ex:     # noqa
                return "preload_elf raises %s: %s" % (type(ex).__name__, str(ex)[:200]), False
            w = ref.size // 8
            fmt = {4: "<I", 8: "<Q"}[w]
            stubs = {}
            slots = get_import_address_elf(elf)
            for (lib, fn), ads in slots.items():
                for ad in ads:
                    a = struct.unpack(fmt, vm.get_mem(ad, w))[0]
                    info = rl.fad2info.get(a)
                    if info is None or info[1] != fn:
                        return "import slot %#x of %r holds %#x, which maps back to %r" % (ad, fn, a, info), False
                    if stubs.setdefault(a, fn) != fn:
                        return "%r and %r share the stub address %#x" % (stubs[a], fn, a), False
            for fn, offs in readelf_imports(path).items():
                got = slots.get(("xxx", fn), set())
                if not got & offs:
                    return "the imported function %r (relocations at %s) has no resolved slot (slots: %s)" % (
                        fn, sorted(hex(x) for x in offs), sorted(hex(x) for x in got)), False
    if known:
        return known, True
    return "", False


class LoadCases(BoundedContract):
    BOUND = "seeded family of generated PE images (props/C44.py on C42's generator) and C43's toolchain executables / shared objects"
    CASE_SECONDS = 120

    def funcs(self):
        return [vm_load_pe, preload_pe, get_import_address_pe, vm_load_elf, preload_elf, get_import_address_elf, libimp.lib_get_add_base,
                libimp.lib_get_add_func]

    def cases(self):
        n = 500 if self.tier == "quick" else 3000
        elfs = [(s, o) for s in range(len(C43.SOURCES)) for o, (_, kind) in enumerate(C43.OPTIONS) if kind.split("+")[0] in ("exe", "so")]
        if self.tier == "quick":
            elfs = [c for c in elfs if c[0] in (0, 1, 4, 6, 7)]
        return [("pe", i) for i in range(n)] + [("elf",) + c for c in elfs]

    def show(self, case):
        if case[0] == "pe":
            d = gen_pe(random.Random(4400 + case[1]))
            return "PE #%d: %d bit, %s, sections %s, imports %s" % (
                case[1], d["wsize"], "unaligned" if d["unaligned"] else "aligned",
                [(s["name"], hex(s["rawsize"]), len(s["data"]), vs and hex(vs), hex(s["flags"])) for s, vs in zip(d["secs"], d["vsizes"])],
                [(n, f) for n, f, _ in d["imports"]])
        return "ELF: %s [%s] on source #%d" % (" ".join(C43.OPTIONS[case[2]][0]), C43.OPTIONS[case[2]][1], case[1])

    def check(self, case):
        if case[0] == "pe":
            why, known = check_pe(gen_pe(random.Random(4400 + case[1])))
            if why and known:
                return (False, "unaligned PE: " + why, True)
            return (why == "", why, True)
        why, known = check_elf(case[1:])
        if why is None:
            return (True, "", False)
        if why and known:
            return (False, "ELF permissions: " + why, True)
        return (why == "", why, True)


def targets(tier):
    return chunked(LoadCases, "C44/load", 16, tier)

