"""C45 -- Imported functions get distinct, stable stub addresses (miasm/jitter/loader/utils.py: libimp)."""
from miasm.jitter.loader.utils import canon_libname_libfunc, libimp

from harness.core import Target
from vc.terms import And, Eq, Implies, Not, Or

BASE = 0x71111000

PROPERTY = {
    "id": "C45",
    "level": "proof",
    "explanation": "Inductive invariant of libimp proved on the real lib_get_add_func / lib_get_add_base: the table holds two "
                   "libraries; the number of functions registered earlier in each library is a SYMBOLIC integer (the invariant "
                   "speaks about libbase2lastad arithmetically: lastad = base + 4 + 0x10*n), and one arbitrary earlier "
                   "registration per library (symbolic index) stands for all of them. Obligations: a new function gets an "
                   "address inside its library's window, different from every earlier stub of every library, reverse maps "
                   "agree, a repeated request returns the same address and changes nothing.",
    "trusted_base": ["pyvc interpreter + CPython differential", "z3 linear integer arithmetic",
                     "dict/set models keyed by symbolic integers (equality forks)"],
    "assumptions": ["table shape: 2 libraries, one explicit representative registration per library plus a symbolic count of "
                    "others (the invariant is arithmetic, so hundreds of imports are covered without enumerating them)",
                    "library and function names are concrete strings"],
}


def build(ctx):
    """pre-state satisfying the invariant, built field by field"""
    L = libimp()
    L.libbase_ad = BASE + 0x2000
    names = ["liba.dll", "libb.dll"]
    n = [ctx.int("n0", 1, None, rnd_hi=600), ctx.int("n1", 1, None, rnd_hi=600)]
    j = [ctx.int("j0", 0, None, rnd_hi=600), ctx.int("j1", 0, None, rnd_hi=600)]
    reps = []
    for i in range(2):
        b = BASE + 0x1000 * i
        ctx.assume(j[i] < n[i])
        # invariant: every stub handed out so far lies inside its own library's 0x1000 window
        ctx.assume(n[i] <= 256)
        ad = b + 4 + 0x10 * j[i]
        L.name2off[names[i]] = b
        L.fake_libs.add(names[i])
        L.libbase2lastad[b] = b + 4 + 0x10 * n[i]
        L.lib_imp2ad[b] = {"old%d" % i: ad}
        L.lib_imp2dstad[b] = {"old%d" % i: set()}
        cname = canon_libname_libfunc(names[i], "old%d" % i)
        L.fad2cname[ad] = cname
        L.cname2addr[cname] = ad
        L.fad2info[ad] = (b, "old%d" % i)
        reps.append((b, "old%d" % i, ad, cname))
    return L, n, j, reps


def no_raise(ctx, r):
    if r.raised:
        ctx.check("no-raise:%s" % type(r.exc).__name__, False, kind="no-raise")
        return False
    return True


def t_new_func(ctx):
    L, n, j, reps = build(ctx)
    b0 = BASE
    r = ctx.call(libimp.lib_get_add_func, L, b0, "fresh")
    if not no_raise(ctx, r):
        return
    ctx.cover("ret")
    ad = r.value
    ctx.check("in-window", And(b0 + 4 <= ad, ad < b0 + 0x1000))
    ctx.check("distinct-same-lib", ad != reps[0][2])
    ctx.check("distinct-other-lib", ad != reps[1][2])
    ctx.check("cursor", L.libbase2lastad[b0] == b0 + 4 + 0x10 * (n[0] + 1))
    ctx.check("other-cursor-untouched", L.libbase2lastad[BASE + 0x1000] == BASE + 0x1000 + 4 + 0x10 * n[1])
    ctx.check("forward", ctx.equal(L.lib_imp2ad[b0].get("fresh"), ad))
    # reverse maps: the stub maps back to (library, function); earlier stubs keep their owners
    info = ctx.call(dict.get, L.fad2info, ad)
    ctx.check("reverse-info", ctx.equal(info.value, (b0, "fresh")))
    cn = canon_libname_libfunc("liba.dll", "fresh")
    ctx.check("reverse-cname", ctx.equal(ctx.call(dict.get, L.fad2cname, ad).value, cn))
    ctx.check("cname2addr", ctx.equal(L.cname2addr.get(cn), ad))
    for (b, f, a, c) in reps:
        ctx.check("old-info-kept", ctx.equal(ctx.call(dict.get, L.fad2info, a).value, (b, f)))
        ctx.check("old-cname-kept", ctx.equal(ctx.call(dict.get, L.fad2cname, a).value, c))
        ctx.check("old-forward-kept", ctx.equal(L.lib_imp2ad[b].get(f), a))
    # stability: asking again returns the same stub and does not move the cursor
    r2 = ctx.call(libimp.lib_get_add_func, L, b0, "fresh", 0x401000)
    if not no_raise(ctx, r2):
        return
    ctx.check("stable", r2.value == ad)
    ctx.check("stable-cursor", L.libbase2lastad[b0] == b0 + 4 + 0x10 * (n[0] + 1))


def t_existing_func(ctx):
    L, n, j, reps = build(ctx)
    r = ctx.call(libimp.lib_get_add_func, L, BASE + 0x1000, "old1")
    if not no_raise(ctx, r):
        return
    ctx.cover("ret")
    ctx.check("same-address", r.value == reps[1][2])
    ctx.check("cursor-unchanged", L.libbase2lastad[BASE + 0x1000] == BASE + 0x1000 + 4 + 0x10 * n[1])
    ctx.check("tables-unchanged", And(len(L.fad2info) == 2, len(L.fad2cname) == 2, len(L.cname2addr) == 2))


def t_unknown_lib(ctx):
    L, n, j, reps = build(ctx)
    bad = ctx.int("libad", 0, 0xFFFFFFFF)
    ctx.assume(And(bad != BASE, bad != BASE + 0x1000))
    r = ctx.call(libimp.lib_get_add_func, L, bad, "f")
    ctx.cover("ret")
    ctx.check("rejects", r.raised and isinstance(r.exc, ValueError), kind="raises-post")
    ctx.check("unchanged", And(len(L.fad2info) == 2, len(L.lib_imp2ad) == 2), kind="raises-post")


def t_base(ctx):
    L, n, j, reps = build(ctx)
    r = ctx.call(libimp.lib_get_add_base, L, "NewLib.DLL")
    if not no_raise(ctx, r):
        return
    ctx.cover("ret")
    ctx.check("fresh-base", r.value == BASE + 0x2000)
    ctx.check("next-base", L.libbase_ad == BASE + 0x3000)
    ctx.check("cursor", L.libbase2lastad[BASE + 0x2000] == BASE + 0x2000 + 4)
    r2 = ctx.call(libimp.lib_get_add_base, L, "newlib.dll")
    if not no_raise(ctx, r2):
        return
    ctx.check("stable", r2.value == r.value)
    r3 = ctx.call(libimp.lib_get_add_base, L, "liba")
    if not no_raise(ctx, r3):
        return
    ctx.check("existing", r3.value == BASE)
    ctx.check("no-new-lib", L.libbase_ad == BASE + 0x3000)


def targets(tier):
    fns = [libimp.lib_get_add_func, canon_libname_libfunc]
    ts = [Target("C45/libimp.lib_get_add_func/new", fns, t_new_func, min_obligations=10),
          Target("C45/libimp.lib_get_add_func/existing", fns, t_existing_func),
          Target("C45/libimp.lib_get_add_func/unknown-lib", fns, t_unknown_lib),
          Target("C45/libimp.lib_get_add_base", [libimp.lib_get_add_base], t_base)]
    for t in ts:
        t.expect_covers = ["ret"]
    return ts
