"""C46 -- The sandboxed file system never escapes its base directory.

The statement is about os.path, regular expressions and the host file system (symbolic links): modelling them would make a proof
rest on my own axioms of os.path.  Bounded stand-in, labelled: the contract `the returned host path lies inside the base
directory unless a passthrough entry matched` is executed on the REAL functions for every guest path of a small grammar, against
a sandbox layout with symbolic links (to inside and outside targets, absolute and relative, files and directories, chains)
created in a scratch directory."""
import itertools
import os
import re
import shutil
import tempfile

from miasm.os_dep import common
from miasm.os_dep.common import unix_to_sbpath, windows_to_sbpath
from miasm.os_dep.linux.environment import FileSystem

from harness.bounded import BoundedContract, chunked

PROPERTY = {
    "id": "C46",
    "level": "exploration",
    "engine": "bounded-contract",
    "technique": "bounded stand-in: run-time contract check of the real FileSystem.resolve_path / unix_to_sbpath / "
                 "windows_to_sbpath (result inside the sandbox base unless a passthrough entry matches) over an enumerated path "
                 "grammar and a symbolic-link layout on the host file system",
    "explanation": "Contract of FileSystem.resolve_path(path, follow_link): unless the normalised guest path matches a configured "
                   "passthrough entry (then the path is returned unchanged), the returned host path -- with every symbolic link "
                   "on it resolved by the host (os.path.realpath); for follow_link=False the final component is the object "
                   "itself and only its directory is resolved -- lies inside the sandbox base directory; an explicit refusal "
                   "(exception) is accepted. Contract of unix_to_sbpath / windows_to_sbpath: the normalised result is the base "
                   "directory or below it. Executed on the real functions for every guest path of <= 3 (quick) / 4 (thorough) "
                   "components over a pool of 16 component names ('', '.', '..', files, directories and ten symbolic links of "
                   "the layout), absolute and relative, str and bytes, with and without passthrough entries; the Windows mapper "
                   "additionally with backslash / slash / drive-letter forms. Bounded: exploration, not proof.",
    "rule": "one case = one guest path (with its flags) checked against the containment contract; non-trivial = the path contains "
            "a '..' component or a symbolic link of the layout",
    "trusted_base": ["CPython and the host's os.path / symlink semantics (os.path.realpath is the judge of where a host path leads)",
                     "the contract is written independently in props/C46.py"],
    "assumptions": ["path grammar: <= 3/4 components from the pool of props/C46.py", "one symbolic-link layout (props/C46.py: "
                    "make_layout); no link loops", "the Windows / POSIX mappers do no link handling: their contract is textual "
                    "containment after normalisation (the sandbox directory of the Windows environment is prepared by the analyst)"],
}

POOL = ["", ".", "..", "a", "d", "f", "lnk_abs_in", "lnk_abs_out", "lnk_rel_up", "lnk_rel_in", "dlnk_out", "dlnk_up", "chain",
        "chain2", "secret", "zz"]
LINKS = set(x for x in POOL if "lnk" in x or "chain" in x)

_LAYOUT = {}


def make_layout():
    """scratch/base = sandbox, scratch/outside = host files that must stay unreachable"""
    if _LAYOUT.get("pid") == os.getpid():
        return _LAYOUT
    root = os.path.realpath(tempfile.mkdtemp(prefix="c46_"))
    base = os.path.join(root, "base")
    out = os.path.join(root, "outside")
    os.makedirs(os.path.join(base, "d"))
    os.makedirs(out)
    for p in (os.path.join(base, "a"), os.path.join(base, "d", "f"), os.path.join(base, "secret")):
        with open(p, "w") as f:
            f.write("sandboxed")
    with open(os.path.join(out, "secret"), "w") as f:
        f.write("HOST")
    ln = os.symlink
    ln("/d/f", os.path.join(base, "lnk_abs_in"))                       # guest-absolute, inside
    ln(os.path.join(out, "secret"), os.path.join(base, "lnk_abs_out"))  # absolute host path of an outside file
    ln("../../outside/secret", os.path.join(base, "lnk_rel_up"))        # relative, climbs out of the base (from base/ and base/d)
    ln("../../outside/secret", os.path.join(base, "d", "lnk_rel_up"))
    ln("../a", os.path.join(base, "d", "lnk_rel_in"))                   # relative, stays inside
    ln("d/f", os.path.join(base, "lnk_rel_in"))
    ln(out, os.path.join(base, "dlnk_out"))                             # directory link, absolute, outside
    ln("../outside", os.path.join(base, "dlnk_up"))                     # directory link, relative, outside
    ln("lnk_abs_out", os.path.join(base, "chain"))                      # link to a link
    ln("/chain", os.path.join(base, "d", "chain2"))
    ln("/lnk_rel_up", os.path.join(base, "d", "chain"))
    _LAYOUT.update({"pid": os.getpid(), "root": root, "base": base, "out": out})
    import atexit
    atexit.register(shutil.rmtree, root, True)
    return _LAYOUT


def inside(base, p):
    base = os.path.realpath(base)
    return p == base or p.startswith(base + os.sep)


PASSTHROUGH = ["/etc/ld.so.cache", re.compile(r"^/proc/self/.*$")]


class ResolveCases(BoundedContract):
    BOUND = "guest paths of <= 3 (quick) / 4 (thorough) components over 16 names, absolute/relative, str/bytes, follow_link on/off, " \
            "with/without passthrough entries; one symbolic-link layout"
    CASE_SECONDS = 10

    def funcs(self):
        return [FileSystem.resolve_path]

    def cases(self):
        k = 3 if self.tier == "quick" else 4
        out = []
        for n in range(0, k + 1):
            for comps in itertools.product(POOL, repeat=n):
                for absolute in (True, False):
                    p = ("/" if absolute else "") + "/".join(comps)
                    for follow in (True, False):
                        out.append((p, follow, False, False))
                    if n <= 2:
                        out.append((p, True, True, False))
                        out.append((p, True, False, True))
        for p in ("/etc/ld.so.cache", "/proc/self/maps", "/proc/self/../../etc/passwd", "/etc/../etc/ld.so.cache", "etc/ld.so.cache",
                  "/proc/self/../self/maps", "/etc/ld.so.cache/..", "//etc/ld.so.cache", "/proc/selfish"):
            for b in (False, True):
                out.append((p, True, b, True))
        seen, res = set(), []
        for c in out:
            if c not in seen:
                seen.add(c)
                res.append(c)
        return res

    def show(self, case):
        p, follow, as_bytes, passthrough = case
        return "resolve_path(%r, follow_link=%r)%s" % (p.encode() if as_bytes else p, follow,
                                                       " with passthrough entries" if passthrough else "")

    def check(self, case):
        p, follow, as_bytes, passthrough = case
        lay = make_layout()
        fs = FileSystem(lay["base"], None)
        if passthrough:
            fs.passthrough = list(PASSTHROUGH)
        arg = p.encode() if as_bytes else p
        nontrivial = ".." in p or any(x in p for x in LINKS)
        try:
            r = fs.resolve_path(arg, follow_link=follow)
        except (AssertionError, OSError, ValueError) as e:      # explicit refusal: nothing escaped
            return (True, "", nontrivial)
        if isinstance(r, bytes):
            r = r.decode()
        if passthrough:
            n = os.path.normpath(p)
            if n == PASSTHROUGH[0] or PASSTHROUGH[1].match(n):
                return (r == n, "passthrough entry matched but %r was returned" % (r,), True)
        if not os.path.isabs(r):
            return (False, "returns the relative host path %r (resolved against the host's working directory)" % (r,), nontrivial)
        if follow:
            real = os.path.realpath(r)
        else:
            real = os.path.join(os.path.realpath(os.path.dirname(r)), os.path.basename(r)) if os.path.basename(r) else \
                os.path.realpath(r)
            real = os.path.normpath(real)
        if not inside(lay["base"], real):
            return (False, "returns %r which leads to %r, outside the base %r" % (r, real, lay["base"]), nontrivial)
        return (True, "", nontrivial)


WPOOL = ["", ".", "..", "a", "Dir", "c:", "etc"]


class MapperCases(BoundedContract):
    BOUND = "guest paths of <= 4 components over 7 names; POSIX: absolute/relative; Windows: backslash, slash and mixed separators"
    CASE_SECONDS = 10

    def funcs(self):
        return [unix_to_sbpath, windows_to_sbpath]

    def cases(self):
        out = []
        k = 4 if self.tier == "quick" else 5
        for n in range(0, k + 1):
            for comps in itertools.product(WPOOL, repeat=n):
                for absolute in (True, False):
                    out.append(("unix", ("/" if absolute else "") + "/".join(comps)))
                    out.append(("windows", ("\\" if absolute else "") + "\\".join(comps)))
                    if n <= 3:
                        out.append(("windows", ("/" if absolute else "") + "/".join(comps)))
                        out.append(("windows", "\\".join(comps[:1]) + "/" + "\\".join(comps[1:])))
        seen, res = set(), []
        for c in out:
            if c not in seen:
                seen.add(c)
                res.append(c)
        return res

    def show(self, case):
        return "%s_to_sbpath(%r)" % case

    def check(self, case):
        kind, p = case
        fn = unix_to_sbpath if kind == "unix" else windows_to_sbpath
        r = fn(p)
        base = os.path.normpath(common.BASE_SB_PATH)
        n = os.path.normpath(r)
        ok = (n == base or n.startswith(base + os.sep))
        return (ok, "returns %r which normalises to %r, outside the base %r" % (r, n, base), ".." in p)


def targets(tier):
    return chunked(ResolveCases, "C46/FileSystem.resolve_path", 12, tier) + chunked(MapperCases, "C46/sbpath-mappers", 4, tier)
