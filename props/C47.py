"""C47 -- Emulated OS helper functions return the documented results (win_api_x86_32.py, os_dep/common.py)."""
import itertools
import time

from miasm.os_dep import win_api_x86_32 as W
from miasm.os_dep import common as OC

from contracts.mocks import Args
from harness.core import Target
from vc.terms import And, Eq, Implies, Ite, Not, Or

M32 = 0xFFFFFFFF
M64 = (1 << 64) - 1

PROPERTY = {
    "id": "C47",
    "level": "proof",
    "explanation": "Numeric helpers (RtlLargeIntegerAdd/Subtract/ShiftRight, RtlExtendedIntegerMultiply, "
                   "RtlEnlargedUnsignedMultiply): proved from the real source for ALL 32-bit argument values (integer encoding): "
                   "the two returned words are the low/high halves of the 64-bit modular result. Memory helpers "
                   "(RtlCompareMemory, msvcrt_memcmp/memcpy/memset): symbolic byte contents, buffer length <= 3 (bounded "
                   "targets). String helpers (lstrlen/lstrcmp/lstrcpy/lstrcpyn/lstrcat A and W, msvcrt_strlen): they decode "
                   "through Python codecs, which the verifier does not model -- bounded run-time contract check over every "
                   "memory image of <= 4 characters from a small alphabet against a C-string reference (labelled bounded).",
    "trusted_base": ["pyvc interpreter + CPython differential", "z3 integer arithmetic",
                     "jitter.func_args_stdcall/func_ret_stdcall and vm.get_mem/set_mem are interfaces with assumed contracts "
                     "(ghost objects below)"],
    "assumptions": ["stack arguments are 32-bit unsigned words", "RtlLargeIntegerShiftRight: logical shift of the unsigned "
                    "64-bit value (counts >= 64 give 0)", "string helpers: alphabet {NUL, 'A', 'a', 'b', 0xE9}, lengths <= 4"],
}


class GJ(object):
    """ghost jitter: hands out the arguments, records the results, serves memory from a byte map"""

    def __init__(self, ret_ad, values, mem=None):
        self.ret_ad = ret_ad
        self.values = values
        self.rets = []
        self.vm = GVm(mem or {})

    def func_args_stdcall(self, names):
        a = Args()
        i = 0
        for n in names:
            setattr(a, n, self.values[i])
            i += 1
        return self.ret_ad, a

    func_args_cdecl = func_args_stdcall

    def func_ret_stdcall(self, ret_ad, ret1=None, ret2=None):
        self.rets.append((ret_ad, ret1, ret2))

    func_ret_cdecl = func_ret_stdcall


class GVm(object):
    def __init__(self, regions):
        self.regions = regions      # addr -> bytes-like (concrete addresses)
        self.writes = []

    def get_mem(self, addr, size):
        for base in self.regions:
            data = self.regions[base]
            if base <= addr and addr + size <= base + len(data):
                return data[addr - base:addr - base + size]
        raise RuntimeError("Cannot find address")

    def set_mem(self, addr, data):
        self.writes.append((addr, data))


def words(ctx, names):
    return [ctx.int(n, 0, M32) for n in names]


def one_ret(ctx, j):
    ctx.check("one-result", len(j.rets) == 1)
    if len(j.rets) != 1:
        return None
    ctx.check("returns-to-caller", j.rets[0][0] == j.ret_ad)
    return j.rets[0][1], j.rets[0][2]


def t_numeric(fn, names, ref):
    def body(ctx):
        vals = words(ctx, names)
        j = GJ(ctx.int("ret_ad", 0, M32), vals)
        r = ctx.call(fn, j)
        ctx.cover("ret")
        if r.raised:
            ctx.check("no-raise:%s" % type(r.exc).__name__, False, kind="no-raise")
            return
        rr = one_ret(ctx, j)
        if rr is None:
            return
        want = ref(*vals) % (1 << 64)
        ctx.check("low-word", rr[0] == want % (1 << 32))
        ctx.check("high-word", rr[1] == want // (1 << 32))
    return body


NUMERIC = [
    (W.ntdll_RtlLargeIntegerAdd, ['a_low', 'a_high', 'b_low', 'b_high'], lambda al, ah, bl, bh: (ah * (1 << 32) + al) + (bh * (1 << 32) + bl)),
    (W.ntdll_RtlLargeIntegerSubtract, ['a_low', 'a_high', 'b_low', 'b_high'], lambda al, ah, bl, bh: (ah * (1 << 32) + al) - (bh * (1 << 32) + bl)),
    (W.ntdll_RtlExtendedIntegerMultiply, ['multiplicand_low', 'multiplicand_high', 'multiplier'], lambda l, h, m: (h * (1 << 32) + l) * m),
    (W.ntdll_RtlEnlargedUnsignedMultiply, ['a', 'b'], lambda a, b: a * b),
]


def t_shift(ctx):
    al, ah, s = words(ctx, ['a_low', 'a_high', 's_count'])
    j = GJ(ctx.int("ret_ad", 0, M32), [al, ah, s])
    r = ctx.call(W.ntdll_RtlLargeIntegerShiftRight, j)
    ctx.cover("ret")
    if r.raised:
        ctx.check("no-raise:%s" % type(r.exc).__name__, False, kind="no-raise")
        return
    rr = one_ret(ctx, j)
    if rr is None:
        return
    a = ah * (1 << 32) + al
    for k in range(0, 65):
        want = (a >> k) if k < 64 else 0
        cond = (s == k) if k < 64 else (s >= 64)
        ctx.check("shift-value", Implies(cond, And(rr[0] == want % (1 << 32), rr[1] == (want >> 32) % (1 << 32))))


def mk_buf(ctx, name, n):
    return [ctx.int("%s%d" % (name, i), 0, 255) for i in range(n)]


def t_compare_memory(n, fn):
    def body(ctx):
        a, b = mk_buf(ctx, "a", n), mk_buf(ctx, "b", n)
        m_len = ctx.choose(n + 1, "m_len")
        j = GJ(0x1000, [0x100, 0x200, m_len], {0x100: ctx.mk_bytes(list(a)), 0x200: ctx.mk_bytes(list(b))})
        r = ctx.call(fn, j)
        ctx.cover("ret")
        if r.raised:
            ctx.check("no-raise:%s" % type(r.exc).__name__, False, kind="no-raise")
            return
        rr = one_ret(ctx, j)
        if rr is None:
            return
        if fn is W.ntdll_RtlCompareMemory:
            # length of the common prefix
            want = 0
            for k in range(m_len - 1, -1, -1):
                want = Ite(a[k] == b[k], want + 1 if False else want, want)
            pre = m_len
            for k in range(m_len - 1, -1, -1):
                pre = Ite(a[k] == b[k], pre, k)
            ctx.check("common-prefix-length", rr[0] == pre)
        else:
            # memcmp: sign of the first differing byte
            res = 0
            for k in range(m_len - 1, -1, -1):
                res = Ite(a[k] == b[k], res, Ite(a[k] < b[k], -1, 1))
            v = rr[0]
            ctx.check("memcmp-sign", And(Eq(v == 0, res == 0), Eq(v < 0, res < 0)))
    return body


def t_memcpy(n):
    def body(ctx):
        a = mk_buf(ctx, "a", n)
        size = ctx.choose(n + 1, "size")
        dst = ctx.int("dst", 0, M32)
        j = GJ(0x1000, [dst, 0x100, size], {0x100: ctx.mk_bytes(list(a))})
        r = ctx.call(W.msvcrt_memcpy, j)
        ctx.cover("ret")
        if r.raised:
            ctx.check("no-raise:%s" % type(r.exc).__name__, False, kind="no-raise")
            return
        rr = one_ret(ctx, j)
        ctx.check("one-write", len(j.vm.writes) == 1)
        if rr is None or len(j.vm.writes) != 1:
            return
        ad, data = j.vm.writes[0]
        got = ctx.byte_list(data)
        ctx.check("copies-exactly", And(ad == dst, len(got) == size, *[Eq(x, y) for x, y in zip(got, a[:size])]))
        ctx.check("returns-dst", rr[0] == dst)
    return body


def t_memset(fn):
    def body(ctx):
        c = ctx.int("c", 0, 255)
        size = ctx.choose(5, "size")
        dst = ctx.int("dst", 0, M32)
        j = GJ(0x1000, [dst, c, size])
        r = ctx.call(fn, j)
        ctx.cover("ret")
        if r.raised:
            ctx.check("no-raise:%s" % type(r.exc).__name__, False, kind="no-raise")
            return
        rr = one_ret(ctx, j)
        ctx.check("one-write", len(j.vm.writes) == 1)
        if rr is None or len(j.vm.writes) != 1:
            return
        ad, data = j.vm.writes[0]
        got = ctx.byte_list(data)
        ctx.check("fills", And(ad == dst, len(got) == size, *[Eq(x, c) for x in got]))
        ctx.check("returns-dst", rr[0] == dst)
    return body


# ------------------------------------------------------------------------------------------------------
# string helpers: bounded run-time contract check
# ------------------------------------------------------------------------------------------------------
ALPHA = [0x00, 0x41, 0x61, 0x62, 0xE9]


def cstr(mem, off=0):
    out = bytearray()
    while off < len(mem) and mem[off] != 0:
        out.append(mem[off])
        off += 1
    return bytes(out)


def wcstr(mem, off=0):
    out = []
    while off + 1 < len(mem) and (mem[off] or mem[off + 1]):
        out.append(mem[off] | (mem[off + 1] << 8))
        off += 2
    return out


def sign(x):
    return (x > 0) - (x < 0)


class StringHelpers(object):
    kind = "bounded"

    def __init__(self, tier):
        self.id = "C47/string-helpers(runtime, bounded)"
        self.tier = tier
        self.min_obligations = 1
        self.params = {}
        self.bound = "memory images of <= 4 characters over {NUL,'A','a','b',0xE9}"
        self.failures = []

    def run_case(self, name, fn, args, regions):
        j = GJ(0x1000, args, dict((k, bytes(v)) for k, v in regions.items()))
        try:
            fn(j)
        except Exception as e:      # noqa
            return ("raise", type(e).__name__, str(e)[:80]), j
        if len(j.rets) != 1:
            return ("rets", len(j.rets)), j
        return ("ret", j.rets[0][1]), j

    def cases(self):
        L = 3 if self.tier == "quick" else 4
        imgs = []
        for n in range(1, L + 1):
            for body in itertools.product(ALPHA[1:], repeat=n - 1):
                imgs.append(bytes(body) + b"\x00")
        return imgs

    def run_custom(self, findings, seed):
        from vc import loader
        t0 = time.time()
        res = {"id": self.id, "kind": "bounded", "params": {}, "bound": self.bound, "functions": [], "paths": 0,
               "obligations": 0, "discharged": 0, "refuted": [], "undecided": [], "unsupported": None, "engine_error": None,
               "known": [], "backends": {}, "samples": [], "solver_time": 0.0, "covers": [], "extra_coverage": {}}
        fns = [W.kernel32_lstrlenA, W.kernel32_lstrlenW, W.kernel32_lstrcmpA, W.kernel32_lstrcmpW, W.kernel32_lstrcpyA,
               W.kernel32_lstrcpyW, W.kernel32_lstrcpyn, W.kernel32_lstrcatA, W.msvcrt_strlen, W.my_lstrcmp, W.my_strcpy,
               W.my_strlen, W.my_lstrcat, OC.get_win_str_a, OC.get_win_str_w, OC.set_win_str_a, OC.set_win_str_w, W.msvcrt_wcslen,
               W.msvcrt_wcscpy, W.msvcrt__mbscpy, W.kernel32_lstrcpyW, W.msvcrt_wcsncpy, W.msvcrt_wcscmp, W.kernel32_lstrcmpW,
               W.msvcrt_wcscat, W.kernel32_lstrcatW, W.ntdll_RtlComputeCrc32]
        for f in fns:
            try:
                h = loader.func_text_hash(f)
                h["name"] = "%s:%s" % (f.__module__, f.__qualname__)
                res["functions"].append(h)
            except Exception:
                pass
        imgs = self.cases()
        n = 0

        def record(ok, what, detail):
            res["obligations"] += 1
            if ok:
                res["discharged"] += 1
            elif len(res["refuted"]) < 6:
                res["refuted"].append({"obligation": "%s/%s" % (self.id, what), "model": {"case": detail}, "backend": "runtime",
                                       "replay": {"status": "fails", "detail": detail}, "goal": what, "pc": []})
        for s1 in imgs:
            a = cstr(s1)
            w1 = b"".join(bytes([c, 0]) for c in s1)
            # lengths
            out, j = self.run_case("lstrlenA", W.kernel32_lstrlenA, [0x100], {0x100: s1})
            record(out == ("ret", len(a)), "lstrlenA", "%r -> %r (want %d)" % (s1, out, len(a)))
            out, j = self.run_case("strlen", W.msvcrt_strlen, [0x100], {0x100: s1})
            record(out == ("ret", len(a)), "msvcrt_strlen", "%r -> %r (want %d)" % (s1, out, len(a)))
            out, j = self.run_case("lstrlenW", W.kernel32_lstrlenW, [0x100], {0x100: w1 + b"\x00"})
            record(out == ("ret", len(a)), "lstrlenW", "%r -> %r (want %d)" % (w1, out, len(a)))
            # copy
            out, j = self.run_case("lstrcpyA", W.kernel32_lstrcpyA, [0x300, 0x100], {0x100: s1})
            ok = out == ("ret", 0x300) and len(j.vm.writes) == 1 and j.vm.writes[0][0] == 0x300 and bytes(j.vm.writes[0][1]) == a + b"\x00"
            record(ok, "lstrcpyA", "%r -> %r writes %r" % (s1, out, j.vm.writes))
            for mlen in range(1, 5):
                out, j = self.run_case("lstrcpyn", W.kernel32_lstrcpyn, [0x300, 0x100, mlen], {0x100: s1})
                want = a[:mlen - 1] + b"\x00"
                ok = out == ("ret", 0x300) and len(j.vm.writes) == 1 and bytes(j.vm.writes[0][1]) == want
                record(ok, "lstrcpyn", "%r,%d -> %r writes %r (want %r)" % (s1, mlen, out, j.vm.writes, want))
            n += 1
            for s2 in imgs:
                b = cstr(s2)
                out, j = self.run_case("lstrcmpA", W.kernel32_lstrcmpA, [0x100, 0x200], {0x100: s1, 0x200: s2})
                ok = out[0] == "ret" and sign(out[1]) == sign((a > b) - (a < b))
                record(ok, "lstrcmpA", "%r,%r -> %r" % (s1, s2, out))
                out, j = self.run_case("lstrcatA", W.kernel32_lstrcatA, [0x100, 0x200], {0x100: s1, 0x200: s2})
                ok = out == ("ret", 0x100) and len(j.vm.writes) == 1 and j.vm.writes[0][0] == 0x100 and bytes(j.vm.writes[0][1]) == a + b + b"\x00"
                record(ok, "lstrcatA", "%r,%r -> %r writes %r" % (s1, s2, out, j.vm.writes))
                n += 1
        # ---- wide-character helpers: the FINAL memory image (initial bytes + writes in order) is compared with C semantics ----
        def wide(bs):
            return b"".join(bytes([c, 0]) for c in bs)

        def final_image(j, base, size):
            img = bytearray(j.vm.get_mem(base, size))
            for ad, data in j.vm.writes:
                data = bytes(data)
                for k, b in enumerate(data):
                    if base <= ad + k < base + size:
                        img[ad + k - base] = b
            return bytes(img)
        OLD = bytes(range(0xA0, 0xA0 + 24))         # non-zero previous content of the destination buffer
        for s1 in imgs:
            a = cstr(s1)
            w1 = wide(a) + b"\x00\x00"
            out, j = self.run_case("wcslen", W.msvcrt_wcslen, [0x100], {0x100: w1})
            record(out == ("ret", len(a)), "msvcrt_wcslen", "%r -> %r (want %d)" % (w1, out, len(a)))
            for name, fn in (("wcscpy", W.msvcrt_wcscpy), ("_mbscpy", W.msvcrt__mbscpy), ("lstrcpyW", W.kernel32_lstrcpyW)):
                out, j = self.run_case(name, fn, [0x300, 0x100], {0x100: w1, 0x300: OLD})
                want = wide(a) + b"\x00\x00" + OLD[len(a) * 2 + 2:]
                got = final_image(j, 0x300, len(OLD)) if out[0] == "ret" else None
                record(out == ("ret", 0x300) and got == want, name, "%r -> %r, destination %r (want %r)" % (w1, out, got, want))
            for nn in range(0, 6):
                out, j = self.run_case("wcsncpy", W.msvcrt_wcsncpy, [0x300, 0x100, nn], {0x100: w1, 0x300: OLD})
                body = wide(a[:nn])
                want = body + b"\x00" * (2 * nn - len(body)) + OLD[2 * nn:]
                got = final_image(j, 0x300, len(OLD)) if out[0] == "ret" else None
                record(out == ("ret", 0x300) and got == want, "msvcrt_wcsncpy",
                       "%r, n=%d -> %r, destination %r (want %r: n wide characters, NUL padded)" % (w1, nn, out, got, want))
            n += 1
            for s2 in imgs:
                b = cstr(s2)
                w2 = wide(b) + b"\x00\x00"
                for name, fn in (("wcscmp", W.msvcrt_wcscmp), ("lstrcmpW", W.kernel32_lstrcmpW)):
                    out, j = self.run_case(name, fn, [0x100, 0x200], {0x100: w1, 0x200: w2})
                    ok = out[0] == "ret" and sign(out[1]) == sign((list(a) > list(b)) - (list(a) < list(b)))
                    record(ok, name, "%r,%r -> %r" % (w1, w2, out))
                for name, fn in (("wcscat", W.msvcrt_wcscat), ("lstrcatW", W.kernel32_lstrcatW)):
                    dst0 = w1 + OLD[len(w1):]
                    out, j = self.run_case(name, fn, [0x300, 0x200], {0x300: dst0, 0x200: w2})
                    want = wide(a + b) + b"\x00\x00" + dst0[len(a + b) * 2 + 2:]
                    got = final_image(j, 0x300, len(dst0)) if out[0] == "ret" else None
                    record(out == ("ret", 0x300) and got == want, name, "%r,%r -> %r, destination %r (want %r)" % (w1, w2, out, got, want))
                n += 1
        # ---- checksum helper ----
        import zlib
        for data in (b"", b"a", b"abc", bytes(range(7))):
            for init in (0, 1, 0xFFFFFFFF, 0x12345678):
                out, j = self.run_case("crc32", W.ntdll_RtlComputeCrc32, [init, 0x100, len(data)], {0x100: data + b"\x00"})
                record(out == ("ret", zlib.crc32(data, init) & 0xFFFFFFFF), "ntdll_RtlComputeCrc32",
                       "%r, init %#x -> %r (want %#x)" % (data, init, out, zlib.crc32(data, init) & 0xFFFFFFFF))
        res["backends"]["runtime-contract(bounded)"] = res["discharged"]
        res["extra_coverage"] = {"bounded_runtime_cases": n}
        res["samples"] = [{"case": "lstrcmpA(%r, %r)" % (imgs[3], imgs[5]), "verdict": "sign matches C strcmp"}]
        res["wall"] = time.time() - t0
        return res

    def replay_custom(self, rp):
        r = self.run_custom([], 0)
        bad = [x for x in r["refuted"] if x["obligation"] == rp["obligation"]]
        return {"status": "fails" if bad else "passes", "detail": bad[:1], "failed": []}


def targets(tier):
    ts = []
    for fn, names, ref in NUMERIC:
        ts.append(Target("C47/%s" % fn.__name__, [fn], t_numeric(fn, names, ref), kind="proof"))
    ts.append(Target("C47/ntdll_RtlLargeIntegerShiftRight", [W.ntdll_RtlLargeIntegerShiftRight], t_shift, kind="proof"))
    N = 3 if tier == "quick" else 4
    for n in range(0, N + 1):
        ts.append(Target("C47/ntdll_RtlCompareMemory/len=%d" % n, [W.ntdll_RtlCompareMemory], t_compare_memory(n, W.ntdll_RtlCompareMemory),
                         kind="bounded", bound="buffers of %d bytes" % n))
        ts.append(Target("C47/msvcrt_memcmp/len=%d" % n, [W.msvcrt_memcmp], t_compare_memory(n, W.msvcrt_memcmp), kind="bounded",
                         bound="buffers of %d bytes" % n))
        ts.append(Target("C47/msvcrt_memcpy/len=%d" % n, [W.msvcrt_memcpy], t_memcpy(n), kind="bounded", bound="buffer of %d bytes" % n))
    ts.append(Target("C47/msvcrt_memset", [W.msvcrt_memset], t_memset(W.msvcrt_memset), kind="bounded", bound="size <= 4"))
    ts.append(Target("C47/ntdll_memset", [W.ntdll_memset], t_memset(W.ntdll_memset), kind="bounded", bound="size <= 4"))
    for t in ts:
        t.expect_covers = ["ret"]
    ts.append(StringHelpers(tier))
    return ts
