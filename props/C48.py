"""C48 -- Emulated allocators return fresh, non-overlapping mappings."""
from miasm.os_dep.common import heap
from miasm.os_dep import win_api_x86_32 as W
from miasm.os_dep.linux import environment as E
from miasm.core import interval as IV

from contracts.mocks import GhostJitter, GhostVm
from harness.core import Target
from vc.terms import And, Eq, Implies, Max, Not, Or

M32 = 0xFFFFFFFF

PROPERTY = {
    "id": "C48",
    "level": "proof",
    "explanation": "heap.next_addr / vm_alloc / alloc / kernel32_HeapAlloc / kernel32_VirtualAlloc are proved for all sizes "
                   "and cursors (integer encoding, no bound) as an inductive invariant: every page handed out so far lies "
                   "below the cursor, so a new page is disjoint from and distinct of every earlier one. "
                   "LinuxEnvironment.mmap / brk are verified with <= 2 pre-existing pages (bounded targets, labelled).",
    "trusted_base": ["pyvc interpreter + CPython differential", "z3 integer arithmetic with int2bv bridge for `& 0xFFFFF000`",
                     "GhostVm / GhostJitter: assumed interface of VmMngr and the stdcall helpers (contracts/mocks.py)"],
    "assumptions": ["vm.add_memory_page refuses a range overlapping a live page (C24's contract; the C code is not reached from "
                    "here)", "jitter.func_args_stdcall returns the 32-bit stack arguments, func_ret_stdcall records the result",
                    "allocation sizes are non-negative integers", "mmap/brk: at most 2 live pages in the pre-state (shape bound)"],
}


def no_raise(ctx, r, allowed=()):
    if r.raised:
        if isinstance(r.exc, allowed):
            ctx.cover("raises:" + type(r.exc).__name__)
            return False
        ctx.check("no-raise:%s" % type(r.exc).__name__, False, kind="no-raise")
        return False
    return True


def mk_heap(ctx):
    h = heap()
    a0 = ctx.int("cursor", 0, M32)
    ctx.assume(a0 % 0x1000 == 0)
    h.addr = a0
    return h, a0


def t_next_addr(ctx):
    h, a0 = mk_heap(ctx)
    size = ctx.int("size", 0, None, rnd_hi=1 << 16)
    r = ctx.call(heap.next_addr, h, size)
    if not no_raise(ctx, r):
        return
    ctx.cover("ret")
    ret = r.value
    ctx.check("returns-cursor", ret == a0)
    ctx.check("aligned", h.addr % 0x1000 == 0)
    ctx.check("window", And(0 <= h.addr, h.addr <= M32))
    # the chunk [ret, ret+max(size,1)) lies below the new cursor: the next allocation can neither overlap nor repeat it
    ctx.check("fresh", h.addr >= ret + Max(size, 1))


def t_vm_alloc(entry):
    def body(ctx):
        h, a0 = mk_heap(ctx)
        # ghost: one arbitrary earlier allocation of this heap; invariant: it lies below the cursor
        pa = ctx.int("prev_addr", 0, M32)
        ps = ctx.int("prev_size", 0, None, rnd_hi=1 << 16)
        ctx.assume(pa + Max(ps, 1) <= a0)
        size = ctx.int("size", 0, None, rnd_hi=1 << 16)
        vm = GhostVm([(pa, ps)])
        if entry == "vm_alloc":
            r = ctx.call(heap.vm_alloc, h, vm, size)
        elif entry == "alloc":
            j = GhostJitter(0, [], [], vm)
            r = ctx.call(heap.alloc, h, j, size)
        else:
            W.winobjs.heap = h
            j = GhostJitter(ctx.int("ret_ad", 0, M32), ["heap", "flags", "size"],
                            [ctx.int("hheap", 0, M32), ctx.int("flags", 0, M32), size], vm)
            r = ctx.call(W.kernel32_HeapAlloc, j)
        if not no_raise(ctx, r):
            return
        ctx.cover("ret")
        if entry == "HeapAlloc":
            ctx.check("one-result", len(j.rets) == 1)
            if len(j.rets) != 1:
                return
            ret = j.rets[0][1]
            ctx.check("ret_ad", j.rets[0][0] == j.ret_ad)
        else:
            ret = r.value
        ctx.check("one-page", len(vm.added) == 1)
        if len(vm.added) != 1:
            return
        (na, ns) = vm.added[0]
        ctx.check("mapped-at-result", na == ret)
        ctx.check("size", ns >= size)
        ctx.check("distinct", ret != pa)
        ctx.check("disjoint", Or(na + ns <= pa, pa + ps <= na))
        ctx.check("invariant", And(na + Max(ns, 1) <= h.addr, pa + Max(ps, 1) <= h.addr))
    return body


def t_virtualalloc(branch):
    def body(ctx):
        h, a0 = mk_heap(ctx)
        W.winobjs.heap = h
        W.winobjs.allocated_pages = {}
        pa = ctx.int("prev_addr", 0, M32)
        ps = ctx.int("prev_size", 1, None, rnd_hi=1 << 16)
        ctx.assume(pa + Max(ps, 1) <= a0)
        size = ctx.int("dwsize", 0, M32, rnd_hi=1 << 16)
        prot = ctx.int("flprotect", 0, M32)
        if branch == "any":
            lp = 0
        else:
            lp = ctx.int("lpvoid", 1, M32)
        vm = GhostVm([(pa, ps)])
        j = GhostJitter(ctx.int("ret_ad", 0, M32), ['lpvoid', 'dwsize', 'alloc_type', 'flprotect'],
                        [lp, size, ctx.int("alloc_type", 0, M32), prot], vm)
        r = ctx.call(W.kernel32_VirtualAlloc, j)
        if r.raised:
            # the only documented refusal: unknown protection constant
            ctx.check("raise-only-unknown-access", And(isinstance(r.exc, ValueError),
                                                      And(*[prot != k for k in W.ACCESS_DICT])), kind="raises-post")
            ctx.check("raise-leaves-vm", len(vm.added) == 0, kind="raises-post")
            ctx.cover("raises")
            return
        ctx.cover("ret")
        ctx.check("one-result", len(j.rets) == 1)
        if len(j.rets) != 1:
            return
        ret = j.rets[0][1]
        if len(vm.added) == 0:
            # re-protection of an existing page: only legal when lpvoid is the base of a live page
            ctx.check("existing-page", And(lp != 0, lp == pa, ret == lp))
            return
        ctx.check("one-page", len(vm.added) == 1)
        (na, ns) = vm.added[0]
        ctx.check("mapped-at-result", na == ret)
        ctx.check("size", ns >= size)
        ctx.check("distinct", ret != pa)
        ctx.check("disjoint", Or(na + ns <= pa, pa + ps <= na))
        ctx.check("invariant", And(na + Max(ns, 1) <= h.addr, pa + Max(ps, 1) <= h.addr))
    return body


def mk_pages(ctx, k):
    pages = []
    for i in range(k):
        a = ctx.int("p%d_addr" % i, 0, M32, rnd_hi=1 << 18)
        s = ctx.int("p%d_size" % i, 1, M32, rnd_hi=1 << 16)
        ctx.assume(a + s <= M32 + 1)
        pages.append((a, s))
    for i in range(k):
        for j in range(i + 1, k):
            (a, s), (b, t) = pages[i], pages[j]
            ctx.assume(Or(a + s <= b, b + t <= a))
    return pages


def t_mmap(k, fixed):
    def body(ctx):
        env = object.__new__(E.LinuxEnvironment_x86_32)
        cur = ctx.int("mmap_current", 0, M32, rnd_hi=1 << 18)
        ctx.assume(cur % 0x1000 == 0)
        env.mmap_current = cur
        pages = mk_pages(ctx, k)
        vm = GhostVm(pages)
        addr = ctx.int("addr", 0, M32, rnd_hi=1 << 18)
        len_ = ctx.int("len", 1, 1 << 30, rnd_hi=1 << 16)
        flags = 0x30 if fixed else 0x20
        r = ctx.call(E.LinuxEnvironment.mmap, env, addr, len_, 3, flags | 0x2, 0xffffffff, 0, vm)
        if r.raised:
            # explicit refusal (assert) is allowed by "or an explicit failure"; nothing may have been mapped then
            ctx.check("raise-is-assert", isinstance(r.exc, AssertionError), kind="raises-post")
            ctx.check("raise-leaves-vm", len(vm.added) == 0, kind="raises-post")
            ctx.cover("raises")
            return
        ctx.cover("ret")
        ret = r.value
        new = vm.added
        z = ctx.int("z", 0, None)
        in_new = Or(*[And(a <= z, z < a + s) for (a, s) in new])
        in_old = Or(*[And(a <= z, z < a + s) for (a, s) in pages])
        # every byte of [ret, ret+len) is mapped afterwards
        ctx.check("region-mapped", Implies(And(ret <= z, z < ret + len_), Or(in_new, in_old)))
        # nothing newly mapped overlaps a live page, nor another new page
        ctx.check("new-disjoint-from-live", Not(And(in_new, in_old)))
        for i, (a, s) in enumerate(new):
            for (b, t) in new[i + 1:]:
                ctx.check("new-pairwise-disjoint", Or(a + s <= b, b + t <= a))
        if not fixed:
            ctx.check("fresh-region", Implies(And(ret <= z, z < ret + len_), Not(in_old)))
            ctx.check("one-page", len(new) == 1)
        ctx.check("zero-filled", And(len(vm.writes) == 1, vm.writes[0][0] == ret) if len(vm.writes) == 1 else False)
    return body


def t_brk(k):
    def body(ctx):
        env = object.__new__(E.LinuxEnvironment_x86_32)
        cur = ctx.int("brk_current", 0, M32, rnd_hi=1 << 18)
        env.brk_current = cur
        pages = mk_pages(ctx, k)
        vm = GhostVm(pages)
        addr = ctx.int("addr", 0, M32, rnd_hi=1 << 18)
        r = ctx.call(E.LinuxEnvironment.brk, env, addr, vm)
        if not no_raise(ctx, r):
            return
        ctx.cover("ret")
        new = vm.added
        z = ctx.int("z", 0, None)
        in_new = Or(*[And(a <= z, z < a + s) for (a, s) in new])
        in_old = Or(*[And(a <= z, z < a + s) for (a, s) in pages])
        ctx.check("query", Implies(addr == 0, And(r.value == cur, len(new) == 0, env.brk_current == cur)))
        ctx.check("result", Implies(addr != 0, And(r.value == addr, env.brk_current == addr)))
        ctx.check("heap-mapped", Implies(And(addr != 0, cur <= z, z <= addr), Or(in_new, in_old)))
        ctx.check("new-disjoint-from-live", Not(And(in_new, in_old)))
        for i, (a, s) in enumerate(new):
            for (b, t) in new[i + 1:]:
                ctx.check("new-pairwise-disjoint", Or(a + s <= b, b + t <= a))
    return body


def targets(tier):
    ts = [Target("C48/heap.next_addr", [heap.next_addr], t_next_addr, kind="proof", min_obligations=4)]
    for e, fn in (("vm_alloc", [heap.vm_alloc, heap.next_addr]), ("alloc", [heap.alloc, heap.vm_alloc, heap.next_addr]),
                  ("HeapAlloc", [W.kernel32_HeapAlloc, heap.alloc, heap.vm_alloc, heap.next_addr])):
        ts.append(Target("C48/heap.%s" % e if e != "HeapAlloc" else "C48/kernel32_HeapAlloc", fn, t_vm_alloc(e), kind="proof"))
    ts.append(Target("C48/kernel32_VirtualAlloc/lpvoid=0", [W.kernel32_VirtualAlloc, heap.next_addr], t_virtualalloc("any"),
                     kind="proof"))
    ts.append(Target("C48/kernel32_VirtualAlloc/lpvoid!=0", [W.kernel32_VirtualAlloc, heap.next_addr], t_virtualalloc("hint"),
                     kind="proof"))
    K = 2 if tier == "quick" else 3
    for k in range(0, K + 1):
        for fixed in (False, True):
            ts.append(Target("C48/LinuxEnvironment.mmap/%s/pages=%d" % ("fixed" if fixed else "anywhere", k),
                             [E.LinuxEnvironment.mmap, IV.interval.difference, IV.interval.intersection, IV.interval.cannon_list],
                             t_mmap(k, fixed), kind="bounded", bound="%d live pages" % k, params={"pages": k},
                             max_paths=60000))
        ts.append(Target("C48/LinuxEnvironment.brk/pages=%d" % k, [E.LinuxEnvironment.brk, IV.interval.difference],
                         t_brk(k), kind="bounded", bound="%d live pages" % k, params={"pages": k}, max_paths=60000))
    for t in ts:
        t.expect_covers = ["ret"]
    return ts
