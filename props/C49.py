"""C49 -- a faulting instruction has no effect and leaves PC on it (jitter/codegen.py, jitter/jitcore_python.py, vm_mngr.c, csts.py).

A property of generated C / Python block code and of the execution loop: decided on the real system.  Bounded stand-in, labelled:
for every program of a seeded family in which one instruction with a memory operand accesses unmapped memory, a read-only page or
bytes straddling the end of a mapped page (at the start, in the middle or at the end of a translated block, under several block
lengths, both back ends): the run stops with the access-violation flag set and the program counter on that instruction; registers,
flags and memory equal the state the single-step reference run had BEFORE that instruction; after the fault is cleared and the
memory mapped / made writable, the run resumes and ends in the same final state as a run in which the memory was accessible from
the start."""
import random

from harness.bounded import BoundedContract, chunked
from props import jitrun

PROPERTY = {
    "id": "C49",
    "level": "exploration",
    "engine": "bounded-contract",
    "technique": "bounded stand-in: run-time check on the real jitter (Python and GCC back ends, extensions compiled from the tree on "
                 "every run) of the state at a memory fault against the pre-instruction state of the single-step cache-free run, and of "
                 "the resumed run against a run without fault",
    "explanation": "For every generated x86-32 program with one faulting instruction -- loads, stores, read-modify-write, XCHG, PUSH / "
                   "POP with a memory operand, ADD reg,[mem], MOVSD / STOSD / LODSD (register side effects), CMPXCHG, a store through "
                   "a register base -- whose operand is in an unmapped page, in a read-only page (stores) or straddles the end of the "
                   "data page into unmapped memory or into an adjacent page mapped read-only (stores) / write-only (loads), placed anywhere in a block: (1) the reference run (one instruction per block, "
                   "snapshot before every instruction) faults at that instruction; (2) under 4 configurations (back end in {python, "
                   "gcc}, block length in {1,2,5,50}, per-call limit) the run stops with EXCEPT_ACCESS_VIOL in the vm exception "
                   "flags, pc on the faulting instruction, and registers, flags, data page, stack and code equal to the reference "
                   "snapshot taken before that instruction (no partial effect); (3) after clearing the flags and mapping the page "
                   "(or making it writable) the run continues to the return address and its final state equals that of a run of the "
                   "same program with the memory accessible from the start. Bounded: exploration, not proof.",
    "rule": "one case = one program with one faulting instruction: reference + 4 configurations, fault state and resumed run",
    "trusted_base": ["CPython, gcc; the pre-instruction state comes from the same jitter run one instruction at a time; the generator "
                     "and the comparisons are written in props/jitrun.py / props/C49.py"],
    "assumptions": ["x86-32 guests; seeded family: 32 quick / 300 thorough programs", "LLVM back end not available"],
}

HOLE = jitrun.HOLE
STRADDLE = jitrun.DATA + 0xFFE          # 4 bytes: 2 in the data page, 2 in the unmapped page behind it


def fault_instr(rng):
    """-> (assembly text, kind of inaccessible memory, setup lines placed at program start)"""
    where = rng.choice(("hole", "hole", "ro", "straddle", "straddle-ro", "straddle-wo"))
    addr = {"hole": HOLE + 0x10 * rng.randrange(4), "ro": jitrun.RO + 0x20, "straddle": STRADDLE, "straddle-ro": STRADDLE, "straddle-wo": STRADDLE}[where]
    m = "DWORD PTR [0x%x]" % addr
    stores = ["MOV %s, EAX" % m, "ADD %s, EBX" % m, "XOR %s, 0x1234" % m, "XCHG %s, ECX" % m, "POP %s" % m, "INC %s" % m,
              "CMPXCHG %s, EDX" % m, "MOV DWORD PTR [ESI + 0x4], EAX", "STOSD", "MOVSD"]
    loads = ["MOV EAX, %s" % m, "ADD EBX, %s" % m, "PUSH %s" % m, "CMP EDX, %s" % m, "IMUL EAX, %s" % m,
             "LODSD", "MOVSD"]
    if where in ("ro", "straddle-ro"):
        ins = rng.choice(stores)            # the second page is mapped read-only: only a store faults
    elif where == "straddle-wo":
        ins = rng.choice([x for x in loads if x != "MOVSD"])         # the second page is mapped write-only: only a load faults
    else:
        ins = rng.choice(stores + loads)
    setup = []
    if ins == "MOV DWORD PTR [ESI + 0x4], EAX":
        setup = ["MOV ESI, 0x%x" % (addr - 4)]
    elif ins == "STOSD":
        setup = ["MOV EDI, 0x%x" % addr]
    elif ins == "LODSD":
        setup = ["MOV ESI, 0x%x" % addr]
    elif ins == "MOVSD":
        setup = (["MOV ESI, 0x%x" % addr, "MOV EDI, 0x%x" % (jitrun.DATA + 0x300)] if where != "ro" and rng.random() < 0.5
                 else ["MOV EDI, 0x%x" % addr, "MOV ESI, 0x%x" % (jitrun.DATA + 0x300)])
    post = []
    if ins.startswith("POP "):
        setup = ["PUSH EBX"]            # keep the stack balanced
    elif ins.startswith("PUSH "):
        post = ["POP EDX"]
    return ins, where, (setup, post)


def make_accessible(run, where):
    from miasm.jitter.csts import PAGE_READ, PAGE_WRITE
    vm = run.j.vm
    if where == "hole":
        vm.add_memory_page(HOLE, PAGE_READ | PAGE_WRITE, bytes((i * 3) & 0xFF for i in range(0x1000)), "late")
    elif where == "ro":
        vm.set_mem_access(jitrun.RO, PAGE_READ | PAGE_WRITE)
    elif where in ("straddle-ro", "straddle-wo"):
        vm.set_mem_access(jitrun.DATA + 0x1000, PAGE_READ | PAGE_WRITE)
    else:
        vm.add_memory_page(jitrun.DATA + 0x1000, PAGE_READ | PAGE_WRITE, bytes((i * 5) & 0xFF for i in range(0x1000)), "late")


class FaultCases(BoundedContract):
    BOUND = "seeded family of x86-32 programs with one faulting memory instruction (props/jitrun.py, props/C49.py)"
    CASE_SECONDS = 300

    def funcs(self):
        jitrun.build_exts()
        from miasm.jitter.codegen import CGen
        from miasm.jitter.jitcore_python import JitCore_Python
        from miasm.jitter.jitload import Jitter
        from miasm.jitter.emulatedsymbexec import EmulatedSymbExec
        return [CGen.gen_c, CGen.gen_check_memory_exception, CGen.gen_c_assignments, JitCore_Python.add_block, Jitter.runiter_once,
                EmulatedSymbExec.mem_read, EmulatedSymbExec.mem_write]

    def cases(self):
        return list(range(32 if self.tier == "quick" else 300))

    def gen(self, case):
        rng = random.Random(4900 + case)
        ins, where, setup = fault_instr(rng)
        text = jitrun.gen_body(rng, fault=(rng.randrange(8), ins))
        # the set-up of the string / base registers goes right before the faulting instruction: the body may not disturb it
        text = text.replace("    " + ins + "\n", "".join("    %s\n" % s for s in setup[0]) + "fault_site:\n    " + ins + "\n" +
                            "".join("    %s\n" % s for s in setup[1]), 1)
        st = jitrun.init_state(rng)
        return rng, text, st, ins, where

    def show(self, case):
        rng, text, st, ins, where = self.gen(case)
        return "program #%d (faulting `%s`, %s): %s ; initial %s" % (case, ins, where, jitrun.show_program(text),
                                                                      dict((k, hex(v)) for k, v in st.items() if isinstance(v, int)))

    def check(self, case):
        from miasm.jitter.csts import EXCEPT_ACCESS_VIOL
        rng, text, st, ins, where = self.gen(case)
        code, labels, instrs = jitrun.assemble(text)
        site = labels["fault_site"]
        from miasm.jitter.csts import PAGE_READ, PAGE_WRITE
        extra = {"straddle-ro": [(jitrun.DATA + 0x1000, PAGE_READ)], "straddle-wo": [(jitrun.DATA + 0x1000, PAGE_WRITE)]}.get(where, [])
        ref = jitrun.Run("python", code, st, map_extra=extra)
        ref.reference_mode(snapshots=True)
        res = ref.go()
        if site not in ref.trace:
            # the faulting instruction is never reached with this initial state: nothing to observe
            return (True, "", False)
        if ref.fault is None:
            return (False, "single-step run (python back end): `%s` (%s) at %#x is executed and no fault is reported (the run ends with result %r)" % (
                ins, where, site, res), True)
        if ref.fault[0] != site or ref.trace[-1] != site:
            return (False, "reference run: the fault is reported with pc %#x, the faulting instruction is at %#x (trace ends at %#x)" % (
                ref.fault[0], site, ref.trace[-1]), True)
        before = ref.snaps[-1]
        # the run without fault: memory accessible from the start
        ok = jitrun.Run("python", code, st, map_extra=extra)
        make_accessible(ok, where)
        ok.reference_mode()
        if ok.go() is not False or ok.fault:
            return (False, "harness: the run with the memory accessible does not reach the return address", True)
        final = ok.state()
        for k in range(4):
            cfg = {"backend": rng.choice(("python", "gcc")), "maxline": rng.choice((1, 2, 5, 50)), "max_exec": rng.choice((0, 0, 1, 3))}
            r = jitrun.Run(cfg["backend"], code, st, maxline=cfg["maxline"], max_exec=cfg["max_exec"], map_extra=extra)
            r.limit_steps()
            try:
                res = r.go()
            except Exception as ex:     # noqa
                return (False, "configuration %s: the run raises %s: %s" % (cfg, type(ex).__name__, str(ex)[:160]), True)
            if r.fault is None or res is not False:
                return (False, "configuration %s: no fault is reported (result %r, pc %#x, hits %s)" % (cfg, res, r.j.pc, r.hits), True)
            if not r.fault[1] & EXCEPT_ACCESS_VIOL:
                return (False, "configuration %s: exception flags at the fault are %s, EXCEPT_ACCESS_VIOL is not set" % (cfg, r.fault[1:]), True)
            if r.j.pc != site:
                return (False, "configuration %s: the run stops with pc %#x, the faulting `%s` is at %#x" % (cfg, r.j.pc, ins, site), True)
            now = r.state()
            now["exc"] = before["exc"]
            d = jitrun.diff_state(now, before, "the state at the fault", "the state before the faulting instruction")
            if d:
                return (False, "configuration %s, faulting `%s` (%s) at %#x: %s" % (cfg, ins, where, site, d), True)
            # resume
            r.j.vm.set_exception(0)
            r.j.cpu.set_exception(0)
            make_accessible(r, where)
            r.fault = None
            try:
                res = r.resume()
            except Exception as ex:     # noqa
                return (False, "configuration %s: resuming after the fault raises %s: %s" % (cfg, type(ex).__name__, str(ex)[:160]), True)
            if res is not False or r.hits != [jitrun.END] or r.fault:
                return (False, "configuration %s: the resumed run does not reach the return address (result %r, pc %#x, fault %r)" % (
                    cfg, res, r.j.pc, r.fault), True)
            d = jitrun.diff_state(r.state(), final, "the resumed run", "the run without fault")
            if d:
                return (False, "configuration %s, faulting `%s` (%s): %s" % (cfg, ins, where, d), True)
        return (True, "", True)


def targets(tier):
    return chunked(FaultCases, "C49/fault-atomicity", 16, tier)

