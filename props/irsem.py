"""Shared by C36 / C37 / C40: a seeded generator of structured IR graphs (branches, bounded loops, swap and lost-copy patterns,
memory reads and writes, calls), an independent concrete interpreter of IR graphs (parallel assignment blocks, SPEC's concrete
evaluator for expressions) and the observation that the properties name: the sequence of memory writes and calls, the exit
reached, the output registers at the exit -- each read through the variable that stands for it in the transformed graph."""
import random

from miasm.core.locationdb import LocationDB
from miasm.expression.expression import ExprCond, ExprId, ExprInt, ExprLoc, ExprMem, ExprOp
from miasm.ir.analysis import LifterModelCall
from miasm.ir.ir import AssignBlock, IRBlock, IRCFG

from vc import spec

W = 32
A, B, C, D, R, X, Y = [ExprId(n, W) for n in ("a", "b", "c", "d", "r", "x", "y")]
PC, SP = ExprId("pc", W), ExprId("sp", W)
IRDST = ExprId("IRDst", W)
END = ExprId("END", W)
REGS = [A, B, C, D, R, SP]
INITS = dict((v, ExprId(v.name + "_init", W)) for v in REGS + [PC])


def I(v):
    return ExprInt(v, W)


class Regs(object):
    regs_init = INITS
    all_regs_ids = REGS + [PC]
    all_regs_ids_init = list(INITS.values())
    exception_flags = ExprId("exception_flags", W)


class Arch(object):
    regs = Regs()

    def getpc(self, _):
        return PC

    def getsp(self, _):
        return SP


class Lifter(LifterModelCall):
    """a minimal analysis lifter (shaped after test/analysis/unssa.py): return register r, stack pointer sp"""

    def __init__(self, loc_db):
        super(Lifter, self).__init__(Arch(), W, loc_db)
        self.IRDst = IRDST
        self.ret_reg = R
        self.addrsize = W
        self.ssa_var = {}

    def get_out_regs(self, block):
        # as the real analysis lifters do (e.g. LifterModelCall_x86_32.get_out_regs): the ABI's output registers
        return set([R, SP])


# ------------------------------------------------------------------------------------------------------
# generator
# ------------------------------------------------------------------------------------------------------

def rand_expr(rng, depth=0):
    k = rng.random()
    leaves = [A, B, C, D, R, X, I(rng.choice((0, 1, 2, 3, 0xFF, 0xFFFFFFFF, 0x80000000)))]
    if depth >= 2 or k < 0.35:
        return rng.choice(leaves)
    if k < 0.75:
        op = rng.choice(("+", "^", "&", "|", "*", "-"))
        if op == "-":
            return ExprOp("-", rand_expr(rng, depth + 1))
        return ExprOp(op, rand_expr(rng, depth + 1), rand_expr(rng, depth + 1))
    if k < 0.85:
        return ExprOp(rng.choice(("<<", ">>", "a>>")), rand_expr(rng, depth + 1), I(rng.choice((0, 1, 4, 31, 32))))
    if k < 0.93:
        return ExprCond(rand_expr(rng, depth + 1), rand_expr(rng, depth + 1), rand_expr(rng, depth + 1))
    return ExprMem(rng.choice((I(0x1000), I(0x1004), SP + I(4), SP + I(8))), W)


def rand_small_mem(rng):
    """accesses of 8 / 16 / 32 bits at overlapping offsets of one base: narrow cells under wider ones, unaligned neighbours"""
    base = rng.choice((SP, I(0x1000)))
    off = rng.choice((4, 5, 6, 7, 8, 9, 10, 11))
    size = rng.choice((8, 8, 16, 32))
    cell = ExprMem(ExprOp("+", base, I(off)) if base is SP else I(0x1000 + off), size)
    if rng.random() < 0.5:
        # store: a slice of a register (or a constant) of the cell's width
        src = rng.choice((A, B, D, R))[0:size] if rng.random() < 0.8 else ExprInt(rng.getrandbits(size), size)
        return {cell: src}
    return {rng.choice((A, B, D, R)): cell.zeroExtend(W)}


def rand_stack_blk(rng):
    """one parallel block that assigns a register AND accesses memory through the OLD value of that register (push / pop / indexed
    store with post-increment): the address must be read before the assignment of the same block takes effect"""
    k = rng.random()
    v = rng.choice((A, B, D, R))
    if k < 0.35:
        return {SP: ExprOp("+", SP, I(0xFFFFFFFC)), ExprMem(ExprOp("+", SP, I(0xFFFFFFFC)), W): v}
    if k < 0.60:
        return {v: ExprMem(SP, W), SP: ExprOp("+", SP, I(4))}
    if k < 0.80:
        # indexed store with post-increment of the index
        return {v: ExprOp("+", v, I(4)), ExprMem(ExprOp("+", I(0x1000), ExprOp("&", v, I(0xC))), W): rng.choice((A, B, D, R))}
    # load through a register that the same block overwrites
    o = rng.choice([x for x in (A, B, D, R) if x is not v])
    return {o: ExprMem(ExprOp("+", I(0x1000), ExprOp("&", v, I(0xC))), W), v: ExprOp("+", o, I(1))}


def rand_assignblk(rng, allow_mem=True, stack=False):
    if stack and rng.random() < 0.2:
        return rand_stack_blk(rng)
    k = rng.random()
    if allow_mem and rng.random() < 0.18:
        return rand_small_mem(rng)
    if k < 0.12:
        # swap / rotation of registers in one parallel block
        v = rng.sample([A, B, D, R], rng.choice((2, 3)))
        return dict(zip(v, v[1:] + v[:1]))
    if k < 0.22 and allow_mem:
        return {ExprMem(rng.choice((I(0x1000), I(0x1004), SP + I(4), SP + I(8), I(0x2000))), W): rand_expr(rng, 1)}
    if k < 0.30:
        # lost-copy shape: keep the old value of a register while it is updated
        v, o = rng.sample([A, B, D, R], 2)
        return {o: v, v: ExprOp("+", v, I(1))}
    n = rng.choice((1, 1, 1, 2))
    out = {}
    for dst in rng.sample([A, B, D, R], n):
        out[dst] = rand_expr(rng)
    return out


def gen_program(rng, with_calls=False, stack=False, loops=True):
    """-> list of (list of assignment dicts, destination) per block; destination: ('j', i) | ('c', cond, i, j) | ('end',).
    Block 0 is the head.  Loops are bounded by the counter c (never assigned by the body)."""
    blocks = []

    def new_block():
        blocks.append([[], None])
        return len(blocks) - 1

    def body(i, n=None):
        for _ in range(rng.choice((1, 1, 2, 3)) if n is None else n):
            blocks[i][0].append(rand_assignblk(rng, stack=stack))

    cur = new_block()
    body(cur)
    for _ in range(rng.choice((1, 2, 2, 3))):
        k = rng.random()
        if not loops and 0.40 <= k < 0.80:
            k = 0.2 if k < 0.6 else 0.9         # loop-free family: a diamond or an if-then instead of the counted loop
        if k < 0.40:
            # diamond
            t, e, j = new_block(), new_block(), new_block()
            body(t), body(e)
            blocks[cur][1] = ("c", rng.choice((X, A, ExprOp("&", B, I(1)), ExprOp("==", A, B))), t, e)
            blocks[t][1] = ("j", j)
            blocks[e][1] = ("j", j) if rng.random() < 0.8 else ("end",)
            body(j)
            cur = j
        elif k < 0.80:
            # counted loop: c = K ; do { body ; c = c - 1 } while (c)
            lp, ex = new_block(), new_block()
            blocks[cur][0].append({C: I(rng.choice((1, 2, 3)))})
            blocks[cur][1] = ("j", lp)
            body(lp)
            blocks[lp][0].append({C: ExprOp("+", C, I(0xFFFFFFFF))})
            if rng.random() < 0.3:
                # a second back edge through an inner block (irreducible-ish shapes come from the conditional entry)
                inner = new_block()
                body(inner, 1)
                blocks[lp][1] = ("c", C, inner, ex)
                blocks[inner][1] = ("j", lp)
            else:
                blocks[lp][1] = ("c", C, lp, ex)
            body(ex)
            cur = ex
        else:
            # if-then
            t, j = new_block(), new_block()
            body(t)
            blocks[cur][1] = ("c", rng.choice((X, D, ExprOp("<s", A, B))), t, j)
            blocks[t][1] = ("j", j)
            body(j)
            cur = j
    # the exit: the return register is stored, so that it is observable as a memory write too
    blocks[cur][0].append({ExprMem(I(0x2000), W): R})
    blocks[cur][1] = ("end",)
    if loops and rng.random() < 0.25:
        # loop through the head
        k = rng.randrange(len(blocks))
        if blocks[k][1] and blocks[k][1][0] == "j" and k != 0:
            blocks[k][0].append({C: ExprOp("+", C, I(0xFFFFFFFF))})
            blocks[k][1] = ("c", ExprOp("&", C, I(3)), 0, blocks[k][1][1])
    return [(b[0], b[1]) for b in blocks]


def build_ircfg(prog):
    loc_db = LocationDB()
    locs = [loc_db.add_location("l%d" % i, 0x100 + i) for i in range(len(prog))]
    lifter = Lifter(loc_db)
    ircfg = lifter.new_ircfg()
    for i, (abs_, dst) in enumerate(prog):
        if dst[0] == "j":
            d = ExprLoc(locs[dst[1]], W)
        elif dst[0] == "c":
            d = ExprCond(dst[1], ExprLoc(locs[dst[2]], W), ExprLoc(locs[dst[3]], W))
        else:
            d = END
        ircfg.add_irblock(IRBlock(loc_db, locs[i], [AssignBlock(dict(x)) for x in abs_] + [AssignBlock({IRDST: d})]))
    return lifter, ircfg, locs


def copy_ircfg(lifter, ircfg):
    g = lifter.new_ircfg()
    for b in ircfg.blocks.values():
        g.add_irblock(b)
    return g


def show_prog(prog):
    out = []
    for i, (abs_, dst) in enumerate(prog):
        body = " ; ".join("{%s}" % ", ".join("%s = %s" % kv for kv in x.items()) for x in abs_)
        d = "end" if dst[0] == "end" else ("goto l%d" % dst[1] if dst[0] == "j" else "%s ? l%d : l%d" % dst[1:])
        out.append("l%d: %s ; %s" % (i, body, d))
    return " | ".join(out)


# ------------------------------------------------------------------------------------------------------
# concrete interpreter
# ------------------------------------------------------------------------------------------------------

class Stuck(Exception):
    pass


def run(ircfg, head, init, ssa_var=None, max_steps=400):
    """Execute the graph from `head` on the state `init` ({identifier name: value}, memory = function of the address).
    -> dict(exit, writes, regs (last-written view), steps) ; raises Stuck when the graph cannot be executed (an identifier that
    was never given a value and is not an initial register, a destination that is neither a block nor an exit...)"""
    regs = dict(init["ids"])
    mem = dict()
    written_at = {}
    writes = []
    step = 0
    cur = head

    def mem_byte(addr, aw):
        if addr in mem:
            return mem[addr]
        return init["mem"](addr)

    def ev(e):
        ids = {}
        for x in e.get_r(mem_read=True):
            if x.is_id():
                if x.name not in regs:
                    raise Stuck("identifier %s is read but was never assigned and is not an input" % x)
                ids[(x.name, x.size)] = regs[x.name]
        try:
            v, w = spec.eval_concrete(e, ids=ids, mem=mem_byte)
        except spec.Undefined as ex:
            raise Stuck("expression %s is not defined (%s)" % (e, ex))
        return v

    while True:
        blk = ircfg.blocks.get(cur)
        if blk is None:
            raise Stuck("destination %s has no block" % (cur,))
        dst_expr = None
        for ab in blk:
            step += 1
            if step > max_steps:
                return {"exit": "<step limit>", "writes": writes, "regs": regs, "written_at": written_at, "steps": step}
            new = []
            for d, s in ab.items():
                if s.is_op("Phi"):
                    raise Stuck("phi node in an executable graph")
                if d == IRDST:
                    # the destination is a value like any other: it is read in the state BEFORE its assignment block
                    # (out-of-SSA may append parallel copies after the block that sets IRDst)
                    dst_expr = s
                    while dst_expr.is_cond():
                        dst_expr = dst_expr.src1 if ev(dst_expr.cond) != 0 else dst_expr.src2
                    if not (dst_expr.is_loc() or dst_expr.is_int() or dst_expr.is_id()):
                        dst_expr = ExprInt(ev(dst_expr), W)
                    elif dst_expr.is_id() and dst_expr != END:
                        dst_expr = ExprInt(ev(dst_expr), W)
                    continue
                if d.is_mem():
                    new.append(("mem", ev(d.ptr), d.size, ev(s)))
                else:
                    new.append(("reg", d.name, ev(s)))
            for n in new:
                if n[0] == "reg":
                    regs[n[1]] = n[2]
                    written_at[n[1]] = step
                else:
                    _, addr, size, val = n
                    # a store of the value the cells already hold has no effect: it is not an observation (out-of-SSA and the
                    # simplifiers drop `x = x` assignments, memory cells included)
                    if any(mem_byte((addr + i) & 0xFFFFFFFF, W) != (val >> (8 * i)) & 0xFF for i in range(size // 8)):
                        writes.append((addr, size, val))
                    for i in range(size // 8):
                        mem[(addr + i) & 0xFFFFFFFF] = (val >> (8 * i)) & 0xFF
        if dst_expr is None:
            raise Stuck("block %s does not set IRDst" % (cur,))
        d = dst_expr
        if d.is_loc():
            cur = d.loc_key
            continue
        if d.is_int():
            lk = ircfg.loc_db.get_offset_location(int(d))
            if lk is not None and lk in ircfg.blocks:
                cur = lk
                continue
        return {"exit": str(d), "writes": writes, "regs": regs, "written_at": written_at, "steps": step}


def out_reg(res, reg, ssa_var):
    """value of the architecture register `reg` at the exit, read through the variable that stands for it: the most recently
    written variable among `reg` and the SSA variables of `reg`; the initial value when none was written"""
    cands = [reg.name] + [v.name for v, r in (ssa_var or {}).items() if r == reg]
    best, when = reg.name, -1
    for n in cands:
        t = res["written_at"].get(n, -1)
        if t > when:
            best, when = n, t
    return res["regs"].get(best)


def rand_state(rng):
    vals = {}
    for v in REGS + [X, Y, PC]:
        vals[v.name] = rng.choice((0, 1, 2, 3, 0xFFFFFFFF, 0x80000000, rng.getrandbits(32), rng.getrandbits(8)))
    vals["sp"] = 0x7000 + 16 * rng.randrange(4)
    for v, i in INITS.items():
        vals[i.name] = vals[v.name]
    vals["END"] = 0xE0D
    vals["exception_flags"] = 0
    seed = rng.getrandbits(32)

    def mem(addr):
        return (addr * 2654435761 + seed) >> 13 & 0xFF
    return {"ids": vals, "mem": mem}


def compare(prog, lifter, orig, new, head, rng, n_states=6, what="transformed graph", all_regs=False):
    """'' or a description of the first observable difference between the executions of orig and new"""
    for k in range(n_states):
        st = rand_state(rng)
        try:
            r0 = run(orig, head, st)
        except Stuck:
            continue            # the generated program itself cannot run on this state (e.g. division): not an observation
        if r0["exit"] == "<step limit>":
            continue
        try:
            r1 = run(new, head, st, max_steps=4000)
        except Stuck as ex:
            return "the %s cannot be executed: %s (initial state #%d)" % (what, ex, k)
        if r1["exit"] != r0["exit"]:
            return "exit %s, the original reaches %s (initial state #%d: %s)" % (r1["exit"], r0["exit"], k, short(st))
        if r1["writes"] != r0["writes"]:
            return "memory writes %s, the original performs %s (initial state #%d: %s)" % (
                fmt_w(r1["writes"]), fmt_w(r0["writes"]), k, short(st))
        for reg in (REGS if all_regs else (R, SP)):
            v0 = out_reg(r0, reg, None)
            v1 = out_reg(r1, reg, lifter.ssa_var)
            if v0 != v1:
                return "output register %s = %#x at the exit, the original leaves %#x (initial state #%d: %s)" % (
                    reg, v1 if v1 is not None else -1, v0, k, short(st))
    return ""


def short(st):
    return ", ".join("%s=%#x" % (k, v) for k, v in sorted(st["ids"].items()) if k in ("a", "b", "c", "d", "r", "x", "sp"))


def fmt_w(ws):
    return "[%s]" % ", ".join("@%d[%#x]=%#x" % (s, a, v) for a, s, v in ws[:8])
