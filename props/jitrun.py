"""Shared harness of the jitter properties (C20 C21 C22 C23 C49): x86-32 guest programs, a jitter built on extension modules
compiled from the tree's C sources on every run, a caching-free single-step reference run, and state comparison.

Nothing here is a model of miasm: every run goes through the real Jitter / JitCore / code generators / VmMngr.  The REFERENCE is
the same real code driven so that the mechanism under test cannot matter (one instruction per translated block, one block per
call, the translation cache emptied before every step): the properties are relational (independence of partitioning / caching /
backend / breakpoints), so the reference is the same system with that degree of freedom removed."""
import importlib.machinery
import importlib.util
import os
import random
import shutil
import subprocess
import sys
import sysconfig
import tempfile

JIT = "/repo/miasm/jitter"
_BUILD = {}


def build_exts():
    """compile VmMngr, JitCore_x86 and Jitgcc from the working tree into a scratch directory and install them as the modules the
    jitter imports -- once per process, before miasm.jitter.jitload is imported"""
    if _BUILD.get("pid") == os.getpid():
        return _BUILD
    if "miasm.jitter.jitload" in sys.modules and "pid" not in _BUILD:
        raise RuntimeError("harness: miasm.jitter.jitload imported before the scratch extensions were installed")
    d = tempfile.mkdtemp(prefix="jit_")
    import atexit
    atexit.register(shutil.rmtree, d, True)
    inc = sysconfig.get_paths()["include"]
    ext = sysconfig.get_config_var("EXT_SUFFIX") or ".so"
    mods = {}
    for name, pkg, srcs in (("VmMngr", "miasm.jitter", ["vm_mngr.c", "vm_mngr_py.c", "bn.c"]),
                            ("JitCore_x86", "miasm.jitter.arch", ["JitCore.c", "vm_mngr.c", "vm_mngr_py.c", "op_semantics.c", "bn.c",
                                                                 "arch/JitCore_x86.c"]),
                            ("JitCore_arm", "miasm.jitter.arch", ["JitCore.c", "vm_mngr.c", "vm_mngr_py.c", "op_semantics.c", "bn.c",
                                                                 "arch/JitCore_arm.c"]),
                            ("JitCore_aarch64", "miasm.jitter.arch", ["JitCore.c", "vm_mngr.c", "vm_mngr_py.c", "op_semantics.c", "bn.c",
                                                                     "arch/JitCore_aarch64.c"]),
                            ("JitCore_mips32", "miasm.jitter.arch", ["JitCore.c", "vm_mngr.c", "vm_mngr_py.c", "op_semantics.c", "bn.c",
                                                                    "arch/JitCore_mips32.c"]),
                            ("Jitgcc", "miasm.jitter", ["Jitgcc.c", "bn.c"])):
        so = os.path.join(d, name + ext)
        p = subprocess.run(["gcc", "-O1", "-w", "-DNDEBUG", "-shared", "-fPIC", "-I", inc, "-I", JIT, "-o", so] +
                           [os.path.join(JIT, s) for s in srcs], stdout=subprocess.PIPE, stderr=subprocess.PIPE)
        if p.returncode != 0:
            raise RuntimeError("gcc rejects the jitter sources (%s): %s" % (name, p.stderr.decode(errors="replace")[:400]))
        loader = importlib.machinery.ExtensionFileLoader(name, so)
        spec = importlib.util.spec_from_loader(name, loader)
        mod = importlib.util.module_from_spec(spec)
        loader.exec_module(mod)
        mods[name] = (mod, so, pkg)
    import miasm.jitter
    import miasm.jitter.arch
    for name, (mod, so, pkg) in mods.items():
        sys.modules[pkg + "." + name] = mod
        setattr(sys.modules[pkg], name, mod)
    _BUILD.update({"pid": os.getpid(), "dir": d, "libs": [mods["VmMngr"][1], mods["JitCore_x86"][1]],
                   "libs_arm": [mods["VmMngr"][1], mods["JitCore_arm"][1]],
                   "libs_aarch64": [mods["VmMngr"][1], mods["JitCore_aarch64"][1]],
                   "libs_mips32": [mods["VmMngr"][1], mods["JitCore_mips32"][1]], "cache": os.path.join(d, "cache")})
    os.mkdir(_BUILD["cache"])
    return _BUILD


CODE, DATA, RO, HOLE, END = 0x400000, 0x500000, 0x600000, 0x700000, 0x1337BEEF
REGS = ["EAX", "EBX", "ECX", "EDX", "ESI", "EDI", "ESP", "EBP"]
FLAGS = ["zf", "nf", "pf", "of", "cf", "af", "df"]
FUEL = DATA + 0xFF0


def assemble(text):
    """-> (bytes of the code page, {label: address}, [instruction addresses])"""
    from miasm.arch.x86.arch import mn_x86
    from miasm.core import asmblock, parse_asm
    from miasm.core.interval import interval
    from miasm.core.locationdb import LocationDB
    loc_db = LocationDB()
    asmcfg = parse_asm.parse_txt(mn_x86, 32, text, loc_db)
    loc_db.set_location_offset(loc_db.get_name_location("main"), CODE)
    patches = asmblock.asm_resolve_final(mn_x86, asmcfg, interval([(CODE, CODE + 0xF00)]))
    page = bytearray(0x1000)
    for o, d in patches.items():
        page[o - CODE:o - CODE + len(d)] = d
    labels = {}
    instrs = []
    for b in asmcfg.blocks:
        off = loc_db.get_location_offset(b.loc_key)
        for n in loc_db.get_location_names(b.loc_key):
            labels[n] = off
        for l in b.lines:
            if not isinstance(l, asmblock.AsmRaw):
                instrs.append(off)
            off += l.l
    return bytes(page), labels, sorted(instrs)


ALU = ["ADD %s, %s", "SUB %s, %s", "XOR %s, %s", "AND %s, %s", "OR %s, %s", "MOV %s, %s", "CMP %s, %s", "ADC %s, %s", "TEST %s, %s"]
GP = ["EAX", "EBX", "ECX", "EDX", "ESI"]


def gen_body(rng, nblocks=None, fault=None, smc=None, p_fall=0.3):
    """assembly text of a terminating program: blocks of ALU / memory instructions, each ending with a fuel test and a conditional
    branch to an arbitrary block; EDI accumulates the identities of the executed blocks.
    fault: (block, text of the faulting instruction) inserted in that block; smc: list of (block, patch text) self-modifying stores,
    whose targets are the instructions labelled site0.. placed in random blocks"""
    n = nblocks or rng.randint(3, 7)
    lines = ["main:", "    MOV EBP, 0x%x" % (DATA + 0x100)]
    nsites = len(smc) if smc else 0
    site_block = [rng.randrange(n) for _ in range(nsites)]
    for i in range(n):
        lines.append("b%d:" % i)
        lines.append("    IMUL EDI, EDI, 0x1F")
        lines.append("    ADD EDI, 0x%x" % (i + 1))
        body = []
        for _ in range(rng.randint(1, 5)):
            k = rng.random()
            if k < 0.5:
                a = rng.choice(GP)
                b = rng.choice(GP + ["0x%x" % rng.getrandbits(rng.choice((4, 8, 32)))])
                body.append("    " + rng.choice(ALU) % (a, b))
            elif k < 0.7:
                body.append("    MOV DWORD PTR [EBP + 0x%x], %s" % (4 * rng.randrange(8), rng.choice(GP)))
            elif k < 0.85:
                body.append("    %s %s, DWORD PTR [EBP + 0x%x]" % (rng.choice(("MOV", "ADD", "XOR")), rng.choice(GP), 4 * rng.randrange(8)))
            elif k < 0.92:
                body.append("    PUSH %s" % rng.choice(GP))
                body.append("    POP %s" % rng.choice(GP))
            else:
                body.append("    %s DWORD PTR [0x%x], %s" % (rng.choice(("ADD", "XOR", "MOV")), DATA + 0x200 + 4 * rng.randrange(4), rng.choice(GP)))
        for s in range(nsites):
            if site_block[s] == i:
                body.insert(rng.randrange(len(body) + 1), "site%d:\n    %s EAX, 0x%x" % (s, rng.choice(("ADD", "XOR", "SUB")), 0x01010101 * (s + 1)))
        if smc:
            for blk, patch in smc:
                if blk % n == i:
                    body.insert(rng.randrange(len(body) + 1), "    " + patch)
        if fault and fault[0] % n == i:
            body.insert(rng.randrange(len(body) + 1), "    " + fault[1])
        if rng.random() < 0.2:
            body.append("    CALL sub")
        lines += body
        if i + 1 < n and rng.random() < p_fall:
            # no branch at all: the next label is reached by falling through (it is then both a jump target and an inner
            # instruction of the block translated from here); such a block has no backward jump, so every cycle still
            # goes through a fuel test
            continue
        lines.append("    DEC DWORD PTR [0x%x]" % FUEL)
        lines.append("    JZ end")
        if rng.random() < 0.8:
            lines.append("    CMP %s, %s" % (rng.choice(GP), rng.choice(GP)))
            lines.append("    %s b%d" % (rng.choice(("JZ", "JNZ", "JB", "JBE", "JS", "JL", "JG")), rng.randrange(n)))
    lines += ["end:", "    RET", "sub:", "    XOR ECX, EDX", "    ADD ESI, 0x3", "    RET"]
    return "\n".join(lines) + "\n"


def init_state(rng):
    st = dict((r, rng.choice((0, 1, 0xFFFFFFFF, 0x80000000, rng.getrandbits(32), rng.getrandbits(8)))) for r in GP + ["EDI"])
    st["fuel"] = rng.randint(3, 30)
    st["data"] = bytes(rng.getrandbits(8) for _ in range(0x40))
    return st


class Run(object):
    """one jitter instance set up on a program"""

    def __init__(self, backend, code, st, maxline=50, max_exec=0, cache_limit=None, map_extra=()):
        b = build_exts()
        from miasm.analysis.machine import Machine
        from miasm.core.locationdb import LocationDB
        from miasm.core.utils import BoundedDict
        from miasm.jitter.csts import PAGE_READ, PAGE_WRITE, EXCEPT_ACCESS_VIOL
        import miasm.jitter.arch.JitCore_x86 as jc
        if not jc.__file__.startswith(b["dir"]):
            raise RuntimeError("harness: the jitter does not use the extensions compiled from the tree")
        self.j = j = Machine("x86_32").jitter(LocationDB(), backend)
        if backend == "gcc":
            j.jit.libs = list(b["libs"])
            j.jit.tempdir = b["cache"]
        j.jit.set_options(jit_maxline=maxline, max_exec_per_call=max_exec)
        if cache_limit is not None:
            j.jit.offset_to_jitted_func = BoundedDict(cache_limit, delete_cb=j.jit.jitted_block_delete_cb)
        self.code, self.st = code, st
        j.vm.add_memory_page(CODE, PAGE_READ | PAGE_WRITE, code, "code")
        j.vm.add_memory_page(DATA, PAGE_READ | PAGE_WRITE, b"\x00" * 0x1000, "data")
        j.vm.add_memory_page(RO, PAGE_READ, bytes((i * 7) & 0xFF for i in range(0x1000)), "ro")
        for addr, access in map_extra:
            j.vm.add_memory_page(addr, access, b"\x00" * 0x1000, "extra")
        j.init_stack()
        self.sp0 = None
        self.hits = []
        self.fault = None
        self.steps = 0
        self.trace = None
        j.add_breakpoint(END, self._end)
        j.add_exception_handler(EXCEPT_ACCESS_VIOL, self._fault)
        self.reset_state()

    def _end(self, j):
        self.hits.append(END)
        return False

    def _fault(self, j):
        self.fault = (j.pc, j.vm.get_exception(), j.cpu.get_exception())
        return False

    def reset_state(self, code=False):
        """registers, data, stack (and the code page on demand) as at the start"""
        j = self.j
        for r in REGS + ["EIP"]:
            setattr(j.cpu, r, 0)
        for f in FLAGS:
            setattr(j.cpu, f, 0)
        for r, v in self.st.items():
            if r in REGS:
                setattr(j.cpu, r, v)
        j.cpu.ESP = j.stack_base + j.stack_size - 0x100
        j.vm.set_mem(j.cpu.ESP - 0x100, b"\x00" * 0x200)
        j.vm.set_mem(DATA, b"\x00" * 0x1000)
        j.vm.set_mem(DATA + 0x100, self.st["data"])
        j.vm.set_mem(FUEL, self.st["fuel"].to_bytes(4, "little"))
        if code:
            j.vm.set_mem(CODE, self.code)
        j.push_uint32_t(END)
        self.sp0 = j.cpu.ESP
        j.vm.set_exception(0)
        j.cpu.set_exception(0)
        self.hits = []
        self.fault = None
        self.steps = 0

    def reference_mode(self, snapshots=False):
        """one instruction per block, one block per call, nothing cached: the trace of executed instruction addresses is the list
        of the pcs seen before every call"""
        self.j.jit.set_options(jit_maxline=1, max_exec_per_call=1)
        self.trace = []
        self.snaps = [] if snapshots else None

        def cb(j):
            self.j.jit.clear_jitted_blocks()
            self.trace.append(j.pc)
            if self.snaps is not None:
                self.snaps.append(self.state(with_code=True))
            self.steps += 1
            return True if self.steps < 3000 else False
        self.j.exec_cb = cb

    def limit_steps(self, n=3000):
        def cb(j):
            self.steps += 1
            return True if self.steps < n else False
        self.j.exec_cb = cb

    def go(self, start=CODE):
        self.j.init_run(start)
        return self.j.continue_run()

    def resume(self):
        return self.j.continue_run()

    def state(self, with_code=True):
        j = self.j
        s = {"regs": dict((r, getattr(j.cpu, r)) for r in REGS), "flags": dict((f, getattr(j.cpu, f)) for f in FLAGS), "pc": j.pc,
             "data": j.vm.get_mem(DATA, 0x1000), "stack": j.vm.get_mem(self.sp0 - 0x80, 0x100),
             "exc": (j.vm.get_exception(), j.cpu.get_exception())}
        if with_code:
            s["code"] = j.vm.get_mem(CODE, 0x1000)
        return s


def diff_state(a, b, what_a="the run", what_b="the reference"):
    for r in REGS:
        if a["regs"][r] != b["regs"][r]:
            return "%s = %#x in %s, %#x in %s" % (r, a["regs"][r], what_a, b["regs"][r], what_b)
    for f in FLAGS:
        if a["flags"][f] != b["flags"][f]:
            return "flag %s = %d in %s, %d in %s" % (f, a["flags"][f], what_a, b["flags"][f], what_b)
    if a["pc"] != b["pc"]:
        return "pc = %#x in %s, %#x in %s" % (a["pc"], what_a, b["pc"], what_b)
    if a["exc"] != b["exc"]:
        return "exception flags (vm, cpu) = %s in %s, %s in %s" % (a["exc"], what_a, b["exc"], what_b)
    for k, base in (("data", DATA), ("stack", None), ("code", CODE)):
        if k in a and k in b and a[k] != b[k]:
            i = next(i for i in range(len(a[k])) if a[k][i] != b[k][i])
            return "%s byte %s = %#04x in %s, %#04x in %s" % (k, hex(base + i) if base is not None else "+%#x" % i, a[k][i], what_a, b[k][i], what_b)
    return ""


def show_program(text):
    return " | ".join(l.strip() for l in text.splitlines())
