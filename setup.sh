#!/bin/sh
# Build the overlay interpreter /verif/.venv312 (CPython 3.12 + z3/cvc5/jsonschema wheels from the offline
# wheelhouse + a .pth that exposes /venv's site-packages, i.e. miasm itself and its dependencies).
# Idempotent; nothing is fetched.
set -e
HERE="$(cd "$(dirname "$0")" && pwd)"
V="$HERE/.venv312"
build_shim() {
    # optional: arena cache for CPython's data-stack chunks (see native/arena_shim.c); the checks run without it too
    INC="$("$V/bin/python" -c 'import sysconfig; print(sysconfig.get_paths()["include"])' 2>/dev/null)"
    if [ -n "$INC" ] && [ ! -f "$V/arena_shim.so" -o "$HERE/native/arena_shim.c" -nt "$V/arena_shim.so" ]; then
        cc -O2 -shared -fPIC -I"$INC" "$HERE/native/arena_shim.c" -o "$V/arena_shim.so" 2>/dev/null || true
    fi
}
if [ -x "$V/bin/python" ] && "$V/bin/python" -c "import z3, jsonschema, miasm" 2>/dev/null; then
    build_shim
    exit 0
fi
rm -rf "$V"
/venv/bin/python -m venv "$V"
PIP_NO_INDEX=1 "$V/bin/python" -m pip install -q --no-index --find-links /opt/veriftools/wheels z3-solver cvc5 jsonschema >/dev/null
SP="$("$V/bin/python" -c 'import sysconfig; print(sysconfig.get_paths()["purelib"])')"
echo "import site; site.addsitedir('/venv/lib/python3.12/site-packages')" > "$SP/zz_miasm_overlay.pth"
build_shim
"$V/bin/python" -c "import z3, jsonschema, miasm; print('overlay venv ok', z3.get_version_string())"
