"""cvc -- verification conditions from clang's typed AST of the REAL C sources (DESIGN 3.4).

`clang -fsyntax-only -Xclang -ast-dump=json` is run on the real files (after preprocessing with the real headers, so macros such
as SHIFT_LEFT_LOGIC / UDIV(8) are already expanded); function bodies are interpreted over z3 bit-vectors following the AST's
explicit types and ImplicitCastExpr nodes (clang computes the integer promotions and usual arithmetic conversions, this module
only implements each cast and operator at the given types).

Subset: integer types, struct-by-value with fixed arrays (bn_t), const global tables, if / for / while / do / switch / break /
continue / return, calls (inlined, or through a registered contract), ?:, compound assignment, ++/--.  A symbolic `if` forks the
state and the normal-completion states are merged again (ite per variable); loops are unrolled while their condition is decided
(by simplification, then by the solver under the path condition) up to a stated bound.
Not supported (raises Unsupported): pointers other than string literals passed to a contracted callee, floating point, goto,
symbolic array indices on the left of an assignment.

Effects and undefined behaviour are recorded as EVENTS (kind, path condition): 'output' (printf / puts / putchar / fprintf to
stdout), 'abort' (exit / abort / __assert_fail), 'ub-shift' (count >= width of the promoted left operand), 'ub-div0', 'ub-overflow' (signed + - * of the promoted type),
'uninit' (read of an uninitialised local).  Oversized shift counts are given the x86-64 value (count taken modulo the operand
width): an ASSUMPTION about the target, stated in the evidence.
"""
from __future__ import annotations

import json
import os
import subprocess

import z3


class Unsupported(Exception):
    pass


# ======================================================================================================
# types
# ======================================================================================================

class CType(object):
    __slots__ = ("kind", "width", "signed", "elem", "count", "name")

    def __init__(self, kind, width=0, signed=False, elem=None, count=0, name=None):
        self.kind, self.width, self.signed, self.elem, self.count, self.name = kind, width, signed, elem, count, name

    def __repr__(self):
        if self.kind == "int":
            return "%sint%d" % ("" if self.signed else "u", self.width)
        if self.kind == "array":
            return "%r[%d]" % (self.elem, self.count)
        return "%s %s" % (self.kind, self.name or "")


BASE = {
    "char": (8, True), "signed char": (8, True), "unsigned char": (8, False), "short": (16, True), "unsigned short": (16, False),
    "int": (32, True), "unsigned int": (32, False), "unsigned": (32, False), "long": (64, True), "unsigned long": (64, False),
    "long long": (64, True), "unsigned long long": (64, False), "_Bool": (8, False), "bool": (8, False),
    "int8_t": (8, True), "uint8_t": (8, False), "int16_t": (16, True), "uint16_t": (16, False), "int32_t": (32, True),
    "uint32_t": (32, False), "int64_t": (64, True), "uint64_t": (64, False), "size_t": (64, False), "__int128": (128, True),
    "unsigned __int128": (128, False), "uint128_t": (128, False), "int128_t": (128, True),
}


def parse_type(s, structs):
    s = s.strip()
    for q in ("const ", "volatile ", "restrict "):
        while q in s + " ":
            s2 = (" " + s + " ").replace(" " + q, " ").strip()
            if s2 == s:
                break
            s = s2
    if s.endswith("const"):
        s = s[:-5].strip()
    if s.endswith("]"):
        i = s.rindex("[")
        n = s[i + 1:-1].strip()
        return CType("array", elem=parse_type(s[:i], structs), count=int(n) if n else 0)
    if s.endswith("*") or "(*)" in s or s.endswith(")"):
        return CType("ptr", 64, name=s)
    if s == "void":
        return CType("void")
    if s in BASE:
        w, sg = BASE[s]
        return CType("int", w, sg)
    if s.startswith("struct ") or s in structs or ("struct " + s) in structs:
        nm = s if s.startswith("struct ") else "struct " + s
        return CType("struct", name=nm)
    if s.startswith("enum ") or s.startswith("enum"):
        return CType("int", 32, True)
    if s in ("double", "float", "long double"):
        return CType("float", name=s)
    raise Unsupported("type %r" % s)


# ======================================================================================================
# translation units
# ======================================================================================================

def clang_ast(path, include_dirs=(), defines=(), text=None):
    cmd = ["clang", "-fsyntax-only", "-Xclang", "-ast-dump=json", "-w"]
    for d in include_dirs:
        cmd += ["-I", d]
    for d in defines:
        cmd += ["-D", d]
    if text is not None:
        cmd += ["-x", "c", "-"]
        p = subprocess.run(cmd, input=text.encode(), stdout=subprocess.PIPE, stderr=subprocess.PIPE)
    else:
        cmd.append(path)
        p = subprocess.run(cmd, stdout=subprocess.PIPE, stderr=subprocess.PIPE)
    if p.returncode != 0:
        raise CompileError(p.stderr.decode(errors="replace")[:2000])
    return json.loads(p.stdout.decode())


class CompileError(Exception):
    pass


class Program(object):
    """functions, typedefs, structs, enum constants and global tables of one or more translation units"""

    def __init__(self):
        self.funcs = {}         # name -> FunctionDecl node with a body
        self.protos = {}        # name -> FunctionDecl node (any)
        self.structs = {}       # 'struct bn' -> [(field, CType)]
        self.typedefs = {}      # name -> type string
        self.enums = {}         # name -> int
        self.globals = {}       # name -> VarDecl node
        self.by_id = {}         # decl id -> node
        self.contracts = {}     # name -> callable(interp, state, args, node) -> value
        self._glob_cache = {}

    def add_tu(self, tu):
        for d in tu.get("inner", []):
            self._add_decl(d)

    def _add_decl(self, d):
        k = d.get("kind")
        if "id" in d:
            self.by_id[d["id"]] = d
        if k == "FunctionDecl":
            self.protos[d["name"]] = d
            for p in d.get("inner", []):
                if p.get("kind") == "ParmVarDecl":
                    self.by_id[p["id"]] = p
            if any(c.get("kind") == "CompoundStmt" for c in d.get("inner", [])):
                self.funcs[d["name"]] = d
        elif k == "RecordDecl":
            if d.get("completeDefinition") and d.get("name"):
                self.structs["struct " + d["name"]] = [(f["name"], f["type"]) for f in d.get("inner", [])
                                                       if f.get("kind") == "FieldDecl" and "name" in f]
        elif k == "TypedefDecl":
            self.typedefs[d["name"]] = d["type"]
        elif k == "EnumDecl":
            val = 0
            for c in d.get("inner", []):
                if c.get("kind") == "EnumConstantDecl":
                    v = _const_of(c)
                    if v is not None:
                        val = v
                    self.enums[c["name"]] = val
                    self.by_id[c["id"]] = c
                    val += 1
        elif k == "VarDecl":
            if d["name"] not in self.globals or d.get("inner"):
                self.globals[d["name"]] = d

    def ctype(self, tnode):
        s = tnode.get("desugaredQualType") or tnode.get("qualType")
        try:
            return parse_type(s, self.structs)
        except Unsupported:
            q = tnode.get("qualType")
            if q in self.typedefs:
                return self.ctype(self.typedefs[q])
            raise

    def fields(self, ct):
        return [(n, self.ctype(t)) for n, t in self.structs[ct.name]]


def _const_of(node):
    for c in node.get("inner", []):
        if "value" in c and c.get("kind") in ("ConstantExpr", "IntegerLiteral"):
            return int(c["value"])
        v = _const_of(c)
        if v is not None:
            return v
    return None


# ======================================================================================================
# values
# ======================================================================================================

class Val(object):
    """integer value: z3 bit-vector of the type's width"""
    __slots__ = ("t", "ct")

    def __init__(self, t, ct):
        self.t, self.ct = t, ct

    def __repr__(self):
        return "Val(%s:%r)" % (z3.simplify(self.t) if z3.is_expr(self.t) else self.t, self.ct)


class StrLit(object):
    def __init__(self, s):
        self.s = s


class Ref(object):
    """the address of an lvalue: (root variable, path); the only pointer values the subset knows besides string literals"""

    def __init__(self, lv):
        self.lv = (lv[0], list(lv[1]))


def bv(v, w):
    return z3.BitVecVal(v % (1 << w), w)


def concrete(t):
    """python int if the term simplifies to a numeral, else None"""
    if isinstance(t, int):
        return t
    s = z3.simplify(t)
    if z3.is_bv_value(s):
        return s.as_long()
    if z3.is_true(s):
        return 1
    if z3.is_false(s):
        return 0
    return None


def _zero_extended(t):
    """x when t is ZeroExt(k > 0, x), else None"""
    if z3.is_app_of(t, z3.Z3_OP_ZERO_EXT) and t.size() > t.arg(0).size():
        return t.arg(0)
    return None


def _sign_extended(t):
    """x when t is SignExt(k > 0, x), else None"""
    if z3.is_app_of(t, z3.Z3_OP_SIGN_EXT) and t.size() > t.arg(0).size():
        return t.arg(0)
    return None


def to_bool(v):
    if isinstance(v, StrLit):
        return z3.BoolVal(True)         # the address of a string literal is not null
    return v.t != bv(0, v.ct.width)


def ite_val(c, a, b):
    """merge two values of the same shape"""
    if a is b:
        return a
    if isinstance(a, Val):
        if z3.eq(a.t, b.t):
            return a
        return Val(z3.If(c, a.t, b.t), a.ct)
    if isinstance(a, dict):
        return dict((k, ite_val(c, a[k], b[k])) for k in a)
    if isinstance(a, list):
        return [ite_val(c, x, y) for x, y in zip(a, b)]
    if a is None or b is None:
        return a if b is None else b
    if isinstance(a, Ref) and isinstance(b, Ref) and a.lv[0] == b.lv[0] and len(a.lv[1]) == len(b.lv[1]):
        path = []
        for x, y in zip(a.lv[1], b.lv[1]):
            if isinstance(x, Val) and isinstance(y, Val):
                path.append(ite_val(c, x, y))
            elif x == y:
                path.append(x)
            else:
                raise Unsupported("cannot merge references")
        return Ref((a.lv[0], path))
    raise Unsupported("cannot merge %r / %r" % (a, b))


class State(object):
    def __init__(self, env=None, pc=None):
        self.env = env if env is not None else {}
        self.pc = pc if pc is not None else z3.BoolVal(True)

    def copy(self):
        return State(dict((k, _copy(v)) for k, v in self.env.items()), self.pc)


def _copy(v):
    if isinstance(v, Ref):
        return v
    if isinstance(v, dict):
        return dict((k, _copy(x)) for k, x in v.items())
    if isinstance(v, list):
        return [_copy(x) for x in v]
    return v


def merge_states(states):
    """one state equivalent to the disjunction of `states` (variables become ite over the path conditions)"""
    states = [s for s in states if s is not None]
    if not states:
        return None
    if len(states) == 1:
        return states[0]
    out = states[-1].copy()
    for s in reversed(states[:-1]):
        env = {}
        for k in out.env:
            if k in s.env:
                env[k] = ite_val(s.pc, s.env[k], out.env[k])
        out = State(env, z3.Or(s.pc, out.pc))
    out.pc = z3.simplify(out.pc)
    return out


# ======================================================================================================
# interpreter
# ======================================================================================================

OUTPUT_FUNCS = ("printf", "puts", "putchar", "putc", "fputs", "vprintf")
ABORT_FUNCS = ("exit", "abort", "__assert_fail", "_exit")


class Interp(object):
    def __init__(self, prog, max_unroll=300, solver_rlimit=2000000):
        self.prog = prog
        self.events = []            # (kind, z3 bool, info)
        self.max_unroll = max_unroll
        self.solver_rlimit = solver_rlimit
        self.fresh = 0
        self.inlined = {}           # function name -> times interpreted
        self.contract_calls = {}    # function name -> times used through a contract
        self.assume = []            # global assumptions (preconditions) used to decide loop conditions
        self.depth = 0
        self.heap = {}              # name -> value: read-only objects reachable through Ref((name, path))

    # ---- helpers ------------------------------------------------------------------------------------------
    def event(self, kind, cond, info=""):
        c = z3.simplify(cond) if z3.is_expr(cond) else z3.BoolVal(bool(cond))
        if z3.is_false(c):
            return
        self.events.append((kind, c, info))

    def fresh_val(self, ct, hint="undef"):
        self.fresh += 1
        return Val(z3.BitVec("%s!%d" % (hint, self.fresh), ct.width), ct)

    def default(self, ct, hint="undef"):
        if ct.kind == "int":
            return self.fresh_val(ct, hint)
        if ct.kind == "struct":
            return dict((n, self.default(t, hint)) for n, t in self.prog.fields(ct))
        if ct.kind == "array":
            return [self.default(ct.elem, hint) for _ in range(ct.count)]
        if ct.kind == "ptr":
            return None
        raise Unsupported("local of type %r" % ct)

    def decide(self, cond, state):
        """True / False when the condition is decided under the path condition, else None"""
        c = z3.simplify(cond)
        if z3.is_true(c):
            return True
        if z3.is_false(c):
            return False
        s = z3.Solver()
        s.set("rlimit", self.solver_rlimit)
        s.add(*self.assume)
        s.add(state.pc)
        s.push()
        s.add(c)
        r1 = s.check()
        s.pop()
        if r1 == z3.unsat:
            return False
        s.add(z3.Not(c))
        r2 = s.check()
        if r2 == z3.unsat:
            return True
        return None

    # ---- casts and arithmetic ----------------------------------------------------------------------------
    def cast(self, v, ct):
        if ct.kind == "void":
            return None
        if not isinstance(v, Val):
            if ct.kind in ("ptr", "struct", "array"):
                return v
            raise Unsupported("cast of non-integer to %r" % ct)
        if ct.kind == "ptr":
            return v
        if ct.kind != "int":
            raise Unsupported("cast to %r" % ct)
        sw, dw = v.ct.width, ct.width
        if dw == sw:
            return Val(v.t, ct)
        if dw < sw:
            return Val(z3.Extract(dw - 1, 0, v.t), ct)
        return Val(z3.SignExt(dw - sw, v.t) if v.ct.signed else z3.ZeroExt(dw - sw, v.t), ct)

    def shift(self, op, a, b, rt, state):
        w = rt.width
        a = self.cast(a, rt)
        cnt = b.t
        cw = b.ct.width
        # count as a w-bit quantity for z3; UB when count >= w (or negative)
        if cw < w:
            c2 = z3.ZeroExt(w - cw, cnt)
        elif cw > w:
            c2 = z3.Extract(w - 1, 0, cnt)
        else:
            c2 = cnt
        bad = z3.UGE(cnt, bv(w, cw)) if cw >= 8 or (1 << cw) > w else z3.BoolVal(False)
        self.event("ub-shift", z3.And(state.pc, bad), "%s by a count >= %d" % (op, w))
        ca, cc = concrete(a.t), concrete(cnt)
        if ca is not None and cc is not None and cc >= w:
            # both operands are compile-time constants: gcc and clang fold the expression (with a warning) to the mathematical
            # result -- 0, or the sign fill for a signed right shift -- at every optimisation level; the hardware never sees it
            if op == ">>" and rt.signed and ca >= (1 << (w - 1)):
                return Val(bv(-1, w), rt)
            return Val(bv(0, w), rt)
        masked = c2 & bv(w - 1, w)          # x86-64: the count is taken modulo the operand width (32 / 64)
        if op == "<<":
            return Val(a.t << masked, rt)
        if rt.signed:
            return Val(a.t >> masked, rt)
        return Val(z3.LShR(a.t, masked), rt)

    def binop(self, op, a, b, rt, state):
        if op in ("<<", ">>"):
            return self.shift(op, a, b, rt, state)
        if op in ("<", ">", "<=", ">=", "==", "!="):
            if not (isinstance(a, Val) and isinstance(b, Val)):
                raise Unsupported("comparison of non-integers")
            sg = a.ct.signed
            x, y = a.t, b.t
            if op == "==":
                c = x == y
            elif op == "!=":
                c = x != y
            elif op == "<":
                c = (x < y) if sg else z3.ULT(x, y)
            elif op == ">":
                c = (x > y) if sg else z3.UGT(x, y)
            elif op == "<=":
                c = (x <= y) if sg else z3.ULE(x, y)
            else:
                c = (x >= y) if sg else z3.UGE(x, y)
            return Val(z3.If(c, bv(1, rt.width), bv(0, rt.width)), rt)
        a, b = self.cast(a, rt), self.cast(b, rt)
        x, y = a.t, b.t
        if op in ("+", "-", "*") and rt.signed:
            # signed overflow of the promoted operation is undefined behaviour (e.g. uint16_t * uint16_t is an int product)
            ok = {"+": z3.And(z3.BVAddNoOverflow(x, y, True), z3.BVAddNoUnderflow(x, y)),
                  "-": z3.And(z3.BVSubNoOverflow(x, y), z3.BVSubNoUnderflow(x, y, True)),
                  "*": z3.And(z3.BVMulNoOverflow(x, y, True), z3.BVMulNoUnderflow(x, y))}[op]
            self.event("ub-overflow", z3.And(state.pc, z3.Not(ok)), "signed overflow of %s at %d bits" % (op, rt.width))
        if op == "+":
            r = x + y
        elif op == "-":
            r = x - y
        elif op == "*":
            r = x * y
        elif op == "&":
            r = x & y
        elif op == "|":
            r = x | y
        elif op == "^":
            r = x ^ y
        elif op in ("/", "%"):
            self.event("ub-div0", z3.And(state.pc, y == bv(0, rt.width)), "division by zero")
            nx, ny = _zero_extended(x), _zero_extended(y)
            sx_, sy_ = _sign_extended(x), _sign_extended(y)
            if not rt.signed and nx is not None and ny is not None:
                # unsigned operation on zero-extended operands: the operation at the narrow width (exact)
                n = max(nx.size(), ny.size())
                nx2 = z3.ZeroExt(n - nx.size(), nx) if nx.size() < n else nx
                ny2 = z3.ZeroExt(n - ny.size(), ny) if ny.size() < n else ny
                q = z3.UDiv(nx2, ny2) if op == "/" else z3.URem(nx2, ny2)
                r = z3.ZeroExt(rt.width - n, q)
            elif rt.signed and sx_ is not None and sy_ is not None and sx_.size() == sy_.size():
                # signed operation on sign-extended operands: the operation at the narrow width, except for the quotient
                # MIN / -1 which does not overflow at the wide width (exact)
                n = sx_.size()
                if op == "/":
                    ovf = z3.And(sx_ == bv(1 << (n - 1), n), sy_ == bv(-1, n))
                    r = z3.If(ovf, bv(1 << (n - 1), rt.width), z3.SignExt(rt.width - n, sx_ / sy_))
                else:
                    r = z3.SignExt(rt.width - n, z3.SRem(sx_, sy_))
            elif rt.signed and nx is not None and ny is not None:
                # both operands were promoted from narrower UNSIGNED values: they are non-negative, so the signed operation
                # is the unsigned one at the narrow width (sound rewriting; keeps the division out of the bit-blaster)
                n = max(nx.size(), ny.size())
                nx2 = z3.ZeroExt(n - nx.size(), nx) if nx.size() < n else nx
                ny2 = z3.ZeroExt(n - ny.size(), ny) if ny.size() < n else ny
                q = z3.UDiv(nx2, ny2) if op == "/" else z3.URem(nx2, ny2)
                r = z3.ZeroExt(rt.width - n, q)
            elif rt.signed:
                r = (x / y) if op == "/" else z3.SRem(x, y)
            else:
                r = z3.UDiv(x, y) if op == "/" else z3.URem(x, y)
        else:
            raise Unsupported("binary operator %s" % op)
        return Val(r, rt)

    # ---- lvalues -----------------------------------------------------------------------------------------
    def lvalue(self, node, state):
        """-> (root key, path list) ; indices must be concrete"""
        k = node["kind"]
        if k == "ParenExpr":
            return self.lvalue(node["inner"][0], state)
        if k == "DeclRefExpr":
            return (node["referencedDecl"]["id"], [])
        if k == "MemberExpr":
            if node.get("isArrow"):
                # p->f: p holds a reference to a struct (the address of an lvalue taken with &, or a struct bound to a pointer
                # parameter by the harness)
                base = node["inner"][0]
                pv = self.rvalue(self.expr(base, state), state)
                if isinstance(pv, Ref):
                    return (pv.lv[0], list(pv.lv[1]) + [node["name"]])
                b = base
                while b["kind"] in ("ImplicitCastExpr", "ParenExpr"):
                    b = b["inner"][0]
                if b["kind"] == "DeclRefExpr" and isinstance(pv, dict):
                    return (b["referencedDecl"]["id"], [node["name"]])
                raise Unsupported("-> through a pointer that is not a reference to a struct")
            root, path = self.lvalue(node["inner"][0], state)
            return (root, path + [node["name"]])
        if k == "ArraySubscriptExpr":
            base = node["inner"][0]
            while base["kind"] in ("ImplicitCastExpr", "ParenExpr"):
                base = base["inner"][0]
            root, path = self.lvalue(base, state)
            idx = self.rvalue(self.expr(node["inner"][1], state), state)
            cur = state.env.get(root, self.heap.get(root))
            for p_ in path:
                if cur is None:
                    break
                cur = cur[p_] if not isinstance(p_, Val) else None
            if isinstance(cur, Ref):
                # the base is a pointer variable holding a reference to an array (p[i] with p = array field / &array[0])
                return (cur.lv[0], list(cur.lv[1]) + [idx])
            return (root, path + [idx])
        if k == "ImplicitCastExpr":
            return self.lvalue(node["inner"][0], state)
        raise Unsupported("lvalue %s" % k)

    def load(self, lv, state, node=None):
        root, path = lv
        if root in state.env:
            v = state.env[root]
        elif root in self.heap:
            v = self.heap[root]         # read-only objects handed in by the harness (reached through references)
        else:
            v = self.global_value(root)
        for p in path:
            if isinstance(p, Val):
                i = concrete(p.t)
                if i is None:
                    # symbolic index: ite chain over the elements
                    elems = v
                    iw = p.ct.width
                    out = elems[-1]
                    for j in range(len(elems) - 2, -1, -1):
                        out = ite_val(p.t == bv(j, iw), elems[j], out)
                    self.event("ub-index", z3.And(state.pc, z3.UGE(p.t, bv(len(elems), iw)) if (1 << iw) > len(elems)
                                                  else z3.BoolVal(False)), "index out of bounds")
                    v = out
                    continue
                if p.ct.signed and i >= (1 << (p.ct.width - 1)):
                    i -= 1 << p.ct.width
                if not (0 <= i < len(v)):
                    self.event("ub-index", state.pc, "index %d out of bounds (size %d)" % (i, len(v)))
                    raise Unsupported("out-of-bounds index %d" % i)
                v = v[i]
            else:
                v = v[p]
        return v

    def store(self, lv, val, state):
        root, path = lv
        if root not in state.env:
            raise Unsupported("store to a global")
        if not path:
            state.env[root] = _copy(val)
            return
        v = state.env[root]
        for p in path[:-1]:
            v = v[self._idx(p, v, state)]
        v[self._idx(path[-1], v, state)] = _copy(val)

    def _idx(self, p, container, state):
        if isinstance(p, Val):
            i = concrete(p.t)
            if i is None:
                raise Unsupported("symbolic index on the left of an assignment")
            if p.ct.signed and i >= (1 << (p.ct.width - 1)):
                i -= 1 << p.ct.width
            if not (0 <= i < len(container)):
                self.event("ub-index", state.pc, "index %d out of bounds (size %d)" % (i, len(container)))
                raise Unsupported("out-of-bounds store index %d" % i)
            return i
        return p

    def global_value(self, decl_id):
        if decl_id in self.prog._glob_cache:
            return self.prog._glob_cache[decl_id]
        d = self.prog.by_id.get(decl_id)
        if d is None or d.get("kind") != "VarDecl":
            raise Unsupported("unknown variable %r" % (decl_id,))
        full = self.prog.globals.get(d["name"], d)
        ct = self.prog.ctype(full["type"])
        init = [c for c in full.get("inner", []) if c.get("kind") not in ("FullComment",)]
        if not init:
            raise Unsupported("global %s without initialiser" % d["name"])
        v = self.init_value(init[0], ct, State())
        self.prog._glob_cache[decl_id] = v
        for other in self.prog.by_id.values():
            if other.get("kind") == "VarDecl" and other.get("name") == d["name"]:
                self.prog._glob_cache[other["id"]] = v
        return v

    def init_value(self, node, ct, state):
        if node["kind"] == "InitListExpr":
            if ct.kind == "array":
                elems = [self.init_value(c, ct.elem, state) for c in node.get("inner", [])]
                while len(elems) < ct.count:
                    elems.append(Val(bv(0, ct.elem.width), ct.elem))
                return elems
            if ct.kind == "struct":
                fs = self.prog.fields(ct)
                out = {}
                inner = node.get("inner", [])
                for i, (n, t) in enumerate(fs):
                    out[n] = self.init_value(inner[i], t, state) if i < len(inner) else self.zero(t)
                return out
        return self.cast(self.expr(node, state), ct)

    def zero(self, ct):
        if ct.kind == "int":
            return Val(bv(0, ct.width), ct)
        if ct.kind == "array":
            return [self.zero(ct.elem) for _ in range(ct.count)]
        if ct.kind == "struct":
            return dict((n, self.zero(t)) for n, t in self.prog.fields(ct))
        return None

    # ---- expressions -------------------------------------------------------------------------------------
    def expr(self, node, state):
        k = node["kind"]
        m = getattr(self, "e_" + k, None)
        if m is None:
            raise Unsupported("expression %s" % k)
        return m(node, state)

    def rtype(self, node):
        return self.prog.ctype(node["type"])

    def e_IntegerLiteral(self, node, state):
        ct = self.rtype(node)
        return Val(bv(int(node["value"]), ct.width), ct)

    def e_CharacterLiteral(self, node, state):
        ct = self.rtype(node)
        return Val(bv(int(node["value"]), ct.width), ct)

    def e_StringLiteral(self, node, state):
        return StrLit(json.loads(node["value"]) if node["value"].startswith('"') else node["value"])

    def e_ConstantExpr(self, node, state):
        if "value" in node:
            ct = self.rtype(node)
            return Val(bv(int(node["value"]), ct.width), ct)
        return self.expr(node["inner"][0], state)

    def e_ParenExpr(self, node, state):
        return self.expr(node["inner"][0], state)

    def e_DeclRefExpr(self, node, state):
        ref = node["referencedDecl"]
        if ref["kind"] == "EnumConstantDecl":
            ct = self.rtype(node)
            return Val(bv(self.prog.enums[ref["name"]], ct.width), ct)
        if ref["kind"] == "FunctionDecl":
            return ("func", ref["name"])
        return ("lvalue", self.lvalue(node, state))

    def e_MemberExpr(self, node, state):
        return ("lvalue", self.lvalue(node, state))

    def e_ArraySubscriptExpr(self, node, state):
        return ("lvalue", self.lvalue(node, state))

    def rvalue(self, v, state):
        if isinstance(v, tuple) and v and v[0] == "lvalue":
            return self.load(v[1], state)
        return v

    def e_ImplicitCastExpr(self, node, state):
        ck = node.get("castKind")
        inner = node["inner"][0]
        if ck == "LValueToRValue":
            v = self.expr(inner, state)
            v = self.rvalue(v, state)
            if isinstance(v, Val) and z3.is_const(v.t) and v.t.decl().name().startswith("undef!"):
                self.event("uninit", state.pc, "read of an uninitialised local")
            return v
        if ck == "ArrayToPointerDecay":
            v = self.expr(inner, state)
            if isinstance(v, tuple) and v and v[0] == "lvalue":
                return Ref(v[1])
            return v
        if ck in ("FunctionToPointerDecay", "NoOp", "BitCast", "NullToPointer"):
            return self.expr(inner, state)
        v = self.rvalue(self.expr(inner, state), state)
        if ck == "IntegralCast":
            return self.cast(v, self.rtype(node))
        if ck == "IntegralToBoolean":
            ct = self.rtype(node)
            return Val(z3.If(to_bool(v), bv(1, ct.width), bv(0, ct.width)), ct)
        if ck in ("ToVoid",):
            return None
        if ck in ("PointerToBoolean",):
            ct = self.rtype(node)
            return Val(bv(1, ct.width), ct)          # only used by require(str, ...): a string literal is non-null
        raise Unsupported("cast kind %s" % ck)

    e_CStyleCastExpr = e_ImplicitCastExpr

    def e_UnaryOperator(self, node, state):
        op = node["opcode"]
        ct = self.rtype(node) if node["type"].get("qualType") != "void" else None
        sub = node["inner"][0]
        if op == "__extension__":
            return self.expr(sub, state)
        if op in ("++", "--"):
            lv = self.lvalue(sub, state)
            old = self.load(lv, state)
            one = bv(1, old.ct.width)
            new = Val(old.t + one if op == "++" else old.t - one, old.ct)
            self.store(lv, new, state)
            return old if node.get("isPostfix") else new
        if op == "&":
            return Ref(self.lvalue(sub, state))
        v = self.rvalue(self.expr(sub, state), state)
        if op == "-":
            return Val(-v.t, ct)
        if op == "+":
            return Val(v.t, ct)
        if op == "~":
            return Val(~v.t, ct)
        if op == "!":
            return Val(z3.If(to_bool(v), bv(0, ct.width), bv(1, ct.width)), ct)
        raise Unsupported("unary %s" % op)

    def e_BinaryOperator(self, node, state):
        op = node["opcode"]
        l, r = node["inner"]
        if op == "=":
            lv = self.lvalue(l, state)
            v = self.rvalue(self.expr(r, state), state)
            self.store(lv, v, state)
            return v
        if op == ",":
            self.expr(l, state)
            return self.rvalue(self.expr(r, state), state)
        ct = self.rtype(node)
        if op in ("&&", "||"):
            a = self.rvalue(self.expr(l, state), state)
            ca = to_bool(a)
            d = self.decide(ca, state)
            if op == "&&" and d is False:
                return Val(bv(0, ct.width), ct)
            if op == "||" and d is True:
                return Val(bv(1, ct.width), ct)
            # the right operand is evaluated only when needed: its events carry that condition
            sub = State(state.env, z3.And(state.pc, ca if op == "&&" else z3.Not(ca)))
            b = self.rvalue(self.expr(r, sub), sub)
            cb = to_bool(b)
            c = z3.And(ca, cb) if op == "&&" else z3.Or(ca, cb)
            return Val(z3.If(c, bv(1, ct.width), bv(0, ct.width)), ct)
        a = self.rvalue(self.expr(l, state), state)
        b = self.rvalue(self.expr(r, state), state)
        return self.binop(op, a, b, ct, state)

    def e_CompoundAssignOperator(self, node, state):
        op = node["opcode"][:-1]
        l, r = node["inner"]
        lv = self.lvalue(l, state)
        old = self.load(lv, state)
        b = self.rvalue(self.expr(r, state), state)
        comp_t = self.prog.ctype(node.get("computeResultType") or node["type"])
        lhs_t = self.prog.ctype(node.get("computeLHSType") or node["type"])
        a = self.cast(old, lhs_t)
        res = self.binop(op, a, b, comp_t, state)
        res = self.cast(res, old.ct)
        self.store(lv, res, state)
        return res

    def e_ConditionalOperator(self, node, state):
        c, a, b = node["inner"]
        cv = to_bool(self.rvalue(self.expr(c, state), state))
        d = self.decide(cv, state)
        if d is True:
            return self.rvalue(self.expr(a, state), state)
        if d is False:
            return self.rvalue(self.expr(b, state), state)
        sa = State(state.env, z3.And(state.pc, cv))
        sb = State(state.env, z3.And(state.pc, z3.Not(cv)))
        va = self.rvalue(self.expr(a, sa), sa)
        vb = self.rvalue(self.expr(b, sb), sb)
        if va is None or vb is None:
            return None
        return ite_val(cv, va, vb)

    def e_StmtExpr(self, node, state):
        """GNU statement expression (glibc's assert): the statements run in place; only void results are supported"""
        outs = self.stmt(node["inner"][0], state)
        normals = [s for kind, s, v in outs if kind == "normal"]
        if any(kind != "normal" for kind, s, v in outs):
            raise Unsupported("jump out of a statement expression")
        m = merge_states(normals)
        if m is None:
            state.pc = z3.BoolVal(False)
        else:
            state.env, state.pc = m.env, m.pc
        return None

    def e_UnaryExprOrTypeTraitExpr(self, node, state):
        if node.get("name") != "sizeof":
            raise Unsupported("type trait %s" % node.get("name"))
        ct = self.rtype(node)
        at = node.get("argType")
        if at is None:
            at = node["inner"][0]["type"]
        return Val(bv(self.sizeof(self.prog.ctype(at)), ct.width), ct)

    def sizeof(self, ct):
        if ct.kind == "int":
            return ct.width // 8
        if ct.kind == "array":
            return ct.count * self.sizeof(ct.elem)
        if ct.kind == "struct":
            return sum(self.sizeof(t) for _, t in self.prog.fields(ct))
        if ct.kind == "ptr":
            return 8
        raise Unsupported("sizeof %r" % ct)

    def e_CallExpr(self, node, state):
        callee = node["inner"][0]
        while callee["kind"] in ("ImplicitCastExpr", "ParenExpr"):
            callee = callee["inner"][0]
        if callee["kind"] != "DeclRefExpr":
            raise Unsupported("indirect call")
        name = callee["referencedDecl"]["name"]
        argn = node["inner"][1:]
        if name in OUTPUT_FUNCS:
            self.event("output", state.pc, name)
            return Val(bv(0, 32), CType("int", 32, True))
        if name == "fprintf":
            stream = argn[0]
            while stream["kind"] in ("ImplicitCastExpr", "ParenExpr"):
                stream = stream["inner"][0]
            sname = stream.get("referencedDecl", {}).get("name")
            self.event("output" if sname != "stderr" else "stderr", state.pc, "fprintf(%s)" % sname)
            return Val(bv(0, 32), CType("int", 32, True))
        if name in ABORT_FUNCS:
            self.event("abort", state.pc, name)
            state.pc = z3.BoolVal(False)
            return None
        args = [self.rvalue(self.expr(a, state), state) for a in argn]
        if name in self.prog.contracts:
            self.contract_calls[name] = self.contract_calls.get(name, 0) + 1
            return self.prog.contracts[name](self, state, args, node)
        fd = self.prog.funcs.get(name)
        if fd is None:
            raise Unsupported("call to %s: no body and no contract" % name)
        return self.call(fd, args, state)

    def call(self, fd, args, state):
        """interpret the body of fd on args under state.pc; returns the (merged) return value"""
        self.inlined[fd["name"]] = self.inlined.get(fd["name"], 0) + 1
        self.depth += 1
        if self.depth > 40:
            raise Unsupported("call depth")
        params = [p for p in fd.get("inner", []) if p.get("kind") == "ParmVarDecl"]
        body = [c for c in fd["inner"] if c.get("kind") == "CompoundStmt"][0]
        frame = State({}, state.pc)
        for p, a in zip(params, args):
            frame.env[p["id"]] = _copy(self.cast(a, self.prog.ctype(p["type"])) if isinstance(a, Val) else a)
        outs = self.stmt(body, frame)
        self.depth -= 1
        rets = [(s, v) for (kind, s, v) in outs if kind == "return"]
        falls = [s for (kind, s, v) in outs if kind == "normal"]
        rt_s = fd["type"]["qualType"].split("(")[0].strip()
        rct = parse_type(self.prog.typedefs.get(rt_s, {}).get("desugaredQualType") or
                         self.prog.typedefs.get(rt_s, {}).get("qualType") or rt_s, self.prog.structs)
        if rct.kind != "void" and falls:
            live = [s for s in falls if not z3.is_false(z3.simplify(s.pc))]
            for s in live:
                if self.decide(z3.BoolVal(True), s) is not None and self._feasible(s):
                    self.event("ub-noreturn", s.pc, "control reaches the end of non-void %s" % fd["name"])
        if rct.kind == "void":
            return None
        if not rets:
            state.pc = z3.BoolVal(False)
            return self.default(rct, "noret")
        val = rets[-1][1]
        val = self.cast(val, rct) if isinstance(val, Val) else val
        for s, v in reversed(rets[:-1]):
            v = self.cast(v, rct) if isinstance(v, Val) else v
            val = ite_val(s.pc, v, val)
        return val

    def _feasible(self, s):
        sol = z3.Solver()
        sol.set("rlimit", self.solver_rlimit)
        sol.add(*self.assume)
        sol.add(s.pc)
        return sol.check() != z3.unsat

    # ---- statements: return a list of (kind, state, value) with kind in normal / break / continue / return ----------
    def stmt(self, node, state):
        k = node.get("kind")
        if k is None:
            return [("normal", state, None)]
        m = getattr(self, "s_" + k, None)
        if m is None:
            # expression statement
            self.expr(node, state)
            return [("normal", state, None)]
        return m(node, state)

    def seq(self, nodes, state):
        outs = []
        cur = state
        for n in nodes:
            if cur is None:
                break
            res = self.stmt(n, cur)
            nxt = []
            for kind, s, v in res:
                if kind == "normal":
                    nxt.append(s)
                else:
                    outs.append((kind, s, v))
            cur = merge_states(nxt)
            if cur is not None and z3.is_false(z3.simplify(cur.pc)):
                cur = None          # every path reaching this point has aborted
        if cur is not None:
            outs.append(("normal", cur, None))
        return outs

    def s_CompoundStmt(self, node, state):
        return self.seq(node.get("inner", []), state)

    def s_NullStmt(self, node, state):
        return [("normal", state, None)]

    def s_DeclStmt(self, node, state):
        for d in node.get("inner", []):
            if d["kind"] != "VarDecl":
                continue
            self.prog.by_id[d["id"]] = d
            ct = self.prog.ctype(d["type"])
            init = [c for c in d.get("inner", []) if "kind" in c]
            if init:
                v = self.init_value(init[0], ct, state) if init[0]["kind"] == "InitListExpr" else \
                    self.rvalue(self.expr(init[0], state), state)
                if isinstance(v, Val):
                    v = self.cast(v, ct)
                state.env[d["id"]] = _copy(v)
            else:
                state.env[d["id"]] = self.default(ct)
        return [("normal", state, None)]

    def s_ReturnStmt(self, node, state):
        inner = [c for c in node.get("inner", []) if "kind" in c]
        v = self.rvalue(self.expr(inner[0], state), state) if inner else None
        return [("return", state, v)]

    def s_BreakStmt(self, node, state):
        return [("break", state, None)]

    def s_ContinueStmt(self, node, state):
        return [("continue", state, None)]

    def s_IfStmt(self, node, state):
        inner = node["inner"]
        cond, then = inner[0], inner[1]
        els = inner[2] if len(inner) > 2 else None
        cv = to_bool(self.rvalue(self.expr(cond, state), state))
        d = self.decide(cv, state)
        if d is True:
            return self.stmt(then, state)
        if d is False:
            return self.stmt(els, state) if els is not None else [("normal", state, None)]
        s1 = state.copy()
        s1.pc = z3.And(state.pc, cv)
        s2 = state
        s2.pc = z3.And(state.pc, z3.Not(cv))
        o1 = self.stmt(then, s1)
        o2 = self.stmt(els, s2) if els is not None else [("normal", s2, None)]
        outs = []
        normals = []
        for kind, s, v in o1 + o2:
            if kind == "normal":
                normals.append(s)
            else:
                outs.append((kind, s, v))
        m = merge_states(normals)
        if m is not None:
            outs.append(("normal", m, None))
        return outs

    def _loop(self, state, cond, body, inc, test_first=True):
        outs = []
        exits = []
        cur = state
        n = 0
        first = True
        while cur is not None:
            if test_first or not first:
                if cond is not None and "kind" in cond:
                    cv = to_bool(self.rvalue(self.expr(cond, cur), cur))
                    d = self.decide(cv, cur)
                    if d is False:
                        exits.append(cur)
                        break
                    if d is None:
                        ex = cur.copy()
                        ex.pc = z3.And(cur.pc, z3.Not(cv))
                        exits.append(ex)
                        cur.pc = z3.And(cur.pc, cv)
            first = False
            n += 1
            if n > self.max_unroll:
                raise Unsupported("loop not unwound within %d iterations" % self.max_unroll)
            res = self.stmt(body, cur)
            conts = []
            for kind, s, v in res:
                if kind in ("normal", "continue"):
                    conts.append(s)
                elif kind == "break":
                    exits.append(s)
                else:
                    outs.append((kind, s, v))
            cur = merge_states(conts)
            if cur is not None and inc is not None and "kind" in inc:
                self.expr(inc, cur)
            if cur is not None and z3.is_false(z3.simplify(cur.pc)):
                cur = None
        m = merge_states(exits)
        if m is not None:
            outs.append(("normal", m, None))
        return outs

    def s_ForStmt(self, node, state):
        init, condvar, cond, inc, body = node["inner"]
        if "kind" in init:
            res = self.stmt(init, state)
            state = [s for kind, s, v in res if kind == "normal"][0]
        return self._loop(state, cond, body, inc)

    def s_WhileStmt(self, node, state):
        cond, body = node["inner"][-2], node["inner"][-1]
        return self._loop(state, cond, body, None)

    def s_DoStmt(self, node, state):
        body, cond = node["inner"]
        return self._loop(state, cond, body, None, test_first=False)

    def s_SwitchStmt(self, node, state):
        inner = [c for c in node["inner"] if "kind" in c]
        cond, body = inner[-2], inner[-1]
        v = self.rvalue(self.expr(cond, state), state)
        c = concrete(v.t)
        if c is None:
            raise Unsupported("switch on a symbolic value")
        if v.ct.signed and c >= (1 << (v.ct.width - 1)):
            c -= 1 << v.ct.width
        # flatten the body: a list of (label or None, statement)
        flat = []

        def add(n):
            if n["kind"] == "CaseStmt":
                ch = [x for x in n["inner"] if "kind" in x]
                val = int(ch[0]["value"]) if "value" in ch[0] else concrete(self.expr(ch[0], state).t)
                flat.append((("case", val), None))
                add(ch[-1])
            elif n["kind"] == "DefaultStmt":
                flat.append((("default",), None))
                add(n["inner"][-1])
            else:
                flat.append((None, n))
        for n in body.get("inner", []):
            add(n)
        start = None
        for i, (lab, _) in enumerate(flat):
            if lab == ("case", c):
                start = i
                break
        if start is None:
            for i, (lab, _) in enumerate(flat):
                if lab == ("default",):
                    start = i
                    break
        if start is None:
            return [("normal", state, None)]
        res = self.seq([s for (lab, s) in flat[start:] if s is not None], state)
        outs = []
        for kind, s, v in res:
            outs.append(("normal" if kind == "break" else kind, s, v))
        normals = [s for kind, s, v in outs if kind == "normal"]
        rest = [(kind, s, v) for kind, s, v in outs if kind != "normal"]
        m = merge_states(normals)
        if m is not None:
            rest.append(("normal", m, None))
        return rest


# ======================================================================================================
# loading the real sources
# ======================================================================================================

_CACHE = {}


def load_program(files, include_dirs, defines=()):
    """Program built from the clang ASTs of the given real files (cached per (path, mtime))"""
    prog = Program()
    for f in files:
        key = (f, os.path.getmtime(f), tuple(include_dirs), tuple(defines))
        if key not in _CACHE:
            _CACHE[key] = clang_ast(f, include_dirs, defines)
        prog.add_tu(_CACHE[key])
    return prog
