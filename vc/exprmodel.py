"""Front-end support for miasm expressions whose constants are symbolic (closed templates, C03/C07/...).

* ``Expr.get_object`` is used through its C08 contract: structural equality decides identity.  An expression with a
  symbolic component is a fresh real instance (object.__new__ of the real class, fields filled by the real, interpreted
  __new__/__init__); ``==`` / ``is`` / dictionary lookups on such expressions are *structural* (SymBool), which is exactly
  what hash-consing guarantees for the real objects.
* Global memo tables must not be consulted with symbolic keys: ``fresh_simplifier`` builds a simplifier by the recipe of
  the shipped instances (same pass tables, empty caches) and gives the global canonizer an empty cache.
"""
from __future__ import annotations

import miasm.expression.expression as m2
from miasm.expression.expression import (Expr, ExprAssign, ExprCompose, ExprCond, ExprId, ExprInt, ExprLoc, ExprMem, ExprOp,
                                         ExprSlice)

from .sbytes import ByteHooks
from .terms import And, Eq, Not, Or, is_sym


def get_object_contract(o, args, kwargs):
    """Expr.get_object(expr_cls, args): the unique object for (cls, args).  With a symbolic component in args the
    uniqueness is carried by structural equality (see ExprHooks.equal), so a fresh instance is returned."""
    expr_cls, key = args
    if o.concrete(key):
        return Expr.get_object(expr_cls, key)
    obj = object.__new__(expr_cls)
    o.sym_objects.add(id(obj))
    o.path.locals.setdefault("_keepalive", []).append(obj)
    return obj


def _fields(e):
    c = type(e)
    if c is ExprInt:
        return (e._arg, e._size)
    if c is ExprId:
        return (e._name, e._size)
    if c is ExprLoc:
        return (e._loc_key, e._size)
    if c is ExprOp:
        return (e._op, len(e._args)) + tuple(e._args)
    if c is ExprSlice:
        return (e._arg, e._start, e._stop)
    if c is ExprCompose:
        return (len(e._args),) + tuple(e._args)
    if c is ExprCond:
        return (e._cond, e._src1, e._src2)
    if c is ExprMem:
        return (e._ptr, e._size)
    if issubclass(c, ExprAssign):
        return (e._dst, e._src)
    raise TypeError(c)


class ExprHooks(ByteHooks):
    def is_sym_expr(self, o, v):
        return id(v) in o.sym_objects

    def concrete(self, o, v):
        if isinstance(v, Expr):
            return id(v) not in o.sym_objects
        if isinstance(v, m2.LocKey):
            return True
        return ByteHooks.concrete(self, o, v)

    def struct_eq(self, o, a, b):
        if a is b:
            return True
        if type(a) is not type(b):
            return False
        if not self.is_sym_expr(o, a) and not self.is_sym_expr(o, b):
            return False          # two distinct interned concrete objects
        fa, fb = _fields(a), _fields(b)
        if len(fa) != len(fb):
            return False
        conj = []
        for x, y in zip(fa, fb):
            if isinstance(x, Expr):
                r = self.struct_eq(o, x, y)
            elif is_sym(x) or is_sym(y):
                r = Eq(x, y)
            else:
                r = (x == y)
            if r is False:
                return False
            conj.append(r)
        return And(*conj)

    def identical(self, o, a, b):
        if isinstance(a, Expr) and isinstance(b, Expr):
            return self.struct_eq(o, a, b)
        return None

    def equal(self, o, a, b):
        if isinstance(a, Expr) or isinstance(b, Expr):
            if isinstance(a, Expr) and isinstance(b, Expr):
                return self.struct_eq(o, a, b)
            return False
        return ByteHooks.equal(self, o, a, b)

    # -- memo tables ----------------------------------------------------------------------------------
    def _memo_find(self, o, d, k):
        if o.concrete(k):
            if dict.__contains__(d, k):
                return k
        for k2 in d:
            if k2 is k:
                return k2
            if isinstance(k2, Expr) and isinstance(k, Expr) and self.struct_eq(o, k2, k) is True:
                return k2
        return None

    def contains(self, o, cont, x):
        if isinstance(cont, MemoDict):
            return self._memo_find(o, cont, x) is not None
        return ByteHooks.contains(self, o, cont, x)

    def getitem(self, o, obj, idx):
        if isinstance(obj, MemoDict):
            k = self._memo_find(o, obj, idx)
            if k is None:
                raise o.pyvc.Raised(KeyError("memo"))
            return dict.__getitem__(obj, k)
        return ByteHooks.getitem(self, o, obj, idx)

    def setitem(self, o, obj, idx, v):
        if isinstance(obj, MemoDict):
            k = self._memo_find(o, obj, idx)
            dict.__setitem__(obj, idx if k is None else k, v)
            return None
        return ByteHooks.setitem(self, o, obj, idx, v)

    # -- structural parameters are concrete -----------------------------------------------------------
    def call(self, o, f, args, kwargs):
        """widths and slice bounds determine the SHAPE of an expression: a symbolic one is enumerated over its feasible values"""
        if f is ExprSlice and len(args) == 3 and (is_sym(args[1]) or is_sym(args[2])):
            args = [args[0], o.path.pick_value(args[1], "slice start"), o.path.pick_value(args[2], "slice stop")]
            return o.instantiate(ExprSlice, args, kwargs)
        if f is ExprInt and len(args) == 2 and is_sym(args[1]):
            return o.instantiate(ExprInt, [args[0], o.path.pick_value(args[1], "ExprInt size")], kwargs)
        if f is ExprMem and len(args) == 2 and is_sym(args[1]):
            return o.instantiate(ExprMem, [args[0], o.path.pick_value(args[1], "ExprMem size")], kwargs)
        return ByteHooks.call(self, o, f, args, kwargs)

    def builtin_method(self, o, obj, name, args, kwargs):
        if isinstance(obj, slice) and name == "indices":
            st = None if obj.start is None else o.path.pick_value(obj.start, "slice start")
            sp = None if obj.stop is None else o.path.pick_value(obj.stop, "slice stop")
            step = None if obj.step is None else o.path.pick_value(obj.step, "slice step")
            n = o.path.pick_value(args[0], "length")
            return slice(st, sp, step).indices(n)
        return ByteHooks.builtin_method(self, o, obj, name, args, kwargs)

    def hash(self, o, x):
        if isinstance(x, Expr):
            from .terms import UF
            return 0       # a constant hash is consistent with any equality; dict/set models never use hashes
        return None


class MemoDict(dict):
    """Marks a dictionary of the real objects as a pure memoization table (the visitors' `cache`).  Natively it is a
    plain dict.  Under the interpreter a lookup with a symbolic key hits only when the key is *certainly* equal to a stored
    one (same object, or structurally identical terms); an uncertain comparison is resolved as a miss.  This is sound for
    every property that does not speak about the cache itself because the cached value is, by the purity of the passes
    (assumption recorded in the evidence), the value that the recomputation on the miss path produces."""


def fresh_simplifier(passes):
    """ExpressionSimplifier built by the recipe of the shipped instances, with empty memo tables"""
    from miasm.expression.simplifications import ExpressionSimplifier
    s = ExpressionSimplifier()
    for p in passes:
        s.enable_passes(p)
    s.cache = MemoDict()
    m2.canonize_visitor.cache = MemoDict()
    return s


def expr_config(extra_contracts=None):
    c = {Expr.get_object: get_object_contract}
    if extra_contracts:
        c.update(extra_contracts)
    return {"hooks": ExprHooks(), "contracts": c}
