"""Map live function objects of the real modules back to the ast of the real source file (re-read on every run).

What the extraction drops: comments, docstrings (a leading string-expression statement evaluates to nothing).
Everything else of the function text is interpreted.
"""
from __future__ import annotations

import ast
import hashlib
import os
import types

_FILES = {}      # filename -> (source, tree, index)


class SourceUnavailable(Exception):
    pass


def _load_file(filename):
    ent = _FILES.get(filename)
    if ent is not None:
        return ent
    try:
        with open(filename, "r", encoding="utf-8") as f:
            src = f.read()
    except OSError as e:
        raise SourceUnavailable("%s: %s" % (filename, e))
    tree = ast.parse(src, filename)
    index = {}
    for node in ast.walk(tree):
        if isinstance(node, (ast.FunctionDef, ast.AsyncFunctionDef)):
            lines = [node.lineno] + [d.lineno for d in node.decorator_list]
            for ln in lines:
                index.setdefault(("def", node.name, ln), node)
        elif isinstance(node, ast.Lambda):
            index.setdefault(("lambda", node.lineno), []).append(node)
        elif isinstance(node, (ast.ListComp, ast.SetComp, ast.DictComp, ast.GeneratorExp)):
            pass
    ent = (src, tree, index)
    _FILES[filename] = ent
    return ent


def clear_cache():
    _FILES.clear()
    _BY_CODE.clear()


def func_ast(fn):
    """FunctionDef / Lambda node for a python function object (or code object)"""
    code = fn.__code__ if hasattr(fn, "__code__") else fn
    hit = _BY_CODE.get(code)
    if hit is not None:
        return hit
    filename = code.co_filename
    if filename not in _FILES and not os.path.exists(filename):
        raise SourceUnavailable("no source for %r (%s)" % (fn, filename))
    r = _func_ast(fn, code, filename)
    _BY_CODE[code] = r
    return r


_BY_CODE = {}


def _func_ast(fn, code, filename):
    src, tree, index = _load_file(filename)
    if code.co_name == "<lambda>":
        cands = index.get(("lambda", code.co_firstlineno), [])
        if len(cands) == 1:
            return cands[0], filename
        # several lambdas on the line: pick by first column of the body
        cols = [p for p in code.co_positions() if p[0] is not None and p[2] is not None]
        for c in cands:
            for (l0, l1, c0, c1) in cols:
                if l0 == c.body.lineno and c0 is not None and c.body.col_offset <= c0 and (
                        c.body.end_col_offset is None or c0 < c.body.end_col_offset or l0 != c.body.end_lineno):
                    return c, filename
        if cands:
            raise SourceUnavailable("ambiguous lambda at %s:%d" % (filename, code.co_firstlineno))
        raise SourceUnavailable("lambda not found at %s:%d" % (filename, code.co_firstlineno))
    node = index.get(("def", code.co_name, code.co_firstlineno))
    if node is None:
        raise SourceUnavailable("def %s not found at %s:%d" % (code.co_name, filename, code.co_firstlineno))
    return node, filename


def func_text_hash(fn):
    node, filename = func_ast(fn)
    src = _FILES[filename][0]
    seg = ast.get_source_segment(src, node) or ""
    return {"file": filename, "line": node.lineno, "sha1": hashlib.sha1(seg.encode()).hexdigest()[:16],
            "lines": (node.end_lineno or node.lineno) - node.lineno + 1}


def is_python_function(f):
    return isinstance(f, types.FunctionType)
