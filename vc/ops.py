"""Operations of the interpreted language on hybrid (concrete / symbolic-scalar) values, the Python object-model
dispatch (dunder protocol, descriptors, instantiation) and the models of builtins.  Trusted list: DESIGN.md 3.2.
"""
from __future__ import annotations

import ast
import builtins
import functools
import inspect
import itertools
import operator
import os
import types

from .path import EngineError, Infeasible, Unsupported
from .terms import (Abs, And, EncodingUnsupported, Eq, Ite, Max, Min, Not, Or, PyArith, SymBool, SymInt, b2i, is_sym,
                    mk_cmp, mk_int, tobool)

_SCALAR = (int, SymInt, SymBool)      # bool is an int
_ATOMIC = (int, float, str, bytes, type(None), complex, range, slice, type(Ellipsis), type(NotImplemented))
_FUNCLIKE = (types.FunctionType, types.BuiltinFunctionType, types.MethodDescriptorType, types.WrapperDescriptorType,
             types.MethodWrapperType, type, types.ModuleType, functools.partial, staticmethod, classmethod, property,
             types.GetSetDescriptorType, types.MemberDescriptorType, types.ClassMethodDescriptorType)

REPO_PREFIX = "/repo/"
VERIF_PREFIX = os.path.dirname(os.path.dirname(os.path.abspath(__file__))) + "/"      # checkout-relative, not "/verif/"

_total_ordering_fns = set()
for _n in dir(functools):
    if _n.startswith("_") and ("_from_" in _n):
        _total_ordering_fns.add(getattr(functools, _n))
_TO_NAMES = {
    "_gt_from_lt": lambda o, a, b: And(Not(o.cmp_dunder("__lt__", a, b)), Not(o.cmp_dunder("__eq__", a, b))),
    "_le_from_lt": lambda o, a, b: Or(o.cmp_dunder("__lt__", a, b), o.cmp_dunder("__eq__", a, b)),
    "_ge_from_lt": lambda o, a, b: Not(o.cmp_dunder("__lt__", a, b)),
    "_ge_from_le": lambda o, a, b: Or(Not(o.cmp_dunder("__le__", a, b)), o.cmp_dunder("__eq__", a, b)),
    "_lt_from_le": lambda o, a, b: And(o.cmp_dunder("__le__", a, b), Not(o.cmp_dunder("__eq__", a, b))),
    "_gt_from_le": lambda o, a, b: Not(o.cmp_dunder("__le__", a, b)),
    "_lt_from_gt": lambda o, a, b: And(Not(o.cmp_dunder("__gt__", a, b)), Not(o.cmp_dunder("__eq__", a, b))),
    "_ge_from_gt": lambda o, a, b: Or(o.cmp_dunder("__gt__", a, b), o.cmp_dunder("__eq__", a, b)),
    "_le_from_gt": lambda o, a, b: Not(o.cmp_dunder("__gt__", a, b)),
    "_le_from_ge": lambda o, a, b: Or(Not(o.cmp_dunder("__ge__", a, b)), o.cmp_dunder("__eq__", a, b)),
    "_gt_from_ge": lambda o, a, b: And(o.cmp_dunder("__ge__", a, b), Not(o.cmp_dunder("__eq__", a, b))),
    "_lt_from_ge": lambda o, a, b: Not(o.cmp_dunder("__ge__", a, b)),
}
# functools.total_ordering renames the shared helper functions (opfunc.__name__ = opname): key the models by identity
_TO_MAP = dict((getattr(functools, n), f) for n, f in _TO_NAMES.items() if hasattr(functools, n))

_CMP_DUNDER = {ast.Eq: ("__eq__", "__eq__"), ast.NotEq: ("__ne__", "__ne__"), ast.Lt: ("__lt__", "__gt__"),
               ast.LtE: ("__le__", "__ge__"), ast.Gt: ("__gt__", "__lt__"), ast.GtE: ("__ge__", "__le__")}


def is_repo_function(f):
    return isinstance(f, types.FunctionType) and f.__code__.co_filename.startswith(REPO_PREFIX)


def is_repo_class(c):
    mod = getattr(c, "__module__", "") or ""
    return isinstance(c, type) and (mod.startswith("miasm.") or mod == "miasm" or getattr(c, "_vc_interpreted_", False))



class Hooks(object):
    """extension points for front ends (lazy expression inputs, modelled classes).  Every method returns
    None / NotImplemented for "not mine"."""

    def concrete(self, o, v): return None
    def truth(self, o, v): return None
    def binop(self, o, name, a, b): return NotImplemented
    def unop(self, o, name, v): return NotImplemented
    def identical(self, o, a, b): return None
    def equal(self, o, a, b): return None
    def order(self, o, op, a, b): return None
    def contains(self, o, cont, x): return None
    def getitem(self, o, obj, idx): return NotImplemented
    def setitem(self, o, obj, idx, v): return NotImplemented
    def delitem(self, o, obj, idx): return NotImplemented
    def iterate(self, o, v): return None
    def length(self, o, v): return None
    def getattr(self, o, obj, name): return NotImplemented
    def setattr(self, o, obj, name, v): return NotImplemented
    def call(self, o, f, args, kwargs): return NotImplemented
    def builtin_method(self, o, obj, name, args, kwargs): return NotImplemented
    def isinstance(self, o, x, cls): return None
    def to_int(self, o, x): return None
    def typeof(self, o, x): return None
    def hash(self, o, x): return None


class Ops(object):
    def __init__(self, interp):
        from . import pyvc
        self.I = interp
        self.pyvc = pyvc
        self.path = interp.path
        self.hooks = interp.cfg.get("hooks")          # object with optional methods (lazy Expr support etc.)
        if self.hooks is None:
            from . import sbytes
            self.hooks = sbytes.ByteHooks()
        self.contracts = interp.cfg.get("contracts", {})   # function object -> handler(ops, args, kwargs)
        self.force_native = interp.cfg.get("native", set())
        self.models = dict(_MODELS)
        self.models.update(interp.cfg.get("models", {}))
        self.sym_objects = set()     # ids of instances known to hold symbolic state

    # ==================================================================================================
    # concreteness
    # ==================================================================================================
    def concrete(self, v, depth=0):
        """True iff v certainly contains no symbolic scalar (so that native execution is exact)"""
        if isinstance(v, slice):
            return not (is_sym(v.start) or is_sym(v.stop) or is_sym(v.step))
        if isinstance(v, _ATOMIC):
            return True
        if isinstance(v, (SymInt, SymBool)):
            return False
        if isinstance(v, _FUNCLIKE):
            return True
        if depth > 6:
            return False
        if isinstance(v, (tuple, list, set, frozenset)):
            for x in v:
                if not self.concrete(x, depth + 1):
                    return False
            return True
        if isinstance(v, dict):
            for k, x in v.items():
                if not self.concrete(k, depth + 1) or not self.concrete(x, depth + 1):
                    return False
            return True
        if isinstance(v, (self.pyvc.IFunc, self.pyvc.IBound, self.pyvc.ISuper, self.pyvc.LazyGen, self.pyvc.CmpKey)):
            return False
        if isinstance(v, types.MethodType):
            return self.concrete(v.__self__, depth + 1)
        if self.hooks is not None:
            r = self.hooks.concrete(self, v)
            if r is not None:
                return r
        if isinstance(v, BaseException):
            return self.concrete(v.args, depth + 1)
        if isinstance(v, (bytearray, memoryview)):
            return True
        cls = type(v)
        if cls.__module__ == "array":
            return True
        # generic instance: look at its state
        if id(v) in self.sym_objects:
            return False
        try:
            d = v.__dict__
        except AttributeError:
            d = None
        if d is not None:
            for x in d.values():
                if not self.concrete(x, depth + 2):
                    return False
        for klass in cls.__mro__:
            for s in getattr(klass, "__slots__", ()) or ():
                if isinstance(s, str) and hasattr(v, s):
                    try:
                        if not self.concrete(object.__getattribute__(v, s), depth + 2):
                            return False
                    except AttributeError:
                        pass
        if d is None and not any(getattr(k, "__slots__", None) for k in cls.__mro__):
            return False     # opaque C-level object (iterator, ...): unknown content
        return True

    def all_concrete(self, args, kwargs=None):
        for a in args:
            if not self.concrete(a):
                return False
        if kwargs:
            for a in kwargs.values():
                if not self.concrete(a):
                    return False
        return True

    # ==================================================================================================
    # truth / scalars
    # ==================================================================================================
    def truth(self, v):
        if isinstance(v, bool):
            return v
        if isinstance(v, (SymBool, SymInt)):
            return self.path.decide(tobool(v))
        if v is None:
            return False
        if isinstance(v, (int, float, str, bytes, tuple, list, dict, set, frozenset, range)):
            return bool(v)
        if self.hooks is not None:
            r = self.hooks.truth(self, v)
            if r is not None:
                return r
        cls = type(v)
        for name in ("__bool__", "__len__"):
            m = self._type_lookup(cls, name)
            if m is not None:
                r = self.call_method(v, m, [])
                if name == "__len__":
                    return self.truth(self.compare(ast.NotEq, r, 0))
                return self.truth(r)
        return True

    def native_call(self, f, args, kwargs=None):
        try:
            return f(*args, **(kwargs or {}))
        except (EngineError, Unsupported, Infeasible):
            raise
        except self.pyvc.Raised:
            raise
        except Exception as e:
            raise self.pyvc.Raised(e)

    # ==================================================================================================
    # arithmetic
    # ==================================================================================================
    def binop(self, op, a, b, inplace=False):
        name, fn, dunder, rdunder = self.pyvc._BINOPS[op]
        if isinstance(a, _SCALAR) and isinstance(b, _SCALAR):
            if not is_sym(a) and not is_sym(b):
                return self.native_call(fn, (a, b))
            return self.scalar_binop(name, a, b)
        if isinstance(a, (int, float, str, bytes, complex)) and isinstance(b, (int, float, str, bytes, complex)):
            return self.native_call(fn, (a, b))
        # string formatting with symbolic payload
        if name == "mod" and isinstance(a, (str, bytes)):
            return self.native_call(fn, (a, self.fmt_safe(b)))
        if name == "mul" and isinstance(a, (list, tuple, str, bytes)) and isinstance(b, int) and not isinstance(b, SymInt):
            return self.native_call(fn, (a, b))
        if name == "mul" and isinstance(b, (list, tuple, str, bytes)) and isinstance(a, int):
            return self.native_call(fn, (a, b))
        if name == "mul" and isinstance(a, bytes) and isinstance(b, SymInt):
            return RepBytes(a, b)
        if name == "mul" and isinstance(b, bytes) and isinstance(a, SymInt):
            return RepBytes(b, a)
        if name == "add" and type(a) in (list, tuple) and type(b) is type(a):
            return a + b
        if inplace and name == "add" and type(a) is list:
            a.extend(self.iterate_list(b))
            return a
        if self.hooks is not None:
            r = self.hooks.binop(self, name, a, b)
            if r is not NotImplemented:
                return r
        if type(a) in (set, frozenset) and type(b) in (set, frozenset):
            return self.set_binop(name, a, b)
        # user-defined protocol
        ta, tb = type(a), type(b)
        cands = []
        if inplace:
            m = self._type_lookup(ta, _inplace_name(dunder))
            if m is not None:
                cands.append((m, a, b))
        ma = self._type_lookup(ta, dunder) if not isinstance(a, (SymInt, SymBool)) else None
        mb = self._type_lookup(tb, rdunder) if not isinstance(b, (SymInt, SymBool)) else None
        if mb is not None and tb is not ta and isinstance(b, ta) and mb is not self._type_lookup(ta, rdunder):
            cands.append((mb, b, a))
            mb = None
        if ma is not None:
            cands.append((ma, a, b))
        if mb is not None and tb is not ta:
            cands.append((mb, b, a))
        if isinstance(a, (SymInt, SymBool)) and not cands:
            raise self.pyvc.Raised(TypeError("unsupported operand type(s) for %s: 'int' and %r" % (name, tb.__name__)))
        for m, x, y in cands:
            r = self.call_method(x, m, [y])
            if r is not NotImplemented:
                return r
        if not cands and self.concrete(a) and self.concrete(b):
            return self.native_call(fn, (a, b))
        raise self.pyvc.Raised(TypeError("unsupported operand type(s) for %s: %r and %r" % (name, ta.__name__, tb.__name__)))

    def scalar_binop(self, name, a, b):
        if name in ("floordiv", "mod"):
            if self.path.decide(Eq(b2i(b), 0)):
                raise self.pyvc.Raised(ZeroDivisionError("integer division or modulo by zero"))
        elif name in ("shl", "shr"):
            if self.path.decide(mk_cmp("lt", b2i(b), 0)):
                raise self.pyvc.Raised(ValueError("negative shift count"))
            if is_sym(b):
                # a shift count with a small static range is enumerated: shifts by constants are plain arithmetic
                from .terms import bounds as _bounds
                lo, hi = _bounds(b2i(b).t)
                lo = 0 if lo is None or lo < 0 else lo
                if hi is not None and hi - lo <= 16:
                    for k in range(lo, hi + 1):
                        if k == hi or self.path.decide(Eq(b2i(b), k)):
                            b = k
                            break
                elif (hi is None or hi > 600) and not self.path.concrete:
                    # no useful static range: ask the solver whether the path condition bounds the count
                    LIM = 136
                    if self.path.solver.feasible(mk_cmp("lt", LIM, b2i(b)).t) == "unsat":
                        b = self.path.pick_value(b, "shift count")
        elif name == "pow":
            if self.path.decide(mk_cmp("lt", b2i(b), 0)):
                raise Unsupported("negative exponent (float result)")
            if is_sym(b) and not is_sym(a) and not self.path.concrete:
                # a constant base with an exponent that the path condition bounds: enumerated (c ** k is then a constant)
                if self.path.solver.feasible(mk_cmp("lt", 136, b2i(b)).t) == "unsat":
                    b = self.path.pick_value(b, "exponent")
        elif name == "truediv":
            if self.path.decide(Eq(b2i(b), 0)):
                raise self.pyvc.Raised(ZeroDivisionError("division by zero"))
            return SymFloat(a, b)
        elif name == "matmul":
            raise self.pyvc.Raised(TypeError("unsupported operand type(s) for @"))
        try:
            return mk_int(name, a, b)
        except PyArith as e:
            raise self.pyvc.Raised(e.exc)
        except EncodingUnsupported as e:
            raise Unsupported(str(e))

    def unop(self, op, v):
        if op is ast.Not:
            if isinstance(v, (bool, SymBool, SymInt)):
                return Not(v)
            return not self.truth(v)
        if isinstance(v, (SymInt, SymBool)):
            v = b2i(v)
            if op is ast.USub:
                return mk_int("sub", 0, v)
            if op is ast.UAdd:
                return v
            if op is ast.Invert:
                return mk_int("sub", -1, v)
        if isinstance(v, (int, float, complex)):
            return {ast.USub: operator.neg, ast.UAdd: operator.pos, ast.Invert: operator.invert}[op](v)
        dn = {ast.USub: "__neg__", ast.UAdd: "__pos__", ast.Invert: "__invert__"}[op]
        if self.hooks is not None:
            r = self.hooks.unop(self, dn, v)
            if r is not NotImplemented:
                return r
        m = self._type_lookup(type(v), dn)
        if m is None:
            raise self.pyvc.Raised(TypeError("bad operand type for unary op: %r" % type(v).__name__))
        return self.call_method(v, m, [])

    # ==================================================================================================
    # comparisons
    # ==================================================================================================
    def compare(self, op, a, b):
        if op is ast.Is:
            return self.identical(a, b)
        if op is ast.IsNot:
            return Not(self.identical(a, b))
        if op is ast.In:
            return self.contains(b, a)
        if op is ast.NotIn:
            return Not(self.contains(b, a))
        if isinstance(a, _SCALAR) and isinstance(b, _SCALAR):
            if not is_sym(a) and not is_sym(b):
                return _NATIVE_CMP[op](a, b)
            if op is ast.Eq: return Eq(a, b)
            if op is ast.NotEq: return Not(Eq(a, b))
            if op is ast.Lt: return mk_cmp("lt", a, b)
            if op is ast.LtE: return mk_cmp("le", a, b)
            if op is ast.Gt: return mk_cmp("lt", b, a)
            if op is ast.GtE: return mk_cmp("le", b, a)
        if op is ast.Eq:
            return self.equal(a, b)
        if op is ast.NotEq:
            return self.not_equal(a, b)
        return self.order(op, a, b)

    def identical(self, a, b):
        if is_sym(a) or is_sym(b):
            if is_sym(a) and is_sym(b):
                # identity of int objects is an implementation detail; the code only uses `is` on ints for singletons
                return Eq(a, b) if type(a) is type(b) else False
            other = b if is_sym(a) else a
            if other is None or not isinstance(other, int):
                return False
            if isinstance(other, bool) != isinstance(a if is_sym(a) else b, SymBool):
                return False
            return Eq(a, b)
        if self.hooks is not None:
            r = self.hooks.identical(self, a, b)
            if r is not None:
                return r
        return a is b

    def equal(self, a, b):
        """== ; result bool or SymBool"""
        if a is b and not isinstance(a, float):
            if self.hooks is None or self.hooks.identical(self, a, b) in (None, True):
                return True
        if isinstance(a, _SCALAR) and isinstance(b, _SCALAR):
            return Eq(a, b)
        if is_sym(a) or is_sym(b):
            other = b if is_sym(a) else a
            if isinstance(other, _ATOMIC) or isinstance(other, (tuple, list, dict, set, frozenset)):
                return False
        ta, tb = type(a), type(b)
        if ta in (tuple, list) and tb is ta:
            if len(a) != len(b):
                return False
            return And(*[self.equal(x, y) for x, y in zip(a, b)]) if not self.all_concrete((a, b)) else a == b
        if ta in (tuple, list) and tb in (tuple, list):
            return False
        if isinstance(a, _ATOMIC) and isinstance(b, _ATOMIC):
            return a == b
        if ta in (set, frozenset) and tb in (set, frozenset):
            if self.all_concrete((a, b)):
                return a == b
            return And(self.subset(a, b), self.subset(b, a))
        if ta is dict and tb is dict:
            if self.all_concrete((a, b)):
                return a == b
            if len(a) != len(b):
                # distinct key counts can still be equal only if symbolic keys coincide; dict invariant: keys distinct
                return False
            conj = []
            for k, v in a.items():
                found = self.dict_find(b, k, fork=False)
                conj.append(found)
            return And(*[self._dict_entry_eq(a, b, k) for k in a])
        if self.hooks is not None:
            r = self.hooks.equal(self, a, b)
            if r is not None:
                return r
        # user protocol
        ma = self._type_lookup(ta, "__eq__")
        mb = self._type_lookup(tb, "__eq__")
        if ma is None and mb is None:
            if self.concrete(a) and self.concrete(b):
                return self.native_call(operator.eq, (a, b))
            return a is b
        if mb is not None and tb is not ta and isinstance(b, ta):
            r = self.call_method(b, mb, [a])
            if r is not NotImplemented:
                return r
        if ma is not None:
            r = self.call_method(a, ma, [b])
            if r is not NotImplemented:
                return r
        if mb is not None and tb is not ta:
            r = self.call_method(b, mb, [a])
            if r is not NotImplemented:
                return r
        return a is b

    def _dict_entry_eq(self, a, b, k):
        alts = []
        for k2 in b:
            alts.append(And(self.equal(k, k2), self.equal(a[k], b[k2])))
        return Or(*alts)

    def not_equal(self, a, b):
        ta = type(a)
        if not isinstance(a, _SCALAR + _ATOMIC + (tuple, list, dict, set, frozenset)):
            m = self._type_lookup(ta, "__ne__")
            if m is not None:
                if self.hooks is not None and self.hooks.equal(self, a, b) is not None:
                    return Not(self.hooks.equal(self, a, b))
                r = self.call_method(a, m, [b])
                if r is not NotImplemented:
                    return r
        r = self.equal(a, b)
        if isinstance(r, (bool, SymBool, SymInt)):
            return Not(r)
        return not self.truth(r)

    def order(self, op, a, b):
        ta, tb = type(a), type(b)
        if ta in (tuple, list) and tb is ta:
            if self.all_concrete((a, b)):
                return self.native_call(_NATIVE_CMP[op], (a, b))
            # lexicographic
            n = min(len(a), len(b))
            strict = op in (ast.Lt, ast.Gt)
            lt = ast.Lt if op in (ast.Lt, ast.LtE) else ast.Gt
            if len(a) == len(b):
                tail = not strict
            elif op in (ast.Lt, ast.LtE):
                tail = len(a) < len(b)
            else:
                tail = len(a) > len(b)
            res = tail
            for i in range(n - 1, -1, -1):
                e = self.equal(a[i], b[i])
                l = self.compare(lt, a[i], b[i])
                res = Ite(tobool_s(self, e), res, tobool_s(self, l)) if _scalarish(e) and _scalarish(l) and _scalarish(res) else (
                    res if self.truth(e) else l)
            return res
        if isinstance(a, _ATOMIC) and isinstance(b, _ATOMIC):
            return self.native_call(_NATIVE_CMP[op], (a, b))
        if ta in (set, frozenset) and tb in (set, frozenset):
            if self.all_concrete((a, b)):
                return self.native_call(_NATIVE_CMP[op], (a, b))
            if op is ast.LtE:
                return self.subset(a, b)
            if op is ast.GtE:
                return self.subset(b, a)
            raise Unsupported("strict set comparison with symbolic members")
        if self.hooks is not None:
            r = self.hooks.order(self, op, a, b)
            if r is not None:
                return r
        dn, rdn = _CMP_DUNDER[op]
        if not is_sym(a):
            m = self._type_lookup(ta, dn)
            if m is not None:
                r = self.call_method(a, m, [b])
                if r is not NotImplemented:
                    return r
        if not is_sym(b):
            m = self._type_lookup(tb, rdn)
            if m is not None:
                r = self.call_method(b, m, [a])
                if r is not NotImplemented:
                    return r
        raise self.pyvc.Raised(TypeError("%r not supported between instances of %r and %r" % (
            dn, "int" if is_sym(a) else ta.__name__, "int" if is_sym(b) else tb.__name__)))

    def cmp_dunder(self, dn, a, b):
        m = self._type_lookup(type(a), dn)
        r = self.call_method(a, m, [b])
        if r is NotImplemented:
            raise Unsupported("NotImplemented from %s in total_ordering model" % dn)
        return tobool_s(self, r)

    # ==================================================================================================
    # containers
    # ==================================================================================================
    def contains(self, cont, x):
        if isinstance(cont, (str, bytes)):
            if is_sym(x):
                if isinstance(cont, bytes):
                    return Or(*[Eq(x, c) for c in cont])
                raise self.pyvc.Raised(TypeError("'in <string>' requires string as left operand"))
            return self.native_call(operator.contains, (cont, x))
        if isinstance(cont, range):
            if is_sym(x):
                if cont.step == 1:
                    return And(mk_cmp("le", cont.start, x), mk_cmp("lt", x, cont.stop))
                return Or(*[Eq(x, c) for c in cont])
            return x in cont
        if isinstance(cont, dict) and type(cont) is not dict and self.hooks is not None:
            r = self.hooks.contains(self, cont, x)
            if r is not None:
                return r
        if isinstance(cont, (tuple, list, set, frozenset, dict)):
            if self.concrete(x) and self.concrete(cont if not isinstance(cont, dict) else list(cont)):
                try:
                    return self.native_call(operator.contains, (cont, x))
                except self.pyvc.Raised:
                    if isinstance(cont, (tuple, list)):
                        return any(self.truth(self.equal(x, y)) for y in cont)
                    raise
            alts = []
            for y in cont:
                alts.append(tobool_s(self, self.equal(y, x)))
            return Or(*alts)
        if isinstance(cont, SymRange):
            return And(mk_cmp("le", cont.start, x), mk_cmp("lt", x, cont.stop))
        if type(cont).__module__ == "builtins" and type(cont).__name__ in ("dict_keys", "dict_values", "dict_items"):
            return self.contains(list(cont), x)
        if self.hooks is not None:
            r = self.hooks.contains(self, cont, x)
            if r is not None:
                return r
        m = self._type_lookup(type(cont), "__contains__")
        if m is not None:
            r = self.call_method(cont, m, [x])
            return tobool_s(self, r)
        m = self._type_lookup(type(cont), "__iter__")
        if m is not None:
            return Or(*[tobool_s(self, self.equal(y, x)) for y in self.iterate(cont)])
        raise self.pyvc.Raised(TypeError("argument of type %r is not iterable" % type(cont).__name__))

    def subset(self, a, b):
        return And(*[self.contains(b, x) for x in a])

    def set_add(self, s, x):
        """s.add(x) with symbolic equality"""
        if self.concrete(x) and self.concrete(s):
            s.add(x)
            return
        for y in list(s):
            if self.truth(self.equal(y, x)):
                return
        s.add(x)

    def set_binop(self, name, a, b):
        if self.all_concrete((a, b)):
            return {"or": operator.or_, "and": operator.and_, "sub": operator.sub, "xor": operator.xor}[name](a, b)
        cls = type(a)
        out = set()
        if name == "or":
            for x in a: out.add(x)
            for x in b: self.set_add(out, x)
        elif name == "and":
            for x in a:
                if self.truth(self.contains(b, x)): out.add(x)
        elif name == "sub":
            for x in a:
                if not self.truth(self.contains(b, x)): out.add(x)
        elif name == "xor":
            for x in a:
                if not self.truth(self.contains(b, x)): out.add(x)
            for x in b:
                if not self.truth(self.contains(a, x)): out.add(x)
        else:
            raise self.pyvc.Raised(TypeError("unsupported set operation %s" % name))
        return cls(out) if cls is frozenset else out

    def dict_find(self, d, k, fork=True):
        """the key object of d equal to k, or _MISSING (forks on symbolic equalities)"""
        if self.concrete(k):
            conc = True
            for k2 in d:
                if not self.concrete(k2):
                    conc = False
                    break
            if conc:
                try:
                    if k in d:
                        return k
                    return _MISSING
                except TypeError as e:
                    raise self.pyvc.Raised(e)
        for k2 in list(d):
            e = self.equal(k2, k)
            if self.truth(e):
                return k2
        return _MISSING

    def index_value(self, idx, n, what="index"):
        """concrete python index in range(n) for a possibly symbolic idx (forks); raises IndexError path"""
        if isinstance(idx, SymBool):
            idx = b2i(idx)
        if not isinstance(idx, SymInt):
            if not isinstance(idx, int):
                m = self._type_lookup(type(idx), "__index__")
                if m is None:
                    raise self.pyvc.Raised(TypeError("indices must be integers, not %s" % type(idx).__name__))
                idx = self.call_method(idx, m, [])
                return self.index_value(idx, n, what)
            if idx < 0:
                idx += n
            if idx < 0 or idx >= n:
                raise self.pyvc.Raised(IndexError("%s out of range" % what))
            return idx
        if self.path.decide(mk_cmp("lt", idx, 0)):
            idx = mk_int("add", idx, n)
        if self.path.decide(Or(mk_cmp("lt", idx, 0), mk_cmp("le", n, idx))):
            raise self.pyvc.Raised(IndexError("%s out of range" % what))
        for k in range(n):
            if k == n - 1 or self.path.decide(Eq(idx, k)):
                return k
        raise Infeasible("index")

    def slice_bound(self, v, n, default):
        """concrete clamped slice bound in [0, n] (forks)"""
        if v is None:
            return default
        if isinstance(v, SymBool):
            v = b2i(v)
        if not isinstance(v, SymInt):
            if not isinstance(v, int):
                m = self._type_lookup(type(v), "__index__")
                if m is None:
                    raise self.pyvc.Raised(TypeError("slice indices must be integers"))
                return self.slice_bound(self.call_method(v, m, []), n, default)
            if v < 0:
                v += n
            return max(0, min(n, v))
        if self.path.decide(mk_cmp("lt", v, 0)):
            v = mk_int("add", v, n)
        if self.path.decide(mk_cmp("le", v, 0)):
            return 0
        if self.path.decide(mk_cmp("le", n, v)):
            return n
        for k in range(1, n):
            if k == n - 1 or self.path.decide(Eq(v, k)):
                return k
        raise Infeasible("slice")

    def concrete_slice(self, sl, n):
        if sl.step is not None and sl.step != 1:
            if is_sym(sl.step) or is_sym(sl.start) or is_sym(sl.stop):
                raise Unsupported("extended slice with symbolic parts")
            return sl
        return slice(self.slice_bound(sl.start, n, 0), self.slice_bound(sl.stop, n, n), None)

    def getitem(self, obj, idx):
        if isinstance(obj, (list, tuple, str, bytes, bytearray, range)):
            if isinstance(idx, slice):
                if is_sym(idx.start) or is_sym(idx.stop) or is_sym(idx.step) or not all(
                        isinstance(x, (int, type(None))) for x in (idx.start, idx.stop, idx.step)):
                    idx = self.concrete_slice(idx, len(obj))
                return self.native_call(operator.getitem, (obj, idx))
            k = self.index_value(idx, len(obj), type(obj).__name__ + " index")
            return obj[k]
        if isinstance(obj, dict) and type(obj) is not dict and self.hooks is not None:
            r = self.hooks.getitem(self, obj, idx)
            if r is not NotImplemented:
                return r
        if isinstance(obj, dict):
            k = self.dict_find(obj, idx)
            if k is _MISSING:
                m = self._type_lookup(type(obj), "__missing__")
                if m is not None:
                    return self.call_method(obj, m, [idx])
                raise self.pyvc.Raised(KeyError(self.fmt_safe(idx)))
            return dict.__getitem__(obj, k)
        if self.hooks is not None:
            r = self.hooks.getitem(self, obj, idx)
            if r is not NotImplemented:
                return r
        m = self._type_lookup(type(obj), "__getitem__")
        if m is None:
            if isinstance(obj, type) and hasattr(obj, "__class_getitem__"):
                return obj[idx]
            raise self.pyvc.Raised(TypeError("%r object is not subscriptable" % type(obj).__name__))
        return self.call_method(obj, m, [idx])

    def setitem(self, obj, idx, v):
        if isinstance(obj, list):
            if isinstance(idx, slice):
                idx = self.concrete_slice(idx, len(obj))
                obj[idx] = self.iterate_list(v)
                return
            obj[self.index_value(idx, len(obj), "list assignment index")] = v
            return
        if isinstance(obj, dict) and type(obj) is not dict and self.hooks is not None:
            r = self.hooks.setitem(self, obj, idx, v)
            if r is not NotImplemented:
                return
        if isinstance(obj, dict) and type(obj).__setitem__ is dict.__setitem__:
            k = self.dict_find(obj, idx)
            if k is _MISSING:
                k = idx
                if not self.concrete(k):
                    self._check_hashable(k)
            try:
                dict.__setitem__(obj, k, v)
            except TypeError as e:
                raise self.pyvc.Raised(e)
            return
        if isinstance(obj, bytearray):
            if isinstance(idx, slice) or is_sym(v) or is_sym(idx):
                raise Unsupported("bytearray store with symbolic parts")
            obj[idx] = v
            return
        if self.hooks is not None:
            r = self.hooks.setitem(self, obj, idx, v)
            if r is not NotImplemented:
                return
        m = self._type_lookup(type(obj), "__setitem__")
        if m is None:
            raise self.pyvc.Raised(TypeError("%r object does not support item assignment" % type(obj).__name__))
        self.call_method(obj, m, [idx, v])

    def delitem(self, obj, idx):
        if isinstance(obj, list):
            if isinstance(idx, slice):
                del obj[self.concrete_slice(idx, len(obj))]
                return
            del obj[self.index_value(idx, len(obj), "list assignment index")]
            return
        if isinstance(obj, dict) and type(obj).__delitem__ is dict.__delitem__:
            k = self.dict_find(obj, idx)
            if k is _MISSING:
                raise self.pyvc.Raised(KeyError(self.fmt_safe(idx)))
            dict.__delitem__(obj, k)
            return
        if self.hooks is not None:
            r = self.hooks.delitem(self, obj, idx)
            if r is not NotImplemented:
                return
        m = self._type_lookup(type(obj), "__delitem__")
        if m is None:
            raise self.pyvc.Raised(TypeError("%r object doesn't support item deletion" % type(obj).__name__))
        self.call_method(obj, m, [idx])

    def _check_hashable(self, k):
        if isinstance(k, (list, dict, set)):
            raise self.pyvc.Raised(TypeError("unhashable type: %r" % type(k).__name__))
        if isinstance(k, tuple):
            for x in k:
                self._check_hashable(x)

    def iterate(self, v):
        """python iterator over v (may fork lazily)"""
        if isinstance(v, (list, tuple, str, bytes, range, dict, set, frozenset, bytearray)):
            if isinstance(v, (list, dict, set)):
                return _live_iter(v)
            return iter(v)
        if isinstance(v, self.pyvc.LazyGen):
            return iter(v)
        if isinstance(v, SymRange):
            return v.iterate(self)
        if isinstance(v, (types.GeneratorType, itertools.chain, itertools.product, itertools.permutations, zip, map,
                          enumerate, reversed, filter, itertools.combinations, itertools.islice)) or type(v).__name__.endswith(
                              ("iterator", "_keys", "_values", "_items")) and type(v).__module__ == "builtins":
            return iter(v)
        if self.hooks is not None:
            r = self.hooks.iterate(self, v)
            if r is not None:
                return r
        cls = type(v)
        m = self._type_lookup(cls, "__iter__")
        if m is not None:
            r = self.call_method(v, m, [])
            if r is v:
                raise Unsupported("user-defined iterator protocol (__next__)")
            return self.iterate(r)
        m = self._type_lookup(cls, "__getitem__")
        if m is not None:
            def gen():
                i = 0
                while True:
                    try:
                        yield self.call_method(v, m, [i])
                    except self.pyvc.Raised as r:
                        if isinstance(r.exc, IndexError):
                            return
                        raise
                    i += 1
            return gen()
        if is_sym(v):
            raise self.pyvc.Raised(TypeError("'int' object is not iterable"))
        try:
            return iter(v)
        except TypeError as e:
            raise self.pyvc.Raised(e)

    def iterate_list(self, v):
        if type(v) in (list, tuple):
            return list(v)
        return list(self.iterate(v))

    def length(self, v):
        if isinstance(v, (list, tuple, str, bytes, dict, set, frozenset, range, bytearray)):
            return len(v)
        if isinstance(v, SymRange):
            return Max(0, mk_int("sub", v.stop, v.start))
        if isinstance(v, RepBytes):
            return v.sym_len()
        if self.hooks is not None:
            r = self.hooks.length(self, v)
            if r is not None:
                return r
        m = self._type_lookup(type(v), "__len__")
        if m is None:
            raise self.pyvc.Raised(TypeError("object of type %r has no len()" % ("int" if is_sym(v) else type(v).__name__)))
        return self.call_method(v, m, [])

    # ==================================================================================================
    # attributes
    # ==================================================================================================
    def _type_lookup(self, cls, name):
        """user-level (python-defined) special method on the type, or None for builtin/slot-wrapper defaults"""
        for k in cls.__mro__:
            if name in k.__dict__:
                m = k.__dict__[name]
                if isinstance(m, (types.WrapperDescriptorType, types.MethodDescriptorType, types.BuiltinFunctionType)):
                    if k is object or k.__module__ == "builtins":
                        if cls.__module__ == "builtins" or k is object:
                            return None
                    return m
                if m is None:
                    return None
                return m
        return None

    def call_method(self, obj, m, args):
        """call attribute m found on type(obj) with obj bound"""
        if isinstance(m, staticmethod):
            return self.call(m.__func__, list(args), {})
        if isinstance(m, classmethod):
            return self.call(m.__func__, [type(obj)] + list(args), {})
        if isinstance(m, (types.FunctionType, self.pyvc.IFunc)):
            return self.call(m, [obj] + list(args), {})
        if hasattr(m, "__get__"):
            return self.call(m.__get__(obj, type(obj)), list(args), {})
        return self.call(m, [obj] + list(args), {})

    def getattr(self, obj, name):
        if isinstance(obj, (SymInt, SymBool)):
            if name == "bit_length":
                return functools.partial(self._sym_bit_length, obj)
            if name in ("real", "numerator"):
                return b2i(obj)
            if name == "imag":
                return 0
            if name == "denominator":
                return 1
            if name == "__class__":
                return bool if isinstance(obj, SymBool) else int
            if name == "__index__" or name == "__int__":
                return lambda: b2i(obj)
            raise self.pyvc.Raised(AttributeError("'int' object has no attribute %r" % name))
        if isinstance(obj, self.pyvc.ISuper):
            return self._super_getattr(obj, name)
        if self.hooks is not None:
            r = self.hooks.getattr(self, obj, name)
            if r is not NotImplemented:
                return r
        if isinstance(obj, (_ATOMIC, tuple, list, dict, set, frozenset, types.ModuleType, types.FunctionType,
                            types.BuiltinFunctionType, types.MethodType, self.pyvc.IFunc)) and type(obj).__module__ == "builtins":
            try:
                return getattr(obj, name)
            except AttributeError as e:
                raise self.pyvc.Raised(e)
        if isinstance(obj, type):
            # class attribute access
            for k in obj.__mro__:
                if name in k.__dict__:
                    m = k.__dict__[name]
                    if isinstance(m, staticmethod):
                        return m.__func__
                    if isinstance(m, classmethod):
                        return _BoundCls(m.__func__, obj)
                    if isinstance(m, property):
                        return m
                    break
            try:
                return getattr(obj, name)
            except AttributeError as e:
                raise self.pyvc.Raised(e)
        cls = type(obj)
        meta = None
        for k in cls.__mro__:
            if name in k.__dict__:
                meta = k.__dict__[name]
                break
        if meta is not None:
            if isinstance(meta, property):
                if meta.fget is None:
                    raise self.pyvc.Raised(AttributeError("unreadable attribute %r" % name))
                return self.call(meta.fget, [obj], {})
            if isinstance(meta, (types.FunctionType, self.pyvc.IFunc)):
                # instance dict shadows non-data descriptors
                d = getattr(obj, "__dict__", None)
                if d is not None and name in d:
                    return d[name]
                return types.MethodType(meta, obj) if isinstance(meta, types.FunctionType) else self.pyvc.IBound(meta, obj)
            if isinstance(meta, staticmethod):
                return meta.__func__
            if isinstance(meta, classmethod):
                return _BoundCls(meta.__func__, cls)
        else:
            ga = self._type_lookup(cls, "__getattr__")
            if ga is not None:
                d = getattr(obj, "__dict__", None)
                if d is not None and name in d:
                    return d[name]
                try:
                    return object.__getattribute__(obj, name)
                except AttributeError:
                    return self.call_method(obj, ga, [name])
        try:
            return getattr(obj, name)
        except AttributeError as e:
            raise self.pyvc.Raised(e)
        except (EngineError, Unsupported, Infeasible):
            raise
        except Exception as e:
            raise self.pyvc.Raised(e)

    def _super_getattr(self, sup, name):
        obj = sup.obj
        cls = obj if isinstance(obj, type) else type(obj)
        mro = list(cls.__mro__)
        try:
            i = mro.index(sup.cls)
        except ValueError:
            raise self.pyvc.Raised(TypeError("super(type, obj): obj must be an instance or subtype of type"))
        for k in mro[i + 1:]:
            if name in k.__dict__:
                m = k.__dict__[name]
                if isinstance(m, staticmethod):
                    return m.__func__
                if isinstance(m, classmethod):
                    return _BoundCls(m.__func__, cls)
                if isinstance(m, types.FunctionType):
                    return types.MethodType(m, obj) if not isinstance(obj, type) else m
                if isinstance(m, property):
                    return self.call(m.fget, [obj], {})
                if hasattr(m, "__get__"):
                    return m.__get__(obj, cls)
                return m
        raise self.pyvc.Raised(AttributeError("'super' object has no attribute %r" % name))

    def setattr(self, obj, name, v):
        if self.hooks is not None:
            r = self.hooks.setattr(self, obj, name, v)
            if r is not NotImplemented:
                return
        if isinstance(obj, type):
            setattr(obj, name, v)
            return
        cls = type(obj)
        for k in cls.__mro__:
            if name in k.__dict__:
                meta = k.__dict__[name]
                if isinstance(meta, property):
                    if meta.fset is None:
                        raise self.pyvc.Raised(AttributeError("can't set attribute %r" % name))
                    self.call(meta.fset, [obj, v], {})
                    return
                break
        sa = self._type_lookup(cls, "__setattr__")
        if sa is not None and isinstance(sa, types.FunctionType):
            self.call(sa, [obj, name, v], {})
            return
        try:
            object.__setattr__(obj, name, v)
        except (AttributeError, TypeError) as e:
            raise self.pyvc.Raised(e)
        if not self.concrete(v):
            self.sym_objects.add(id(obj))
            self.path.locals.setdefault("_keepalive", []).append(obj)

    def delattr(self, obj, name):
        try:
            object.__delattr__(obj, name)
        except AttributeError as e:
            raise self.pyvc.Raised(e)

    def hasattr(self, obj, name):
        try:
            self.getattr(obj, name)
            return True
        except self.pyvc.Raised as r:
            if isinstance(r.exc, AttributeError):
                return False
            raise

    # ==================================================================================================
    # calls
    # ==================================================================================================
    def call(self, f, args, kwargs):
        pv = self.pyvc
        self.path.tick(self.I.max_steps)
        if isinstance(f, pv.IFunc):
            return self.I.call_function(f, args, kwargs)
        if isinstance(f, pv.IBound):
            return self.call(f.__func__, [f.__self__] + list(args), kwargs)
        if isinstance(f, _BoundCls):
            return self.call(f.func, [f.cls] + list(args), kwargs)
        if isinstance(f, types.MethodType):
            return self.call(f.__func__, [f.__self__] + list(args), kwargs)
        if isinstance(f, functools.partial):
            kw = dict(f.keywords)
            kw.update(kwargs)
            return self.call(f.func, list(f.args) + list(args), kw)
        # contracts first (identity of the underlying function)
        try:
            h = self.contracts.get(f)
        except TypeError:
            h = None
        if h is not None:
            return h(self, args, kwargs)
        if self.hooks is not None:
            r = self.hooks.call(self, f, args, kwargs)
            if r is not NotImplemented:
                return r
        try:
            model = self.models.get(f)
        except TypeError:
            model = None
        if isinstance(f, types.FunctionType):
            if f.__module__ in ("logging", "warnings"):
                return None       # log.debug/info/warning, warnings.warn: dropped after argument evaluation (DESIGN 3.1)
            if f in _total_ordering_fns:
                return _TO_MAP[f](self, args[0], args[1])
            if model is not None:
                return model(self, *args, **kwargs)
            if f in self.force_native or getattr(f, "_vc_native", False) or f.__code__.co_filename.startswith(VERIF_PREFIX + "vc/") \
                    or (not is_repo_function(f) and self.all_concrete(args, kwargs)):
                self.I.native_calls[f.__qualname__] = self.I.native_calls.get(f.__qualname__, 0) + 1
                return self.native_call(f, args, kwargs)
            if is_repo_function(f) and self.I.cfg.get("native_when_concrete", True) and self.all_concrete(args, kwargs) \
                    and not self.I.cfg.get("always_interpret", lambda fn: False)(f):
                self.I.native_calls[f.__qualname__] = self.I.native_calls.get(f.__qualname__, 0) + 1
                return self.native_call(f, args, kwargs)
            if not f.__code__.co_filename.startswith(REPO_PREFIX) and not f.__code__.co_filename.startswith(VERIF_PREFIX):
                if f.__module__ and f.__module__.split(".")[0] in ("future", "builtins", "past"):
                    pass      # python-2 compatibility shims: interpret them like repo code
                else:
                    raise Unsupported("call of library function %s.%s with symbolic arguments" % (f.__module__, f.__qualname__))
            return self.I.call_function(f, args, kwargs)
        if isinstance(f, type):
            return self.instantiate(f, args, kwargs)
        if model is not None:
            return model(self, *args, **kwargs)
        if isinstance(f, types.MethodWrapperType) and f.__name__ in ("__init__", "__new__", "__init_subclass__"):
            return self.native_call(f, args, kwargs)       # object.__init__ reached through super()
        # bound builtin methods (list.append, dict.get, ...)
        if isinstance(f, (types.BuiltinFunctionType, types.MethodWrapperType)) and getattr(f, "__self__", None) is not None \
                and not isinstance(f.__self__, types.ModuleType):
            return self.call_builtin_method(f.__self__, f.__name__, args, kwargs)
        if isinstance(f, types.MethodDescriptorType):
            return self.call_builtin_method(args[0], f.__name__, list(args[1:]), kwargs)
        if self.all_concrete(args, kwargs):
            if callable(f):
                if not isinstance(f, (types.BuiltinFunctionType, types.MethodWrapperType, types.WrapperDescriptorType)):
                    m = self._type_lookup(type(f), "__call__")
                    if m is not None and self.concrete(f) is False:
                        return self.call_method(f, m, list(args))
                return self.native_call(f, args, kwargs)
        m = self._type_lookup(type(f), "__call__")
        if m is not None and isinstance(m, types.FunctionType):
            return self.call(m, [f] + list(args), kwargs)
        if f is None or isinstance(f, _ATOMIC) or is_sym(f):
            raise self.pyvc.Raised(TypeError("%r object is not callable" % type(f).__name__))
        raise Unsupported("call of %r with symbolic arguments has no model" % (getattr(f, "__qualname__", None) or f,))

    def instantiate(self, cls, args, kwargs):
        model = self.models.get(cls)
        if model is not None:
            return model(self, *args, **kwargs)
        if issubclass(cls, BaseException):
            # exception objects only carry their arguments
            e = cls.__new__(cls)
            e.args = tuple(args)
            initm = self._type_lookup(cls, "__init__")
            if initm is not None and isinstance(initm, types.FunctionType) and is_repo_function(initm):
                self.call(initm, [e] + list(args), kwargs)
            return e
        if not is_repo_class(cls):
            if self.all_concrete(args, kwargs):
                return self.native_call(cls, args, kwargs)
            raise Unsupported("instantiation of %s.%s with symbolic arguments" % (cls.__module__, cls.__name__))
        if self.all_concrete(args, kwargs) and self.I.cfg.get("native_when_concrete", True) \
                and not self.I.cfg.get("always_interpret_class", lambda c: False)(cls):
            return self.native_call(cls, args, kwargs)
        new = None
        for k in cls.__mro__:
            if "__new__" in k.__dict__:
                new = k.__dict__["__new__"]
                break
        if new is None or k is object:
            obj = object.__new__(cls)
        else:
            if isinstance(new, staticmethod):
                new = new.__func__
            obj = self.call(new, [cls] + list(args), kwargs)
        if isinstance(obj, cls):
            init = None
            for k in cls.__mro__:
                if "__init__" in k.__dict__:
                    init = k.__dict__["__init__"]
                    break
            if init is not None and k is not object:
                r = self.call(init, [obj] + list(args), kwargs)
                if r is not None:
                    raise self.pyvc.Raised(TypeError("__init__() should return None"))
            elif (args or kwargs) and (new is None or new is object.__new__):
                raise self.pyvc.Raised(TypeError("%s() takes no arguments" % cls.__name__))
        return obj

    # -- builtin container methods ------------------------------------------------------------------------
    def call_builtin_method(self, obj, name, args, kwargs):
        if isinstance(obj, (SymInt, SymBool)):
            if name == "bit_length":
                return self._sym_bit_length(obj)
            if name in ("__index__", "__int__"):
                return b2i(obj)
            raise Unsupported("int.%s on a symbolic integer" % name)
        h = getattr(self, "bm_%s_%s" % (type(obj).__name__, name), None)
        if h is not None:
            return h(obj, *args, **kwargs)
        if type(obj) in (list, tuple, dict, set, frozenset):
            if name in _STRUCTURAL.get(type(obj), ()):
                if name in ("pop", "insert", "__getitem__") and args and is_sym(args[0]) and type(obj) is list:
                    raise Unsupported("list.%s with symbolic index" % name)
                return self.native_call(getattr(obj, name), args, kwargs)
            if self.all_concrete([obj] + list(args), kwargs):
                return self.native_call(getattr(obj, name), args, kwargs)
            raise Unsupported("%s.%s with symbolic contents has no model" % (type(obj).__name__, name))
        if self.hooks is not None:
            r = self.hooks.builtin_method(self, obj, name, args, kwargs)
            if r is not NotImplemented:
                return r
        if self.all_concrete(args, kwargs) and (self.concrete(obj) or isinstance(obj, (str, bytes))):
            return self.native_call(getattr(obj, name), args, kwargs)
        if isinstance(obj, str) and name in ("join",):
            return self.native_call(getattr(obj, name), [[self.fmt_safe(x) for x in self.iterate_list(args[0])]], {})
        if isinstance(obj, str) and name in ("format",):
            return self.native_call(getattr(obj, name), [self.fmt_safe(a) for a in args],
                                    dict((k, self.fmt_safe(v)) for k, v in kwargs.items()))
        raise Unsupported("%s.%s with symbolic arguments has no model" % (type(obj).__name__, name))

    # list
    def bm_list_index(self, l, x, *rest):
        if rest:
            raise Unsupported("list.index with bounds")
        for i, y in enumerate(l):
            if self.truth(self.equal(y, x)):
                return i
        raise self.pyvc.Raised(ValueError("x not in list"))

    def bm_tuple_index(self, l, x, *rest):
        return self.bm_list_index(l, x, *rest)

    def bm_list_count(self, l, x):
        n = 0
        for y in l:
            n = mk_int("add", n, b2i(tobool_s(self, self.equal(y, x))))
        return n

    def bm_tuple_count(self, l, x):
        return self.bm_list_count(l, x)

    def bm_list_remove(self, l, x):
        i = self.bm_list_index(l, x)
        del l[i]

    def bm_list_sort(self, l, key=None, reverse=False):
        l[:] = self.sorted_model(l, key, reverse)

    def bm_list_pop(self, l, idx=-1):
        if not l:
            raise self.pyvc.Raised(IndexError("pop from empty list"))
        return l.pop(self.index_value(idx, len(l), "pop index"))

    def bm_list_insert(self, l, idx, x):
        l.insert(self.slice_bound(idx, len(l), 0), x)

    def bm_list_extend(self, l, it):
        l.extend(self.iterate_list(it))

    def bm_list___contains__(self, l, x):
        return self.contains(l, x)

    # dict
    def bm_dict_get(self, d, k, default=None):
        kk = self.dict_find(d, k)
        return default if kk is _MISSING else dict.__getitem__(d, kk)

    def bm_dict_pop(self, d, k, *default):
        kk = self.dict_find(d, k)
        if kk is _MISSING:
            if default:
                return default[0]
            raise self.pyvc.Raised(KeyError(self.fmt_safe(k)))
        return dict.pop(d, kk)

    def bm_dict_setdefault(self, d, k, default=None):
        kk = self.dict_find(d, k)
        if kk is _MISSING:
            self.setitem(d, k, default)
            return default
        return dict.__getitem__(d, kk)

    def bm_dict_update(self, d, *others, **kw):
        for o in others:
            if isinstance(o, dict):
                for k in list(o):
                    self.setitem(d, k, o[k])
            else:
                for pair in self.iterate(o):
                    k, v = self.iterate_list(pair)
                    self.setitem(d, k, v)
        for k, v in kw.items():
            self.setitem(d, k, v)

    def bm_dict___contains__(self, d, k):
        return self.contains(d, k)

    def bm_dict___getitem__(self, d, k):
        return self.getitem(d, k)

    def bm_dict___setitem__(self, d, k, v):
        kk = self.dict_find(d, k)
        dict.__setitem__(d, k if kk is _MISSING else kk, v)

    def bm_dict___delitem__(self, d, k):
        kk = self.dict_find(d, k)
        if kk is _MISSING:
            raise self.pyvc.Raised(KeyError(self.fmt_safe(k)))
        dict.__delitem__(d, kk)

    # set
    def bm_set_add(self, s, x):
        self.set_add(s, x)

    def bm_set_update(self, s, *others):
        for o in others:
            for x in self.iterate(o):
                self.set_add(s, x)

    def bm_set_discard(self, s, x):
        for y in list(s):
            if self.truth(self.equal(y, x)):
                s.discard(y)
                return

    def bm_set_remove(self, s, x):
        for y in list(s):
            if self.truth(self.equal(y, x)):
                s.discard(y)
                return
        raise self.pyvc.Raised(KeyError(self.fmt_safe(x)))

    def bm_set_union(self, s, *others):
        out = set(s)
        self.bm_set_update(out, *others)
        return out

    def bm_frozenset_union(self, s, *others):
        return frozenset(self.bm_set_union(s, *others))

    def bm_set_intersection(self, s, *others):
        out = set(s)
        for o in others:
            o = self.iterate_list(o)
            out = set(x for x in out if self.truth(self.contains(o, x)))
        return out

    def bm_set_difference(self, s, *others):
        out = set(s)
        for o in others:
            o = self.iterate_list(o)
            out = set(x for x in out if not self.truth(self.contains(o, x)))
        return out

    def bm_set_issubset(self, s, o):
        return self.subset(s, self.iterate_list(o))

    def bm_set_issuperset(self, s, o):
        return self.subset(self.iterate_list(o), s)

    def bm_set___contains__(self, s, x):
        return self.contains(s, x)

    def bm_str_join(self, s, it):
        return s.join([self.fmt_safe(x) for x in self.iterate_list(it)])

    # -- helpers -----------------------------------------------------------------------------------------
    def sorted_model(self, it, key=None, reverse=False):
        items = self.iterate_list(it)
        if key is None and self.concrete(items):
            return self.native_call(sorted, (items,), {"reverse": bool(reverse)})
        if isinstance(key, self.pyvc.CmpKey):
            lt = lambda x, y: self.compare(ast.Lt, self.call(key.f, [x, y], {}), 0)
            keys = items
        else:
            keys = items if key is None else [self.call(key, [x], {}) for x in items]
            lt = lambda x, y: self.compare(ast.Lt, x, y)
        # stable insertion sort on symbolic comparisons (forks); reverse keeps stability like CPython
        order = []
        idxs = list(range(len(items)))
        if reverse:
            idxs.reverse()
        for i in idxs:
            pos = len(order)
            while pos > 0 and self.truth(lt(keys[i], keys[order[pos - 1]])):
                pos -= 1
            order.insert(pos, i)
        if reverse:
            order.reverse()
        return [items[i] for i in order]

    def _sym_bit_length(self, x):
        x = b2i(x)
        from .terms import bounds
        lo, hi = bounds(x.t)
        if lo is None or hi is None or hi > (1 << 520) or lo < -(1 << 520):
            raise Unsupported("bit_length of an unbounded symbolic integer")
        n = max(abs(lo), abs(hi)).bit_length()
        a = Abs(x)
        r = 0
        for k in range(n, 0, -1):
            # bit_length == k  iff  2^(k-1) <= |x| < 2^k
            r = Ite(mk_cmp("le", 1 << (k - 1), a), Max(r, k), r)
        return r

    def fmt_safe(self, v):
        """value used only for building a message string"""
        if isinstance(v, (SymInt, SymBool)):
            self.path.notes.append("symbolic value formatted into a string")
            return _SymText(v)
        if isinstance(v, tuple):
            return tuple(self.fmt_safe(x) for x in v)
        if isinstance(v, list):
            return [self.fmt_safe(x) for x in v]
        if isinstance(v, dict):
            return dict((self.fmt_safe(k), self.fmt_safe(x)) for k, x in v.items())
        if isinstance(v, _ATOMIC):
            return v
        if not self.concrete(v):
            return _SymText(v)
        return v

    def to_str(self, v, repr_=False):
        if self.concrete(v):
            return self.native_call(repr if repr_ else str, (v,))
        if is_sym(v):
            return str(self.fmt_safe(v))
        m = self._type_lookup(type(v), "__repr__" if repr_ else "__str__") or self._type_lookup(type(v), "__repr__")
        if m is not None and isinstance(m, types.FunctionType):
            return self.call(m, [v], {})
        return str(self.fmt_safe(v))


class _SymText(object):
    """placeholder printed for symbolic payloads of messages"""

    def __init__(self, v):
        self.v = v

    def __repr__(self):
        return "<sym>"

    __str__ = __repr__

    def __format__(self, spec):
        return "<sym>"

    def __int__(self):
        return 0

    def __index__(self):
        return 0

    def __float__(self):
        return 0.0


class SymFloat(object):
    """result of a true division of symbolic integers: only its existence is tracked (any use is out of subset
    except being passed around); int & float -> TypeError is decided by the operator protocol."""

    def __init__(self, a, b):
        self.a, self.b = a, b


class RepBytes(object):
    """bytes object `unit * count` with a symbolic count: only its length and unit are known"""

    def __init__(self, unit, count):
        self.unit, self.count = unit, count

    def __len__(self):
        raise TypeError("symbolic length")

    def sym_len(self):
        return mk_int("mul", len(self.unit), Max(0, self.count))


class _BoundCls(object):
    def __init__(self, func, cls):
        self.func = func
        self.cls = cls
        self.__name__ = getattr(func, "__name__", "?")


class _Missing(object):
    def __repr__(self):
        return "<missing>"


_MISSING = _Missing()


class SymRange(object):
    def __init__(self, start, stop):
        self.start, self.stop = start, stop

    def iterate(self, ops):
        i = 0
        while True:
            cur = mk_int("add", self.start, i)
            if not ops.path.decide(mk_cmp("lt", cur, self.stop)):
                return
            yield cur
            i += 1
            if i > ops.I.max_loop:
                raise Unsupported("range() over a symbolic bound not unwound within %d iterations" % ops.I.max_loop)


def _live_iter(c):
    """iteration over a live list (index based, like CPython's list iterator); dict/set are snapshotted and a size
    change during iteration raises like CPython"""
    if isinstance(c, list):
        i = 0
        while i < len(c):
            yield c[i]
            i += 1
        return
    n = len(c)
    for x in list(c):
        if len(c) != n:
            from .pyvc import Raised
            raise Raised(RuntimeError("%s changed size during iteration" % type(c).__name__))
        yield x


def _inplace_name(dunder):
    from .pyvc import _INPLACE
    return _INPLACE.get(dunder, dunder)


def _scalarish(x):
    return isinstance(x, (bool, SymBool, SymInt, int))


def tobool_s(ops, v):
    """truth value as a scalar term when v is a scalar, else decide"""
    if isinstance(v, (bool, SymBool, SymInt, int)):
        return tobool(v)
    return ops.truth(v)


_NATIVE_CMP = {ast.Eq: operator.eq, ast.NotEq: operator.ne, ast.Lt: operator.lt, ast.LtE: operator.le,
               ast.Gt: operator.gt, ast.GtE: operator.ge}

# builtin methods that never inspect element values (safe natively whatever the contents are)
_STRUCTURAL = {
    list: {"append", "extend", "pop", "insert", "reverse", "copy", "clear", "__len__", "__iter__", "__getitem__",
           "__reversed__", "__add__", "__mul__"},
    tuple: {"__len__", "__iter__", "__getitem__", "__add__", "__mul__"},
    dict: {"keys", "values", "items", "copy", "clear", "__len__", "__iter__", "popitem"},
    set: {"copy", "clear", "__len__", "__iter__", "pop"},
    frozenset: {"copy", "__len__", "__iter__"},
}

# ======================================================================================================
# models of builtin functions (symbolic arguments)
# ======================================================================================================

def _m_len(o, x):
    return o.length(x)


def _m_isinstance(o, x, cls):
    if isinstance(x, SymInt):
        return issubclass(int, cls) if isinstance(cls, type) else any(issubclass(int, c) for c in _flat(cls))
    if isinstance(x, SymBool):
        return issubclass(bool, cls) if isinstance(cls, type) else any(issubclass(bool, c) for c in _flat(cls))
    if o.hooks is not None:
        r = o.hooks.isinstance(o, x, cls)
        if r is not None:
            return r
    try:
        return isinstance(x, cls)
    except TypeError as e:
        raise o.pyvc.Raised(e)


def _flat(c):
    if isinstance(c, tuple):
        for x in c:
            for y in _flat(x):
                yield y
    else:
        yield c


def _m_int(o, x=0, base=None):
    if base is not None:
        if o.all_concrete((x, base)):
            return o.native_call(int, (x, base))
        raise Unsupported("int(x, base) symbolic")
    if isinstance(x, (SymInt, SymBool)):
        return b2i(x)
    if isinstance(x, (int, float, str, bytes)):
        return o.native_call(int, (x,))
    if isinstance(x, SymFloat):
        raise Unsupported("int() of a symbolic float")
    if o.hooks is not None:
        r = o.hooks.to_int(o, x)
        if r is not None:
            return r
    for dn in ("__int__", "__index__", "__trunc__"):
        m = o._type_lookup(type(x), dn)
        if m is not None:
            r = o.call_method(x, m, [])
            if not isinstance(r, (int, SymInt, SymBool)):
                raise o.pyvc.Raised(TypeError("__int__ returned non-int"))
            return b2i(r)
    raise o.pyvc.Raised(TypeError("int() argument must be a string, a bytes-like object or a real number, not %r"
                                  % type(x).__name__))


def _m_bool(o, x=False):
    if isinstance(x, (SymInt, SymBool, bool, int)):
        return tobool(x)
    return o.truth(x)


def _m_abs(o, x):
    if isinstance(x, (SymInt, SymBool)):
        return Abs(b2i(x))
    if isinstance(x, (int, float)):
        return abs(x)
    m = o._type_lookup(type(x), "__abs__")
    if m is None:
        raise o.pyvc.Raised(TypeError("bad operand type for abs()"))
    return o.call_method(x, m, [])


def _minmax(o, args, kwargs, is_min):
    key = kwargs.get("key")
    if len(args) == 1:
        items = o.iterate_list(args[0])
        if not items:
            if "default" in kwargs:
                return kwargs["default"]
            raise o.pyvc.Raised(ValueError("%s() arg is an empty sequence" % ("min" if is_min else "max")))
    else:
        items = list(args)
    best = items[0]
    bk = best if key is None else o.call(key, [best], {})
    for x in items[1:]:
        xk = x if key is None else o.call(key, [x], {})
        if isinstance(xk, _SCALAR) and isinstance(bk, _SCALAR) and key is None:
            best = (Min if is_min else Max)(b2i(best), b2i(x)) if (is_sym(xk) or is_sym(bk)) else (min(best, x) if is_min else max(best, x))
            bk = best
            continue
        c = o.compare(ast.Lt, xk, bk) if is_min else o.compare(ast.Gt, xk, bk)
        if o.truth(c):
            best, bk = x, xk
    return best


def _m_min(o, *args, **kw):
    return _minmax(o, args, kw, True)


def _m_max(o, *args, **kw):
    return _minmax(o, args, kw, False)


def _m_sum(o, it, start=0):
    r = start
    for x in o.iterate(it):
        r = o.binop(ast.Add, r, x)
    return r


def _m_any(o, it):
    for x in o.iterate(it):
        if o.truth(x):
            return True
    return False


def _m_all(o, it):
    for x in o.iterate(it):
        if not o.truth(x):
            return False
    return True


def _m_sorted(o, it, key=None, reverse=False):
    return o.sorted_model(it, key, o.truth(reverse))


def _m_range(o, *args):
    if o.all_concrete(args):
        return o.native_call(range, args)
    if len(args) == 1:
        return SymRange(0, b2i(args[0]))
    if len(args) == 2:
        return SymRange(b2i(args[0]), b2i(args[1]))
    raise Unsupported("range() with a symbolic step")


def _m_list(o, it=()):
    return o.iterate_list(it)


def _m_tuple(o, it=()):
    return tuple(o.iterate_list(it))


def _m_set(o, it=()):
    out = set()
    for x in o.iterate(it):
        o.set_add(out, x)
    return out


def _m_frozenset(o, it=()):
    return frozenset(_m_set(o, it))


def _m_dict(o, *args, **kw):
    out = {}
    o.bm_dict_update(out, *args, **kw)
    return out


def _m_enumerate(o, it, start=0):
    return [(mk_int("add", start, i), x) for i, x in enumerate(o.iterate_list(it))]


def _m_zip(o, *its):
    return list(zip(*[o.iterate_list(i) for i in its]))


def _m_reversed(o, it):
    if isinstance(it, (list, tuple, str, bytes, range)):
        return list(reversed(it))
    m = o._type_lookup(type(it), "__reversed__")
    if m is not None:
        return o.call_method(it, m, [])
    return list(reversed(o.iterate_list(it)))


def _m_map(o, f, *its):
    return [o.call(f, list(xs), {}) for xs in zip(*[o.iterate_list(i) for i in its])]


def _m_filter(o, f, it):
    return [x for x in o.iterate_list(it) if o.truth(x if f is None else o.call(f, [x], {}))]


def _m_getattr(o, obj, name, *default):
    try:
        return o.getattr(obj, name)
    except o.pyvc.Raised as r:
        if default and isinstance(r.exc, AttributeError):
            return default[0]
        raise


def _m_setattr(o, obj, name, v):
    o.setattr(obj, name, v)


def _m_hasattr(o, obj, name):
    return o.hasattr(obj, name)


def _m_type(o, x, *rest):
    if rest:
        return o.native_call(type, (x,) + rest)
    if isinstance(x, SymInt):
        return int
    if isinstance(x, SymBool):
        return bool
    if o.hooks is not None:
        r = o.hooks.typeof(o, x)
        if r is not None:
            return r
    return type(x)


def _m_super(o, cls=None, obj=None):
    return o.pyvc.ISuper(cls, obj)


def _m_print(o, *a, **k):
    return None


def _m_str(o, x="", *rest):
    if rest:
        return o.native_call(str, (x,) + rest)
    return o.to_str(x)


def _m_repr(o, x):
    return o.to_str(x, repr_=True)


def _m_hex(o, x):
    if is_sym(x):
        return str(o.fmt_safe(x))      # placeholder text (messages); noted on the path
    return o.native_call(hex, (x,))


def _m_hash(o, x):
    if o.concrete(x):
        return o.native_call(hash, (x,))
    if o.hooks is not None:
        r = o.hooks.hash(o, x)
        if r is not None:
            return r
    if isinstance(x, (SymInt, SymBool)):
        # hash(int) is the value modulo 2^61-1 (sign kept); only equality of hashes is ever relevant
        from .terms import UF
        return UF("pyhash", b2i(x))
    if isinstance(x, tuple):
        from .terms import UF
        parts = [b2i(_m_hash(o, y)) for y in x]
        return UF("pyhash_tuple%d" % len(parts), *parts)
    m = o._type_lookup(type(x), "__hash__")
    if m is not None:
        return o.call_method(x, m, [])
    raise Unsupported("hash() of %s with symbolic content" % type(x).__name__)


def _m_cmp_to_key(o, f):
    return o.pyvc.CmpKey(f)


def _m_reduce(o, f, it, *init):
    items = o.iterate_list(it)
    if init:
        acc = init[0]
    else:
        if not items:
            raise o.pyvc.Raised(TypeError("reduce() of empty iterable with no initial value"))
        acc = items.pop(0)
    for x in items:
        acc = o.call(f, [acc, x], {})
    return acc


def _m_product(o, *its, **kw):
    pools = [o.iterate_list(i) for i in its] * kw.get("repeat", 1)
    return list(itertools.product(*pools))


def _m_permutations(o, it, r=None):
    return list(itertools.permutations(o.iterate_list(it), r))


def _m_combinations(o, it, r):
    return list(itertools.combinations(o.iterate_list(it), r))


def _m_chain(o, *its):
    out = []
    for i in its:
        out.extend(o.iterate_list(i))
    return out


def _m_callable(o, x):
    return callable(x) or isinstance(x, (o.pyvc.IFunc, o.pyvc.IBound))


def _m_iter(o, x):
    return o.iterate(x)


def _m_next(o, it, *default):
    try:
        return next(it)
    except StopIteration as e:
        if default:
            return default[0]
        raise o.pyvc.Raised(e)


def _m_divmod(o, a, b):
    return (o.binop(ast.FloorDiv, a, b), o.binop(ast.Mod, a, b))


def _m_pow(o, a, b, m=None):
    if o.all_concrete((a, b, m)):
        return o.native_call(pow, (a, b) if m is None else (a, b, m))
    r = o.binop(ast.Pow, a, b)
    if m is not None:
        r = o.binop(ast.Mod, r, m)
    return r


def _m_id(o, x):
    return id(x)


def _m_object_new(o, cls, *a, **k):
    return object.__new__(cls)


def _m_itemgetter(o, *items):
    if len(items) == 1:
        return lambda x, _o=o, _i=items[0]: _o.getitem(x, _i)
    return lambda x, _o=o: tuple(_o.getitem(x, i) for i in items)


def _m_bin(o, x):
    if is_sym(x):
        raise Unsupported("bin() of a symbolic integer")
    return o.native_call(bin, (x,))


def _m_ord(o, x):
    return o.native_call(ord, (x,))


def _m_chr(o, x):
    if is_sym(x):
        raise Unsupported("chr() of a symbolic integer")
    return o.native_call(chr, (x,))


_MODELS = {
    len: _m_len, isinstance: _m_isinstance, int: _m_int, bool: _m_bool, abs: _m_abs, min: _m_min, max: _m_max,
    sum: _m_sum, any: _m_any, all: _m_all, sorted: _m_sorted, range: _m_range, list: _m_list, tuple: _m_tuple,
    set: _m_set, frozenset: _m_frozenset, dict: _m_dict, enumerate: _m_enumerate, zip: _m_zip, reversed: _m_reversed,
    map: _m_map, filter: _m_filter, getattr: _m_getattr, setattr: _m_setattr, hasattr: _m_hasattr, type: _m_type,
    super: _m_super, print: _m_print, str: _m_str, repr: _m_repr, hex: _m_hex, hash: _m_hash, bin: _m_bin,
    functools.cmp_to_key: _m_cmp_to_key, functools.reduce: _m_reduce, itertools.product: _m_product,
    itertools.permutations: _m_permutations, itertools.combinations: _m_combinations, itertools.chain: _m_chain,
    callable: _m_callable, iter: _m_iter, next: _m_next, divmod: _m_divmod, pow: _m_pow, id: _m_id,
    object.__new__: _m_object_new, slice: (lambda o, *a: slice(*a)), operator.itemgetter: _m_itemgetter, ord: _m_ord, chr: _m_chr,
}
