"""Path state and depth-first exploration by re-execution.

A *path* is one execution of the function under verification with a list of boolean decisions.  Whenever the
interpreter needs a concrete truth value for a symbolic condition it calls ``path.decide``; decisions inside the
prefix are replayed, new ones are checked for feasibility (both polarities) against the path condition.
"""
from __future__ import annotations

from . import smt
from .terms import (And, Not, SymBool, SymInt, Var, mk_cmp, show, tobool)


class EngineError(Exception):
    """The verifier itself is broken or went outside its subset in an unexpected way -> exit 3."""


class Unsupported(Exception):
    """Construct or call outside the verifier's subset -> function not brought under contract (exit 2)."""


class Infeasible(Exception):
    """Current path became infeasible (assume(False))."""


class Mode(object):
    SYMBOLIC = "symbolic"
    CONCRETE = "concrete"


class Path(object):
    def __init__(self, prefix=(), model=None, rlimit=None):
        self.prefix = list(prefix)
        self.decisions = []        # (bool taken, alt_feasible, fingerprint)
        self.pc = []               # list of bool terms
        self.counter = 0
        self.vars = {}             # name -> SymInt / SymBool (inputs)
        self.model = model         # concrete replay: name -> value
        self.solver = smt.Incremental(rlimit) if model is None else None
        self.obligations = []      # dicts
        self.notes = []
        self.steps = 0
        self.locals = {}           # scratch for front ends (per-path tables)
        from . import terms as _terms
        _terms.reset_bounds_memo()

    # -- variables -------------------------------------------------------------------------------------
    @property
    def concrete(self):
        return self.model is not None

    def fresh_name(self, hint):
        self.counter += 1
        return "%s!%d" % (hint, self.counter)

    def int(self, name, lo=None, hi=None, default=None):
        """Named input integer (stable name: appears in models / replay files)."""
        if name in self.vars:
            return self.vars[name]
        if self.concrete:
            if name in self.model:
                v = self.model[name]
            elif default is not None:
                v = default
            else:
                v = lo if lo is not None else (hi if hi is not None and hi < 0 else 0)
            if (lo is not None and v < lo) or (hi is not None and v > hi):
                raise Infeasible("model value %s=%r outside [%r,%r]" % (name, v, lo, hi))
            self.vars[name] = v
            return v
        v = Var(name, "I", lo, hi)
        self.vars[name] = v
        if lo is not None:
            self.assume(mk_cmp("le", lo, v))
        if hi is not None:
            self.assume(mk_cmp("le", v, hi))
        return v

    def bool(self, name):
        if name in self.vars:
            return self.vars[name]
        if self.concrete:
            v = bool(self.model.get(name, False))
        else:
            v = Var(name, "B")
        self.vars[name] = v
        return v

    def fresh_int(self, hint="t", lo=None, hi=None):
        return self.int(self.fresh_name(hint), lo, hi)

    def fresh_bool(self, hint="b"):
        return self.bool(self.fresh_name(hint))

    # -- assumptions / decisions -----------------------------------------------------------------------
    def assume(self, c):
        c = tobool(c)
        if c is True:
            return
        if c is False:
            raise Infeasible("assume(False)")
        if self.concrete:
            raise EngineError("symbolic assumption in concrete mode")
        self.pc.append(c.t)
        self.solver.add(c.t)

    def assume_checked(self, c):
        """assume and abandon the path if the path condition became unsatisfiable"""
        self.assume(c)
        if not self.concrete and self.solver.feasible(True) == "unsat":
            raise Infeasible("assumption contradicts path condition")

    def decide(self, c, hint="", payload=None):
        """concrete truth value of scalar c on this path (forks)"""
        c = tobool(c)
        if isinstance(c, bool):
            return c
        if self.concrete:
            raise EngineError("symbolic decision in concrete mode: %r" % (c,))
        idx = len(self.decisions)
        fp = show(c.t)[:200]
        if idx < len(self.prefix):
            taken = self.prefix[idx][0]
            self.decisions.append((taken, False, fp, payload))
        else:
            ft = self.solver.feasible(c.t)
            ff = self.solver.feasible(("not", c.t))
            if ft == "unsat" and ff == "unsat":
                raise Infeasible("path condition unsatisfiable")
            if ft == "unsat":
                taken, alt = False, False
            elif ff == "unsat":
                taken, alt = True, False
            else:
                taken, alt = True, True
            self.decisions.append((taken, alt, fp, payload))
        t = c.t if taken else ("not", c.t)
        self.pc.append(t)
        self.solver.add(t)
        return taken

    def pick_value(self, v, what="value", limit=300):
        """concrete value of a symbolic integer on this path: a feasible value is taken from a model of the path condition
        and decided (v == value); the other branch excludes it and picks the next one.  The chosen values are recorded in the
        decision vector so that re-execution is deterministic."""
        from .terms import Eq, is_sym, b2i
        if not is_sym(v):
            return v
        v = b2i(v)
        if self.concrete:
            raise EngineError("symbolic value in concrete mode")
        for _ in range(limit):
            idx = len(self.decisions)
            if idx < len(self.prefix):
                val = self.prefix[idx][1]
                if val is None:
                    raise EngineError("non-deterministic re-execution: value decision expected")
            else:
                val = self.solver.model_value(v.t)
                if val is None:
                    raise Infeasible("no value")
            if self.decide(Eq(v, val), payload=val):
                return val
        raise Unsupported("%s has more than %d feasible values on one path" % (what, limit))

    def choose(self, n, hint="choice"):
        """nondeterministic choice in range(n) (used for lazy initialisation); encoded as binary decisions on
        fresh booleans so that the exploration enumerates all of them."""
        if n <= 0:
            raise Infeasible("empty choice")
        if n == 1:
            return 0
        if self.concrete:
            name = self.fresh_name(hint)
            return int(self.model.get(name, 0)) % n
        name = self.fresh_name(hint)
        v = self.int(name, 0, n - 1)
        lo, hi = 0, n - 1
        while lo < hi:
            mid = (lo + hi) // 2
            if self.decide(mk_cmp("le", v, mid)):
                hi = mid
            else:
                lo = mid + 1
        return lo

    # -- obligations -----------------------------------------------------------------------------------
    def oblige(self, goal, kind, label, info=None):
        """record `pc => goal` as an obligation; it is discharged by the caller (explore)"""
        goal = tobool(goal)
        self.obligations.append({"kind": kind, "label": label, "pc": list(self.pc),
                                 "goal": goal if isinstance(goal, bool) else goal.t, "info": info or {}})

    def tick(self, limit):
        self.steps += 1
        if self.steps > limit:
            raise Unsupported("step budget exceeded on one path (%d)" % limit)


def explore(run, max_paths=20000, rlimit=None, on_path=None):
    """run(path) is executed once per feasible decision vector.  Returns the list of finished paths'
    (decisions, obligations, outcome)."""
    stack = [[]]
    results = []
    n = 0
    while stack:
        prefix = stack.pop()
        n += 1
        if n > max_paths:
            raise Unsupported("path budget exceeded (%d)" % max_paths)
        path = Path(prefix, rlimit=rlimit)
        outcome = None
        try:
            outcome = run(path)
        except Infeasible as e:
            outcome = ("infeasible", str(e))
        # schedule alternatives of the *new* decisions
        dec = path.decisions
        if len(dec) < len(prefix):
            if outcome is None or outcome[0] != "infeasible":
                raise EngineError("non-deterministic re-execution: fewer decisions than the prefix")
        for i in range(len(prefix), len(dec)):
            taken, alt, _fp, payload = dec[i]
            if alt:
                stack.append([(d[0], d[3]) for d in dec[:i]] + [(not taken, payload)])
        results.append(path)
        path.outcome = outcome
        if on_path:
            on_path(path)
    return results
